//! C20: the dictionary builder over a grid of (true length, estimate, requested size) x source kinds.
use crate::util::*;
use serde_json::{json, Value};
use std::io::Write;
use std::sync::atomic::{AtomicU64, Ordering};

static BEAT: AtomicU64 = AtomicU64::new(0);

/// A reader that cuts its answers: by a script of prescribed answer sizes first, then by a fixed chunk (0 = in full).
struct CutReader {
    data: Vec<u8>,
    pos: usize,
    script: std::collections::VecDeque<usize>,
    chunk: usize,
}
impl std::io::Read for CutReader {
    fn read(&mut self, buf: &mut [u8]) -> std::io::Result<usize> {
        BEAT.fetch_add(1, Ordering::Relaxed);
        let mut n = buf.len().min(self.data.len() - self.pos);
        if let Some(k) = self.script.pop_front() {
            n = n.min(k);
        } else if self.chunk > 0 {
            n = n.min(self.chunk);
        }
        buf[..n].copy_from_slice(&self.data[self.pos..self.pos + n]);
        self.pos += n;
        if n == 0 {
            // a reader at its end does not count as progress: the watchdog must see a loop that only polls it
            BEAT.fetch_sub(1, Ordering::Relaxed);
        }
        Ok(n)
    }
}

/// c20exec <seed> <quick|thorough> <rows.ndjson> <report.json> [fill_cases.ndjson]
pub fn c20exec(args: &[String]) {
    quiet_panics();
    let seed: u64 = args[0].parse().unwrap();
    let quick = args[1] == "quick";
    let mut w = std::io::BufWriter::new(std::fs::File::create(&args[2]).unwrap());
    let grid: Vec<usize> = vec![0, 1, 15, 16, 17, 99, 100, 101, 2047, 2048, 2049, 4096, 10000, 100000];
    let current = std::sync::Arc::new(std::sync::Mutex::new(String::new()));
    let cur2 = current.clone();
    std::thread::spawn(move || {
        let mut last = BEAT.load(Ordering::Relaxed);
        let mut since = std::time::Instant::now();
        let mut since_cpu = cpu_ticks(None);
        loop {
            std::thread::sleep(std::time::Duration::from_millis(500));
            let now = BEAT.load(Ordering::Relaxed);
            if now != last {
                last = now;
                since = std::time::Instant::now();
                since_cpu = cpu_ticks(None);
            } else if cpu_ticks(None) - since_cpu > 3000 || since.elapsed().as_secs() > 1200 {
                // 30 s of CPU time (or 20 min of wall time) without a step forward
                println!("{}", json!({"hang": *cur2.lock().unwrap()}));
                std::process::exit(3);
            }
        }
    });
    let (mut n, mut panics) = (0u64, 0u64);
    let mut bad: Vec<Value> = vec![];
    let mut specials: Vec<Value> = vec![];
    let kinds = if quick { vec!["random", "uniform"] } else { vec!["random", "uniform", "periodic"] };
    let mut run = |t: usize, e: usize, d: usize, kind: &str, script: &[usize], chunk: usize| -> (bool, usize, String) {
        let src: Vec<u8> = match kind {
            "uniform" => vec![b'A'; t],
            "periodic" => (0..t).map(|i| (i % 37) as u8).collect(),
            _ => {
                let mut c = (seed as u32) ^ (t as u32).wrapping_mul(2654435761);
                (0..t).map(|_| { c = c.wrapping_mul(1103515245).wrapping_add(12345); (c >> 16) as u8 }).collect()
            }
        };
        *current.lock().unwrap() = format!("T={t} E={e} D={d} {kind} reader: script {script:?} then chunks of {chunk} (0 = full)");
        BEAT.fetch_add(1, Ordering::Relaxed);
        fastrand::seed(seed ^ ((t as u64) << 20) ^ e as u64);
        let r = std::panic::catch_unwind(|| {
            let mut out: Vec<u8> = vec![];
            if script.is_empty() && chunk == 0 {
                ruzstd::dictionary::create_raw_dict_from_source(std::io::Cursor::new(src), e, &mut out, d);
            } else {
                ruzstd::dictionary::create_raw_dict_from_source(CutReader { data: src, pos: 0, script: script.iter().cloned().collect(), chunk }, e, &mut out, d);
            }
            out.len()
        });
        match r {
            Ok(l) => (false, l, String::new()),
            Err(p) => (true, 0, panic_msg(p)),
        }
    };
    // estimates whose sample ends in a segment shorter than one k-mer (1, 8, 15 bytes) or exactly one (16), and sources a
    // little longer than those samples (DictBuilder!GridE / GridT)
    let mut grid_e = grid.clone();
    grid_e.extend_from_slice(&[524544, 526336, 528128, 1052672]);
    let mut grid_t = grid.clone();
    grid_t.extend_from_slice(&[2156, 4200]);
    for &t in &grid_t {
        for &e in &grid_e {
            for &d in &grid {
                if quick && (t + e + d) % 3 == 1 && t > 101 && e > 101 {
                    continue;
                }
                // the builder needs about a second per 1000 source bytes with these large samples: only the sources near them
                if e > 100000 && (t > 4200 || (quick && d > 4096)) {
                    continue;
                }
                for kind in &kinds {
                    // readers: in full; and (on a part of the grid) cut into chunks of 1 / 7 / 100 bytes or with a short first answer
                    let mut readers: Vec<(&str, Vec<usize>, usize)> = vec![("full", vec![], 0)];
                    if t <= 10000 || !quick {
                        readers.push(("chunk7", vec![], 7));
                        readers.push(("first_short", vec![10], 0));
                        if !quick || (t + e + d) % 2 == 0 {
                            readers.push(("chunk100", vec![], 100));
                            readers.push(("chunk1", vec![], 1));
                        }
                    }
                    for (rname, script, chunk) in readers {
                        n += 1;
                        let (panic, len, msg) = run(t, e, d, kind, &script, chunk);
                        if panic {
                            panics += 1;
                            if bad.len() < 10 {
                                bad.push(json!({"T": t, "E": e, "D": d, "source": kind, "reader": rname, "panic": msg}));
                            }
                        }
                        serde_json::to_writer(&mut w, &json!({"T": t, "E": e, "D": d, "source": kind, "reader": rname, "panic": panic, "timeout": false, "len": len})).unwrap();
                        w.write_all(b"\n").unwrap();
                    }
                }
            }
        }
    }
    // the (length, script) cases enumerated by TLC from ReservoirFill.tla, smallest sample (E = 16)
    let mut fill_cases = 0u64;
    if let Some(p) = args.get(4) {
        use std::io::BufRead;
        for line in std::io::BufReader::new(std::fs::File::open(p).unwrap()).lines() {
            let c: Value = serde_json::from_str(&line.unwrap()).unwrap();
            let t = c["T"].as_u64().unwrap() as usize;
            let script: Vec<usize> = c["script"].as_array().map(|a| a.iter().map(|x| x.as_u64().unwrap() as usize).collect()).unwrap_or_default();
            for d in [0usize, 8, 64] {
                if quick && (t + d + script.len()) % 3 != 0 {
                    continue;
                }
                fill_cases += 1;
                n += 1;
                let (panic, len, msg) = run(t, 16, d, "random", &script, 0);
                if panic {
                    panics += 1;
                    if bad.len() < 10 {
                        bad.push(json!({"T": t, "E": 16, "D": d, "source": "random", "reader": format!("script {script:?}"), "panic": msg}));
                    }
                }
                serde_json::to_writer(&mut w, &json!({"T": t, "E": 16, "D": d, "source": "random", "reader": "script", "script": script, "panic": panic, "timeout": false, "len": len})).unwrap();
                w.write_all(b"\n").unwrap();
            }
        }
    }
    w.flush().unwrap();
    // estimates beyond 32 bits (not representable in TLC): judged here against the documented promise only
    for (t, e, d) in [(1000usize, 1usize << 32, 512usize), (0, 1 << 32, 64), (5000, (1 << 32) + 5, 100), (300, (1 << 33), 0), (100000, u32::MAX as usize, 2048)] {
        let (panic, len, msg) = run(t, e, d, "random", &[], 0);
        let ok = !panic && len <= d;
        specials.push(json!({"T": t, "E": e, "D": d, "panic": panic, "len": len, "ok": ok, "message": msg}));
    }
    write_json(&args[3], &json!({"runs": n, "panics": panics, "first": bad, "specials": specials, "fill_cases": fill_cases}));
}

/// c20one <T> <E> <D>: one run on a pseudo-random source, prints the time
pub fn c20one(args: &[String]) {
    let (t, e, d): (usize, usize, usize) = (args[0].parse().unwrap(), args[1].parse().unwrap(), args[2].parse().unwrap());
    let mut c = 12345u32;
    let src: Vec<u8> = (0..t).map(|_| { c = c.wrapping_mul(1103515245).wrapping_add(12345); (c >> 16) as u8 }).collect();
    fastrand::seed(7);
    let t0 = std::time::Instant::now();
    let mut out: Vec<u8> = vec![];
    ruzstd::dictionary::create_raw_dict_from_source(std::io::Cursor::new(src), e, &mut out, d);
    println!("T={t} E={e} D={d}: {} bytes in {:?}", out.len(), t0.elapsed());
}
