//! C20: the dictionary builder over a grid of (true length, estimate, requested size) x source kinds.
use crate::util::*;
use serde_json::{json, Value};
use std::io::Write;
use std::sync::atomic::{AtomicU64, Ordering};

static BEAT: AtomicU64 = AtomicU64::new(0);

/// c20exec <seed> <quick|thorough> <rows.ndjson> <report.json>
pub fn c20exec(args: &[String]) {
    quiet_panics();
    let seed: u64 = args[0].parse().unwrap();
    let quick = args[1] == "quick";
    let mut w = std::io::BufWriter::new(std::fs::File::create(&args[2]).unwrap());
    let grid: Vec<usize> = vec![0, 1, 15, 16, 17, 99, 100, 101, 2047, 2048, 2049, 4096, 10000, 100000];
    let current = std::sync::Arc::new(std::sync::Mutex::new(String::new()));
    let cur2 = current.clone();
    std::thread::spawn(move || {
        let mut last = BEAT.load(Ordering::Relaxed);
        let mut since = std::time::Instant::now();
        loop {
            std::thread::sleep(std::time::Duration::from_millis(500));
            let now = BEAT.load(Ordering::Relaxed);
            if now != last {
                last = now;
                since = std::time::Instant::now();
            } else if since.elapsed().as_secs() > 60 {
                println!("{}", json!({"hang": *cur2.lock().unwrap()}));
                std::process::exit(3);
            }
        }
    });
    let (mut n, mut panics) = (0u64, 0u64);
    let mut bad: Vec<Value> = vec![];
    let mut specials: Vec<Value> = vec![];
    let kinds = if quick { vec!["random", "uniform"] } else { vec!["random", "uniform", "periodic"] };
    let mut run = |t: usize, e: usize, d: usize, kind: &str| -> (bool, usize, String) {
        let src: Vec<u8> = match kind {
            "uniform" => vec![b'A'; t],
            "periodic" => (0..t).map(|i| (i % 37) as u8).collect(),
            _ => {
                let mut c = (seed as u32) ^ (t as u32).wrapping_mul(2654435761);
                (0..t).map(|_| { c = c.wrapping_mul(1103515245).wrapping_add(12345); (c >> 16) as u8 }).collect()
            }
        };
        *current.lock().unwrap() = format!("T={t} E={e} D={d} {kind}");
        BEAT.fetch_add(1, Ordering::Relaxed);
        fastrand::seed(seed ^ ((t as u64) << 20) ^ e as u64);
        let r = std::panic::catch_unwind(|| {
            let mut out: Vec<u8> = vec![];
            ruzstd::dictionary::create_raw_dict_from_source(std::io::Cursor::new(src), e, &mut out, d);
            out.len()
        });
        match r {
            Ok(l) => (false, l, String::new()),
            Err(p) => (true, 0, panic_msg(p)),
        }
    };
    for &t in &grid {
        for &e in &grid {
            for &d in &grid {
                if quick && (t + e + d) % 3 == 1 && t > 101 && e > 101 {
                    continue;
                }
                for kind in &kinds {
                    n += 1;
                    let (panic, len, msg) = run(t, e, d, kind);
                    if panic {
                        panics += 1;
                        if bad.len() < 10 {
                            bad.push(json!({"T": t, "E": e, "D": d, "source": kind, "panic": msg}));
                        }
                    }
                    serde_json::to_writer(&mut w, &json!({"T": t, "E": e, "D": d, "source": kind, "panic": panic, "timeout": false, "len": len})).unwrap();
                    w.write_all(b"\n").unwrap();
                }
            }
        }
    }
    w.flush().unwrap();
    // estimates beyond 32 bits (not representable in TLC): judged here against the documented promise only
    for (t, e, d) in [(1000usize, 1usize << 32, 512usize), (0, 1 << 32, 64), (5000, (1 << 32) + 5, 100), (300, (1 << 33), 0), (100000, u32::MAX as usize, 2048)] {
        let (panic, len, msg) = run(t, e, d, "random");
        let ok = !panic && len <= d;
        specials.push(json!({"T": t, "E": e, "D": d, "panic": panic, "len": len, "ok": ok, "message": msg}));
    }
    write_json(&args[3], &json!({"runs": n, "panics": panics, "first": bad, "specials": specials}));
}
