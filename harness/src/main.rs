mod enc;
mod fd;
mod gen;
mod frames;
mod fsecodec;
mod ring;
mod util;

fn main() {
    let args: Vec<String> = std::env::args().collect();
    if args.len() < 2 {
        eprintln!("usage: vh <command> ...");
        std::process::exit(2);
    }
    let rest = &args[2..];
    match args[1].as_str() {
        "ringexec" => ring::ringexec(rest),
        "ringrand" => ring::ringrand(rest),
        "ringk" => ring::ringk(rest),
        "fdframes" => fd::fdframes(rest),
        "fdexec" => fd::fdexec(rest),
        "fdrand" => fd::fdrand(rest),
        "mfitems" => fd::mfitems(rest),
        "mfexec" => fd::mfexec(rest),
        "truncsweep" => fd::truncsweep(rest),
        "realtrunc" => fd::realtrunc(rest),
        "mkcorpus" => gen::mkcorpus(rest),
        "encexec" => enc::encexec(rest),
        "encgraph" => enc::encgraph(rest),
        "decbufrand" => ring::decbufrand(rest),
        other => {
            eprintln!("unknown command {other}");
            std::process::exit(2);
        }
    }
}
