mod c03;
mod dictb;
mod enc;
mod fd;
mod fmt;
mod gen;
mod hufcodec;
mod hufx;
mod mat;
mod um;
mod frames;
mod fsecodec;
mod fsex;
mod ring;
mod util;
mod zf;

use std::alloc::{GlobalAlloc, Layout, System};
use std::sync::atomic::{AtomicUsize, Ordering};

/// Counting allocator: live bytes and their peak (C05, C11 measure what a call allocates).
struct Counting;
static LIVE: AtomicUsize = AtomicUsize::new(0);
static PEAK: AtomicUsize = AtomicUsize::new(0);
static BIGGEST: AtomicUsize = AtomicUsize::new(0);
static CAP: AtomicUsize = AtomicUsize::new(12 << 30);
unsafe impl GlobalAlloc for Counting {
    unsafe fn alloc(&self, l: Layout) -> *mut u8 {
        // hard cap (VH_HEAP_CAP bytes, default 12 GiB): a runaway allocation of the code under test ends this process
        // (allocation failure -> abort) instead of the sandbox
        if LIVE.load(Ordering::Relaxed) + l.size() > CAP.load(Ordering::Relaxed) {
            let c = c03::CURRENT_CASE.load(Ordering::Relaxed);
            if c != u64::MAX {
                // C03 run: name the case and stop (printing allocates nothing this way)
                use std::io::Write;
                let mut buf = [0u8; 64];
                let mut cur = std::io::Cursor::new(&mut buf[..]);
                let _ = write!(cur, "{{\"heapcap\": {}, \"request\": {}}}\n", c, l.size());
                let n = cur.position() as usize;
                let _ = std::io::stdout().write_all(&buf[..n]);
                std::process::exit(4);
            }
            return std::ptr::null_mut();
        }
        let p = System.alloc(l);
        if !p.is_null() {
            let now = LIVE.fetch_add(l.size(), Ordering::Relaxed) + l.size();
            PEAK.fetch_max(now, Ordering::Relaxed);
            BIGGEST.fetch_max(l.size(), Ordering::Relaxed);
        }
        p
    }
    unsafe fn dealloc(&self, p: *mut u8, l: Layout) {
        LIVE.fetch_sub(l.size(), Ordering::Relaxed);
        System.dealloc(p, l)
    }
    unsafe fn realloc(&self, p: *mut u8, l: Layout, new: usize) -> *mut u8 {
        if new > l.size() && LIVE.load(Ordering::Relaxed) + (new - l.size()) > CAP.load(Ordering::Relaxed) {
            return std::ptr::null_mut();
        }
        let q = System.realloc(p, l, new);
        if !q.is_null() {
            if new > l.size() {
                let now = LIVE.fetch_add(new - l.size(), Ordering::Relaxed) + new - l.size();
                PEAK.fetch_max(now, Ordering::Relaxed);
                BIGGEST.fetch_max(new, Ordering::Relaxed);
            } else {
                LIVE.fetch_sub(l.size() - new, Ordering::Relaxed);
            }
        }
        q
    }
}
#[global_allocator]
static ALLOC: Counting = Counting;
pub fn alloc_now() -> usize {
    LIVE.load(Ordering::Relaxed)
}
pub fn alloc_peak() -> usize {
    PEAK.load(Ordering::Relaxed)
}
pub fn alloc_biggest() -> usize {
    BIGGEST.load(Ordering::Relaxed)
}
pub fn alloc_reset_peak() {
    PEAK.store(LIVE.load(Ordering::Relaxed), Ordering::Relaxed);
    BIGGEST.store(0, Ordering::Relaxed);
}

fn main() {
    if let Ok(c) = std::env::var("VH_HEAP_CAP") {
        if let Ok(v) = c.parse::<usize>() {
            CAP.store(v, Ordering::Relaxed);
        }
    }
    let args: Vec<String> = std::env::args().collect();
    if args.len() < 2 {
        eprintln!("usage: vh <command> ...");
        std::process::exit(2);
    }
    let rest = &args[2..];
    match args[1].as_str() {
        "ringexec" => ring::ringexec(rest),
        "ringrand" => ring::ringrand(rest),
        "ringk" => ring::ringk(rest),
        "fdframes" => fd::fdframes(rest),
        "fdexec" => fd::fdexec(rest),
        "fdrand" => fd::fdrand(rest),
        "fdtrace" => fd::fdtrace(rest),
        "fddiff" => fd::fddiff(rest),
        "mfitems" => fd::mfitems(rest),
        "mfexec" => fd::mfexec(rest),
        "truncsweep" => fd::truncsweep(rest),
        "realtrunc" => fd::realtrunc(rest),
        "c05exec" => fd::c05exec(rest),
        "c05case" => fd::c05case(rest),
        "c11exec" => fd::c11exec(rest),
        "c03exec" => c03::c03exec(rest),
        "c17rows" => mat::c17rows(rest),
        "c16classes" => um::c16classes(rest),
        "c16tiny" => um::c16tiny(rest),
        "seqhist" => um::seqhist(rest),
        "c16chains" => um::c16chains(rest),
        "zstdcat" => util::zstdcat(rest),
        "c20exec" => dictb::c20exec(rest),
        "c20one" => dictb::c20one(rest),
        "c14rows" => fmt::c14rows(rest),
        "c12dec" => fsex::c12dec(rest),
        "c12enc" => fsex::c12enc(rest),
        "c13dec" => hufx::c13dec(rest),
        "c13enc" => hufx::c13enc(rest),
        "c13fse" => hufx::c13fse(rest),
        "zfexec" => zf::zfexec(rest),
        "seqrows" => zf::seqrows(rest),
        "seqstream" => zf::seqstream(rest),
        "dictinfo" => zf::dictinfo(rest),
        "c09trained" => zf::c09trained(rest),
        "mkcorpus" => gen::mkcorpus(rest),
        "encexec" => enc::encexec(rest),
        "encgeom" => enc::encgeom(rest),
        "encgraph" => enc::encgraph(rest),
        "decbufrand" => ring::decbufrand(rest),
        other => {
            eprintln!("unknown command {other}");
            std::process::exit(2);
        }
    }
}
