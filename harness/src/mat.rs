//! C17: the real built-in match finder driven exhaustively over small alphabets with scaled-down windows
//! (hook H6 constructor), every reported sequence dumped as rows for MatcherRows.tla; full-size seeded runs.
use crate::gen::gen_input;
use crate::util::*;
use rand::{rngs::SmallRng, Rng, SeedableRng};
use ruzstd::encoding::{CompressionLevel, MatchGeneratorDriver, Matcher, Sequence};
use serde_json::{json, Value};
use std::io::Write;

/// Commits up to `lens[i]` bytes per block (fewer when the driver hands out a shorter space: the interface allows any
/// length) and returns (lengths actually committed, per block report).
fn drive(m: &mut MatchGeneratorDriver, data: &[u8], lens: &[usize], skipmask: u32) -> (Vec<usize>, Vec<Value>) {
    let mut pos = 0;
    let mut blocks = vec![];
    let mut actual = vec![];
    for (bi, len) in lens.iter().enumerate() {
        let mut space = m.get_next_space();
        let len = (*len).min(space.len());
        space.truncate(len);
        space.copy_from_slice(&data[pos..pos + len]);
        pos += len;
        actual.push(len);
        m.commit_space(space);
        if (skipmask >> bi) & 1 == 1 {
            m.skip_matching();
            blocks.push(json!({"skip": true, "seqs": []}));
        } else {
            let mut seqs: Vec<Value> = vec![];
            m.start_matching(|s| match s {
                Sequence::Triple { literals, offset, match_len } => seqs.push(json!([literals, offset, match_len])),
                Sequence::Literals { literals } => seqs.push(json!([literals, 0, 0])),
            });
            blocks.push(json!({"skip": false, "seqs": seqs}));
        }
    }
    (actual, blocks)
}

/// c17rows <seed> <quick|thorough> <rows.ndjson> <report.json>
pub fn c17rows(args: &[String]) {
    quiet_panics();
    let seed: u64 = args[0].parse().unwrap();
    let quick = args[1] == "quick";
    let mut w = std::io::BufWriter::new(std::fs::File::create(&args[2]).unwrap());
    let mut rng = SmallRng::seed_from_u64(seed ^ 0x17);
    let (mut runs, mut rows, mut with_match, mut panics_n) = (0u64, 0u64, 0u64, 0u64);
    let mut panics: Vec<Value> = vec![];
    let mut samples: Vec<Value> = vec![];
    // (slice size, block length tuples): lengths up to the slice size
    let mut configs: Vec<(usize, Vec<Vec<usize>>)> = vec![
        (6, vec![vec![6], vec![5, 5], vec![6, 6], vec![5, 6], vec![6, 5], vec![3, 6, 5], vec![6, 2, 6], vec![5, 5, 4], vec![5, 2, 6], vec![6, 1, 6]]),
        (7, vec![vec![7, 7], vec![7, 6], vec![5, 2, 7]]),
        // a new block that pushes out two entries at once (the second one long enough to be matched if it stayed)
        (8, vec![vec![1, 6, 8]]),
    ];
    if !quick {
        configs.push((8, vec![vec![8, 8], vec![8, 6], vec![4, 4, 8], vec![2, 6, 8]]));
        configs.push((5, vec![vec![5, 5, 5], vec![5, 5, 5, 5]]));
    }
    let mut emit = |row: Value, w: &mut std::io::BufWriter<std::fs::File>| {
        serde_json::to_writer(&mut *w, &row).unwrap();
        w.write_all(b"\n").unwrap();
    };
    for (slice, tuples) in &configs {
        for slices in 1..=3usize {
            for t in tuples {
                let total: usize = t.iter().sum();
                if total > 20 {
                    continue;
                }
                for bits in 0..(1u32 << total) {
                    let data: Vec<u8> = (0..total).map(|i| ((bits >> i) & 1) as u8).collect();
                    for skipmask in [0u32, 1, 2] {
                        if skipmask >= (1 << t.len()) {
                            continue;
                        }
                        runs += 1;
                        // a driver that is reset and reused (recycled buffers) every other run
                        let d2 = data.clone();
                        let res = std::panic::catch_unwind(move || {
                            let mut m = MatchGeneratorDriver::verif_new(*slice, slices);
                            m.reset(CompressionLevel::Fastest);
                            if bits % 2 == 1 {
                                // history before the reset: must not matter afterwards
                                let _ = drive(&mut m, &d2, &[t[0]], 0);
                                m.reset(CompressionLevel::Fastest);
                            }
                            let ws = m.window_size();
                            (ws, drive(&mut m, &d2, t, skipmask))
                        });
                        match res {
                            Err(p) => {
                                panics_n += 1;
                                if panics.len() < 5 {
                                    panics.push(json!({"slice": slice, "slices": slices, "lens": t, "data": data, "skipmask": skipmask, "panic": panic_msg(p)}));
                                }
                            }
                            Ok((ws, (alens, blocks))) => {
                                let total_a: usize = alens.iter().sum();
                                let data = data[..total_a].to_vec();
                                let has_match = blocks.iter().any(|b| b["seqs"].as_array().unwrap().iter().any(|s| s[2].as_u64().unwrap() > 0));
                                if has_match {
                                    with_match += 1;
                                }
                                // all runs with a match, a sample of the others
                                if has_match || runs % 53 == 0 {
                                    let row = json!({"slices": slices, "slice": slice, "ws": ws, "lens": alens, "data": data, "blocks": blocks, "minmatch": 5, "builtin": true});
                                    if samples.len() < 2 && has_match {
                                        samples.push(row.clone());
                                    }
                                    emit(row, &mut w);
                                    rows += 1;
                                }
                            }
                        }
                    }
                }
            }
        }
    }
    // three letters, shorter strings
    for slices in 1..=2usize {
        for t in [vec![5usize, 5], vec![6, 4], vec![5, 3, 2]] {
            let total: usize = t.iter().sum();
            let mut code = 0u32;
            let max = 3u32.pow(total as u32);
            while code < max {
                let mut c = code;
                let data: Vec<u8> = (0..total).map(|_| { let d = (c % 3) as u8; c /= 3; d }).collect();
                runs += 1;
                let d2 = data.clone();
                let t2 = t.clone();
                if let Ok((ws, (alens, blocks))) = std::panic::catch_unwind(move || {
                    let mut m = MatchGeneratorDriver::verif_new(6, slices);
                    m.reset(CompressionLevel::Fastest);
                    (m.window_size(), drive(&mut m, &d2, &t2, 0))
                }) {
                    if blocks.iter().any(|b| b["seqs"].as_array().unwrap().iter().any(|s| s[2].as_u64().unwrap() > 0)) {
                        with_match += 1;
                        let total_a: usize = alens.iter().sum();
                        emit(json!({"slices": slices, "slice": 6, "ws": ws, "lens": alens, "data": data[..total_a], "blocks": blocks, "minmatch": 5, "builtin": true}), &mut w);
                        rows += 1;
                    }
                } else {
                    panics_n += 1;
                }
                code += if quick { 3 } else { 1 };
            }
        }
    }
    w.flush().unwrap();
    // full-size seeded runs, checked in place with the same rule (true match, in window, retained, tiling)
    let mut full_bad: Vec<Value> = vec![];
    let mut full_runs = 0u64;
    for k in 0..(if quick { 6 } else { 40 }) {
        let slices = 1 + k % 3;
        // "doubled": full 128 KiB blocks whose second half repeats the first (the longest match one block can hold: 65 536 bytes)
        let doubled = k % 6 == 5;
        let slice = if doubled { 1 << 17 } else { [1 << 17, 1 << 16, 4096][k % 3] };
        let nblocks = rng.gen_range(2..7);
        let class = if doubled { "doubled" } else { ["text", "mixed", "periodic", "skewed_match", "runs"][k % 5] };
        let data = if doubled {
            let mut v: Vec<u8> = Vec::with_capacity(slice * nblocks);
            for _ in 0..nblocks {
                let half: Vec<u8> = (0..slice / 2).map(|_| rng.gen()).collect();
                v.extend_from_slice(&half);
                v.extend_from_slice(&half);
            }
            v
        } else {
            gen_input(class, slice * nblocks - rng.gen_range(0..slice / 2), &mut rng)
        };
        full_runs += 1;
        let d2 = data.clone();
        let r = std::panic::catch_unwind(move || -> Result<(), String> {
            let mut m = MatchGeneratorDriver::verif_new(slice, slices);
            m.reset(CompressionLevel::Fastest);
            let mut lr = SmallRng::seed_from_u64(k as u64 * 77 + 5);
            if k % 2 == 1 {
                // a history before the reset: blocks of mixed lengths whose buffers get recycled
                for j in 0..(1 + k % 4) {
                    let mut space = m.get_next_space();
                    let len = (slice / (j + 2)).min(space.len()).min(d2.len());
                    space.truncate(len);
                    space.copy_from_slice(&d2[..len]);
                    m.commit_space(space);
                    if j % 2 == 0 { m.skip_matching() } else { m.start_matching(|_| {}) }
                }
                m.reset(CompressionLevel::Fastest);
            }
            let ws = m.window_size() as usize;
            let mut pos = 0usize;
            let mut bi = 0usize;
            while pos < d2.len() {
                let mut space = m.get_next_space();
                // mixed block lengths: full slices, short ones, and whatever the driver hands out
                let want = if doubled { slice } else { match (k + bi) % 4 { 0 | 1 => slice, 2 => lr.gen_range(1..=slice), _ => (slice / 4).max(1) } };
                bi += 1;
                let len = want.min(d2.len() - pos).min(space.len());
                if len == 0 {
                    return Err("get_next_space returned an empty buffer".into());
                }
                space.truncate(len);
                space.copy_from_slice(&d2[pos..pos + len]);
                m.commit_space(space);
                let mut p = pos;
                let mut err: Option<String> = None;
                let skip = bi % 5 == 4;
                if skip {
                    m.skip_matching();
                    p = pos + len;
                } else {
                    m.start_matching(|s| {
                        if err.is_some() {
                            return;
                        }
                        match s {
                            Sequence::Triple { literals, offset, match_len } => {
                                if d2[p..p + literals.len()] != *literals {
                                    err = Some(format!("literals at {p} are not the block's bytes"));
                                    return;
                                }
                                p += literals.len();
                                if match_len < 5 || offset == 0 || offset > ws || p < offset || p + match_len > pos + len {
                                    err = Some(format!("match at {p}: offset {offset} length {match_len} window {ws}"));
                                    return;
                                }
                                if d2[p - offset..p - offset + match_len] != d2[p..p + match_len] {
                                    err = Some(format!("match at {p}: bytes at distance {offset} differ"));
                                    return;
                                }
                                p += match_len;
                            }
                            Sequence::Literals { literals } => {
                                if d2[p..p + literals.len()] != *literals {
                                    err = Some(format!("trailing literals at {p} are not the block's bytes"));
                                }
                                p += literals.len();
                            }
                        }
                    });
                }
                if let Some(e) = err {
                    return Err(e);
                }
                if p != pos + len {
                    return Err(format!("block at {pos}: reports cover {} of {} bytes", p - pos, len));
                }
                pos += len;
            }
            Ok(())
        });
        match r {
            Err(p) => full_bad.push(json!({"run": k, "class": class, "slice": slice, "slices": slices, "error": format!("panic: {}", panic_msg(p))})),
            Ok(Err(e)) => full_bad.push(json!({"run": k, "class": class, "slice": slice, "slices": slices, "error": e})),
            Ok(Ok(())) => {}
        }
    }
    write_json(&args[3], &json!({"runs": runs, "rows": rows, "runs_with_match": with_match, "panics": panics_n, "panic_examples": panics, "samples": samples,
        "full_size_runs": full_runs, "full_size_failures": full_bad}));
}
