//! Independent FSE machinery for the frame serializer (RFC 8878 section 4.1): decoding-table construction,
//! table description writer, and backward encoding of symbol streams against a decoding table.
//! Nothing in here uses ruzstd; the TLA+ module FSE.tla is the reference both are compared with.
use crate::frames::{ll_code, ml_code, of_code, SeqMode};
use crate::util::BitW;

pub const LL_DEF: [i32; 36] = [4, 3, 2, 2, 2, 2, 2, 2, 2, 2, 2, 2, 2, 1, 1, 1, 2, 2, 2, 2, 2, 2, 2, 2, 2, 3, 2, 1, 1, 1, 1, 1, -1, -1, -1, -1];
pub const ML_DEF: [i32; 53] = [
    1, 4, 3, 2, 2, 2, 2, 2, 2, 1, 1, 1, 1, 1, 1, 1, 1, 1, 1, 1, 1, 1, 1, 1, 1, 1, 1, 1, 1, 1, 1, 1, 1, 1, 1, 1, 1, 1, 1, 1, 1, 1, 1, 1, 1, 1, -1, -1, -1, -1, -1, -1, -1,
];
pub const OF_DEF: [i32; 29] = [1, 1, 1, 1, 1, 1, 2, 2, 2, 1, 1, 1, 1, 1, 1, 1, 1, 1, 1, 1, 1, 1, 1, 1, -1, -1, -1, -1, -1];

#[derive(Clone, Debug, PartialEq)]
pub struct FseTable {
    pub al: u8,
    pub sym: Vec<u8>,
    pub nb: Vec<u8>,
    pub base: Vec<u32>,
}

fn highbit(x: u32) -> u32 {
    31 - x.leading_zeros()
}

/// RFC 8878 4.1.1: spread symbols, then assign number of bits and baselines.
pub fn build_table(al: u8, probs: &[i32]) -> FseTable {
    let size = 1usize << al;
    let mut sym = vec![0u8; size];
    let mut taken = vec![false; size];
    let mut hi = size;
    for (s, &p) in probs.iter().enumerate() {
        if p == -1 {
            hi -= 1;
            sym[hi] = s as u8;
            taken[hi] = true;
        }
    }
    let step = (size >> 1) + (size >> 3) + 3;
    let mut pos = 0usize;
    for (s, &p) in probs.iter().enumerate() {
        if p <= 0 {
            continue;
        }
        for _ in 0..p {
            sym[pos] = s as u8;
            loop {
                pos = (pos + step) & (size - 1);
                if pos < hi {
                    break;
                }
            }
        }
    }
    let mut nb = vec![0u8; size];
    let mut base = vec![0u32; size];
    let mut seen = vec![0u32; probs.len()];
    for st in 0..size {
        let s = sym[st] as usize;
        let p = probs[s];
        if p == -1 {
            nb[st] = al;
            base[st] = 0;
            continue;
        }
        let p = p as u32;
        let k = seen[s];
        seen[s] += 1;
        let lg = if p.is_power_of_two() { highbit(p) } else { highbit(p) + 1 };
        let slices = 1u32 << lg;
        let dbl = slices - p;
        let sgl = p - dbl;
        let width = (size as u32) / slices;
        let nbits = al as u32 - lg;
        if k < dbl {
            nb[st] = (nbits + 1) as u8;
            base[st] = sgl * width + k * width * 2;
        } else {
            nb[st] = nbits as u8;
            base[st] = (k - dbl) * width;
        }
    }
    FseTable { al, sym, nb, base }
}

/// Table description (RFC 8878 4.1.1), padded to a byte boundary.
pub fn write_description(al: u8, probs: &[i32]) -> Vec<u8> {
    let mut w = BitW::new();
    w.put((al - 5) as u64, 4);
    let size = 1i32 << al;
    let mut counter = 0i32;
    let mut i = 0usize;
    while counter < size && i < probs.len() {
        let p = probs[i];
        let maxrem = (size - counter + 1) as u32;
        let nbits = highbit(maxrem) + 1;
        let low = ((1u32 << nbits) - 1) - maxrem;
        let mask = (1u32 << (nbits - 1)) - 1;
        let value = (p + 1) as u32;
        if value < low {
            w.put(value as u64, nbits - 1);
        } else if value > mask {
            w.put((value + low) as u64, nbits);
        } else {
            w.put(value as u64, nbits);
        }
        counter += if p == -1 { 1 } else { p };
        i += 1;
        if p == 0 {
            let mut z = 0;
            while i + z < probs.len() && probs[i + z] == 0 {
                z += 1;
            }
            let mut left = z;
            loop {
                if left >= 3 {
                    w.put(3, 2);
                    left -= 3;
                } else {
                    w.put(left as u64, 2);
                    break;
                }
            }
            i += z;
        }
    }
    w.flush()
}

#[derive(Clone, Debug)]
pub enum TableKind {
    Rle(u8),
    Fse(FseTable),
}

#[derive(Clone, Debug, Default)]
pub struct SeqTables {
    pub ll: Option<TableKind>,
    pub of: Option<TableKind>,
    pub ml: Option<TableKind>,
}

/// States visited by the decoder for `symbols` (backward construction). Err if a symbol has no state.
pub fn states_for(t: &FseTable, symbols: &[u8]) -> Result<Vec<usize>, String> {
    let n = symbols.len();
    let mut st = vec![0usize; n];
    if n == 0 {
        return Ok(st);
    }
    st[n - 1] = (0..t.sym.len()).find(|&s| t.sym[s] == symbols[n - 1]).ok_or_else(|| format!("symbol {} not in table", symbols[n - 1]))?;
    for i in (0..n - 1).rev() {
        let next = st[i + 1] as u32;
        st[i] = (0..t.sym.len())
            .find(|&s| t.sym[s] == symbols[i] && next >= t.base[s] && next < t.base[s] + (1u32 << t.nb[s]))
            .ok_or_else(|| format!("symbol {} cannot precede state {}", symbols[i], next))?;
    }
    Ok(st)
}

fn resolve(mode: &SeqMode, prev: &Option<TableKind>, def_al: u8, def: &[i32], syms: &[u8], out_tbl: &mut Vec<u8>) -> Result<TableKind, String> {
    match mode {
        SeqMode::Predef => Ok(TableKind::Fse(build_table(def_al, def))),
        SeqMode::Rle(c) => {
            if syms.iter().any(|s| s != c) {
                return Err("RLE mode needs a single code".into());
            }
            out_tbl.push(*c);
            Ok(TableKind::Rle(*c))
        }
        SeqMode::Repeat => prev.clone().ok_or_else(|| "repeat mode without a previous table".to_string()),
        SeqMode::Fse(al, probs) => {
            out_tbl.extend(write_description(*al, probs));
            Ok(TableKind::Fse(build_table(*al, probs)))
        }
    }
}

/// Returns (table description bytes, bitstream bytes). Updates `prev` to the tables now in force.
pub fn encode_sequences(seqs: &[(u32, u32, u32)], modes: &(SeqMode, SeqMode, SeqMode), prev: &mut SeqTables) -> Result<(Vec<u8>, Vec<u8>), String> {
    let lls: Vec<(u8, u32, u8)> = seqs.iter().map(|s| ll_code(s.0)).collect();
    let ofs: Vec<(u8, u32, u8)> = seqs.iter().map(|s| of_code(s.1)).collect();
    let mls: Vec<(u8, u32, u8)> = seqs.iter().map(|s| ml_code(s.2)).collect();
    let sy = |v: &Vec<(u8, u32, u8)>| v.iter().map(|x| x.0).collect::<Vec<u8>>();
    let mut tbl = vec![];
    let llt = resolve(&modes.0, &prev.ll, 6, &LL_DEF, &sy(&lls), &mut tbl)?;
    let oft = resolve(&modes.1, &prev.of, 5, &OF_DEF, &sy(&ofs), &mut tbl)?;
    let mlt = resolve(&modes.2, &prev.ml, 6, &ML_DEF, &sy(&mls), &mut tbl)?;
    let stream = encode_with(&lls, &ofs, &mls, &llt, &oft, &mlt)?;
    prev.ll = Some(llt);
    prev.of = Some(oft);
    prev.ml = Some(mlt);
    Ok((tbl, stream))
}

pub fn encode_with(lls: &[(u8, u32, u8)], ofs: &[(u8, u32, u8)], mls: &[(u8, u32, u8)], llt: &TableKind, oft: &TableKind, mlt: &TableKind) -> Result<Vec<u8>, String> {
    let n = lls.len();
    let st = |t: &TableKind, v: &[(u8, u32, u8)]| -> Result<Option<Vec<usize>>, String> {
        match t {
            TableKind::Rle(c) => {
                if v.iter().any(|x| x.0 != *c) {
                    return Err("code differs from the RLE table".into());
                }
                Ok(None)
            }
            TableKind::Fse(t) => Ok(Some(states_for(t, &v.iter().map(|x| x.0).collect::<Vec<u8>>())?)),
        }
    };
    let (lls_st, ofs_st, mls_st) = (st(llt, lls)?, st(oft, ofs)?, st(mlt, mls)?);
    // reading order of the decoder
    let mut r: Vec<(u64, u32)> = vec![];
    let al = |t: &TableKind| match t {
        TableKind::Fse(t) => t.al as u32,
        _ => 0,
    };
    if let Some(s) = &lls_st {
        r.push((s[0] as u64, al(llt)));
    }
    if let Some(s) = &ofs_st {
        r.push((s[0] as u64, al(oft)));
    }
    if let Some(s) = &mls_st {
        r.push((s[0] as u64, al(mlt)));
    }
    let upd = |t: &TableKind, s: &Option<Vec<usize>>, i: usize, r: &mut Vec<(u64, u32)>| {
        if let (TableKind::Fse(t), Some(s)) = (t, s) {
            let cur = s[i];
            r.push(((s[i + 1] as u32 - t.base[cur]) as u64, t.nb[cur] as u32));
        }
    };
    for i in 0..n {
        r.push((ofs[i].1 as u64, ofs[i].2 as u32));
        r.push((mls[i].1 as u64, mls[i].2 as u32));
        r.push((lls[i].1 as u64, lls[i].2 as u32));
        if i + 1 < n {
            upd(llt, &lls_st, i, &mut r);
            upd(mlt, &mls_st, i, &mut r);
            upd(oft, &ofs_st, i, &mut r);
        }
    }
    let mut w = BitW::new();
    for (v, b) in r.iter().rev() {
        w.put(*v, *b);
    }
    Ok(w.finish_with_mark())
}
