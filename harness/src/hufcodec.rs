//! Independent Huffman machinery for the frame serializer (RFC 8878 section 4.2): weights -> canonical codes,
//! direct weight description, 1- and 4-stream literal encoding. Nothing in here uses ruzstd.
use crate::util::BitW;

#[derive(Clone, Debug, PartialEq)]
pub struct HufTable {
    /// weight per symbol, including the implied last one
    pub weights: Vec<u8>,
    pub max_bits: u32,
    /// (code, number of bits) per symbol; bits = 0 for unused symbols
    pub codes: Vec<(u32, u32)>,
}

fn highbit(x: u32) -> u32 {
    31 - x.leading_zeros()
}

/// `explicit` = weights of symbols 0..n-1; symbol n gets the implied weight. None when the weights are not a valid description.
pub fn table_from_explicit(explicit: &[u8]) -> Option<HufTable> {
    let sum: u32 = explicit.iter().filter(|w| **w > 0).map(|w| 1u32 << (*w - 1)).sum();
    if sum == 0 {
        return None;
    }
    let max_bits = highbit(sum) + 1;
    let left = (1u32 << max_bits) - sum;
    if !left.is_power_of_two() || max_bits > 11 {
        return None;
    }
    let last_w = highbit(left) + 1;
    let mut weights = explicit.to_vec();
    weights.push(last_w as u8);
    Some(table_from_weights(&weights, max_bits))
}

pub fn table_from_weights(weights: &[u8], max_bits: u32) -> HufTable {
    // canonical order: weight ascending, then symbol ascending; position in the 2^max_bits decoding table
    let mut order: Vec<usize> = (0..weights.len()).filter(|s| weights[*s] > 0).collect();
    order.sort_by_key(|s| (weights[*s], *s));
    let mut codes = vec![(0u32, 0u32); weights.len()];
    let mut start = 0u32;
    for s in order {
        let w = weights[s] as u32;
        let nb = max_bits + 1 - w;
        codes[s] = (start >> (w - 1), nb);
        start += 1 << (w - 1);
    }
    HufTable { weights: weights.to_vec(), max_bits, codes }
}

/// direct description: header 127 + n, then nibbles (first weight of a pair in the high nibble)
pub fn direct_description(explicit: &[u8]) -> Vec<u8> {
    let mut out = vec![127 + explicit.len() as u8];
    for p in explicit.chunks(2) {
        out.push((p[0] << 4) | if p.len() > 1 { p[1] } else { 0 });
    }
    out
}

pub fn encode_stream(t: &HufTable, data: &[u8]) -> Vec<u8> {
    let mut w = BitW::new();
    for &s in data.iter().rev() {
        let (c, nb) = t.codes[s as usize];
        assert!(nb > 0, "symbol {s} has no code");
        w.put(c as u64, nb);
    }
    w.finish_with_mark()
}

/// 4 streams with the 6-byte jump table
pub fn encode_4streams(t: &HufTable, data: &[u8]) -> Vec<u8> {
    let seg = (data.len() + 3) / 4;
    let parts: Vec<&[u8]> = vec![&data[..seg.min(data.len())], &data[seg.min(data.len())..(2 * seg).min(data.len())], &data[(2 * seg).min(data.len())..(3 * seg).min(data.len())], &data[(3 * seg).min(data.len())..]];
    let enc: Vec<Vec<u8>> = parts.iter().map(|p| encode_stream(t, p)).collect();
    let mut out = vec![];
    for e in &enc[..3] {
        out.extend_from_slice(&(e.len() as u16).to_le_bytes());
    }
    for e in enc {
        out.extend(e);
    }
    out
}

/// A table for the given data: weights from a simple length-limited construction (package by sorted frequency, depth <= 11).
pub fn table_for_data(data: &[u8]) -> Option<HufTable> {
    let mut counts = [0usize; 256];
    for b in data {
        counts[*b as usize] += 1;
    }
    let used: Vec<usize> = (0..256).filter(|s| counts[*s] > 0).collect();
    if used.len() < 2 {
        return None;
    }
    // code lengths by repeatedly halving: assign lengths so that Kraft sum is exactly 1 (simple, not optimal)
    let mut order = used.clone();
    order.sort_by_key(|s| std::cmp::Reverse(counts[*s]));
    let n = order.len();
    let mut lens = vec![0u32; 256];
    // complete code: first symbols get short codes following the shape of a "left-leaning" tree capped at depth 11
    let depth_cap = 11u32;
    let mut remaining = 1u64 << depth_cap; // Kraft budget in units of 2^-11
    for (i, s) in order.iter().enumerate() {
        let left_syms = (n - i) as u64;
        // shortest length such that the rest can still get codes of length <= cap
        let mut l = 1;
        loop {
            let cost = 1u64 << (depth_cap - l);
            if cost <= remaining && remaining - cost >= left_syms - 1 {
                break;
            }
            l += 1;
        }
        lens[*s] = l;
        remaining -= 1u64 << (depth_cap - l);
    }
    // hand the unused budget to the last symbols by shortening them where possible (keep it complete)
    let mut i = n;
    while remaining > 0 && i > 0 {
        i -= 1;
        let s = order[i];
        while lens[s] > 1 && (1u64 << (depth_cap - lens[s])) <= remaining {
            remaining -= 1u64 << (depth_cap - lens[s]);
            lens[s] -= 1;
        }
    }
    if remaining != 0 {
        return None;
    }
    let max_len = *lens.iter().max().unwrap();
    let last = *used.last().unwrap();
    let weights: Vec<u8> = (0..=last).map(|s| if lens[s] == 0 { 0 } else { (max_len + 1 - lens[s]) as u8 }).collect();
    Some(table_from_weights(&weights, max_len))
}
