//! Independent Huffman machinery for the frame serializer (RFC 8878 section 4.2): weights -> canonical codes,
//! direct weight description, 1- and 4-stream literal encoding. Nothing in here uses ruzstd.
use crate::util::BitW;

#[derive(Clone, Debug, PartialEq)]
pub struct HufTable {
    /// weight per symbol, including the implied last one
    pub weights: Vec<u8>,
    pub max_bits: u32,
    /// (code, number of bits) per symbol; bits = 0 for unused symbols
    pub codes: Vec<(u32, u32)>,
}

fn highbit(x: u32) -> u32 {
    31 - x.leading_zeros()
}

/// `explicit` = weights of symbols 0..n-1; symbol n gets the implied weight. None when the weights are not a valid description.
pub fn table_from_explicit(explicit: &[u8]) -> Option<HufTable> {
    let sum: u32 = explicit.iter().filter(|w| **w > 0).map(|w| 1u32 << (*w - 1)).sum();
    if sum == 0 {
        return None;
    }
    let max_bits = highbit(sum) + 1;
    let left = (1u32 << max_bits) - sum;
    if !left.is_power_of_two() || max_bits > 11 {
        return None;
    }
    let last_w = highbit(left) + 1;
    let mut weights = explicit.to_vec();
    weights.push(last_w as u8);
    Some(table_from_weights(&weights, max_bits))
}

pub fn table_from_weights(weights: &[u8], max_bits: u32) -> HufTable {
    // canonical order: weight ascending, then symbol ascending; position in the 2^max_bits decoding table
    let mut order: Vec<usize> = (0..weights.len()).filter(|s| weights[*s] > 0).collect();
    order.sort_by_key(|s| (weights[*s], *s));
    let mut codes = vec![(0u32, 0u32); weights.len()];
    let mut start = 0u32;
    for s in order {
        let w = weights[s] as u32;
        let nb = max_bits + 1 - w;
        codes[s] = (start >> (w - 1), nb);
        start += 1 << (w - 1);
    }
    HufTable { weights: weights.to_vec(), max_bits, codes }
}

/// direct description: header 127 + n, then nibbles (first weight of a pair in the high nibble)
pub fn direct_description(explicit: &[u8]) -> Vec<u8> {
    let mut out = vec![127 + explicit.len() as u8];
    for p in explicit.chunks(2) {
        out.push((p[0] << 4) | if p.len() > 1 { p[1] } else { 0 });
    }
    out
}

pub fn encode_stream(t: &HufTable, data: &[u8]) -> Vec<u8> {
    let mut w = BitW::new();
    for &s in data.iter().rev() {
        let (c, nb) = t.codes[s as usize];
        assert!(nb > 0, "symbol {s} has no code");
        w.put(c as u64, nb);
    }
    w.finish_with_mark()
}

/// 4 streams with the 6-byte jump table
pub fn encode_4streams(t: &HufTable, data: &[u8]) -> Vec<u8> {
    let seg = (data.len() + 3) / 4;
    let parts: Vec<&[u8]> = vec![&data[..seg.min(data.len())], &data[seg.min(data.len())..(2 * seg).min(data.len())], &data[(2 * seg).min(data.len())..(3 * seg).min(data.len())], &data[(3 * seg).min(data.len())..]];
    let enc: Vec<Vec<u8>> = parts.iter().map(|p| encode_stream(t, p)).collect();
    let mut out = vec![];
    for e in &enc[..3] {
        out.extend_from_slice(&(e.len() as u16).to_le_bytes());
    }
    for e in enc {
        out.extend(e);
    }
    out
}

/// A table for the given data: weights from a simple length-limited construction (package by sorted frequency, depth <= 11).
pub fn table_for_data(data: &[u8]) -> Option<HufTable> {
    let mut counts = [0usize; 256];
    for b in data {
        counts[*b as usize] += 1;
    }
    let used: Vec<usize> = (0..256).filter(|s| counts[*s] > 0).collect();
    if used.len() < 2 {
        return None;
    }
    // code lengths by repeatedly halving: assign lengths so that Kraft sum is exactly 1 (simple, not optimal)
    let mut order = used.clone();
    order.sort_by_key(|s| std::cmp::Reverse(counts[*s]));
    let n = order.len();
    let mut lens = vec![0u32; 256];
    // complete code: first symbols get short codes following the shape of a "left-leaning" tree capped at depth 11
    let depth_cap = 11u32;
    let mut remaining = 1u64 << depth_cap; // Kraft budget in units of 2^-11
    for (i, s) in order.iter().enumerate() {
        let left_syms = (n - i) as u64;
        // shortest length such that the rest can still get codes of length <= cap
        let mut l = 1;
        loop {
            let cost = 1u64 << (depth_cap - l);
            if cost <= remaining && remaining - cost >= left_syms - 1 {
                break;
            }
            l += 1;
        }
        lens[*s] = l;
        remaining -= 1u64 << (depth_cap - l);
    }
    // hand the unused budget to the last symbols by shortening them where possible (keep it complete)
    let mut i = n;
    while remaining > 0 && i > 0 {
        i -= 1;
        let s = order[i];
        while lens[s] > 1 && (1u64 << (depth_cap - lens[s])) <= remaining {
            remaining -= 1u64 << (depth_cap - lens[s]);
            lens[s] -= 1;
        }
    }
    if remaining != 0 {
        return None;
    }
    let max_len = *lens.iter().max().unwrap();
    let last = *used.last().unwrap();
    let weights: Vec<u8> = (0..=last).map(|s| if lens[s] == 0 { 0 } else { (max_len + 1 - lens[s]) as u8 }).collect();
    Some(table_from_weights(&weights, max_len))
}

/// FSE-compressed weight description (RFC 8878 4.2.1.2): header byte = size of what follows (< 128), the table
/// description for (al, probs) over the weight values, and the weights encoded with two interleaved states.
/// The last state of each chain is one that reads at least one bit on update, so that every decoder detects the end
/// of the stream right there.  None when a weight has no state or the result does not fit the header byte.
pub fn fse_description(explicit: &[u8], al: u8, probs: &[i32]) -> Option<Vec<u8>> {
    let body = fse_description_body(explicit, al, probs)?;
    if body.len() >= 128 {
        return None;
    }
    let mut out = vec![body.len() as u8];
    out.extend(body);
    Some(out)
}

/// table description + two-state stream, whatever its size
pub fn fse_description_body(explicit: &[u8], al: u8, probs: &[i32]) -> Option<Vec<u8>> {
    use crate::fsecodec::{build_table, write_description};
    if explicit.len() < 2 {
        return None;
    }
    let t = build_table(al, probs);
    let chain = |syms: &[u8]| -> Option<Vec<usize>> {
        let n = syms.len();
        let mut st = vec![0usize; n];
        st[n - 1] = (0..t.sym.len()).find(|&s| t.sym[s] == syms[n - 1] && t.nb[s] > 0)?;
        for i in (0..n - 1).rev() {
            let next = st[i + 1] as u32;
            st[i] = (0..t.sym.len()).find(|&s| t.sym[s] == syms[i] && next >= t.base[s] && next < t.base[s] + (1u32 << t.nb[s]))?;
        }
        Some(st)
    };
    let ev: Vec<u8> = explicit.iter().step_by(2).cloned().collect();
    let od: Vec<u8> = explicit.iter().skip(1).step_by(2).cloned().collect();
    let (a, b) = (chain(&ev)?, chain(&od)?);
    // bits in the order the decoder reads them
    let mut r: Vec<(u64, u32)> = vec![(a[0] as u64, al as u32), (b[0] as u64, al as u32)];
    for i in 0..explicit.len() {
        let (c, j) = if i % 2 == 0 { (&a, i / 2) } else { (&b, i / 2) };
        if j + 1 < c.len() {
            let cur = c[j];
            r.push(((c[j + 1] as u32 - t.base[cur]) as u64, t.nb[cur] as u32));
        }
    }
    let mut w = BitW::new();
    for (v, nb) in r.iter().rev() {
        w.put(*v, *nb);
    }
    let stream = w.finish_with_mark();
    let mut body = write_description(al, probs);
    body.extend(stream);
    Some(body)
}

/// A normalised distribution (sum 2^al, every used value >= 1, nothing above half the table) over the weight values
/// 0..=max: the histogram of `explicit` blended with a flat one (`flat` in 0..=100 percent).
pub fn weight_distribution(explicit: &[u8], al: u8, flat: u32) -> Vec<i32> {
    let maxw = *explicit.iter().max().unwrap() as usize;
    let size = 1i64 << al;
    let mut cnt = vec![0i64; maxw + 1];
    for w in explicit {
        cnt[*w as usize] += 1;
    }
    let total: i64 = explicit.len() as i64;
    let k = (maxw + 1) as i64;
    let mut p: Vec<i64> = (0..=maxw).map(|v| {
        if flat <= 100 {
            let fitted = cnt[v] * size * (100 - flat as i64);
            let flatp = total * size * flat as i64 / k;
            let x = (fitted + flatp) / (100 * total);
            if cnt[v] > 0 { x.max(1) } else { x }
        } else {
            // beyond flat: towards the inverted histogram (frequent values get the smallest probabilities)
            let inv = (flat as i64 - 100).min(100);
            let invp = (total - cnt[v]) * size / ((k - 1).max(1) * total);
            let x = ((size / k) * (100 - inv) + invp * inv) / 100;
            if cnt[v] > 0 { x.max(1) } else { x }
        }
    }).collect();
    for x in p.iter_mut() {
        *x = (*x).min(size / 2);
    }
    loop {
        let sum: i64 = p.iter().sum();
        if sum == size {
            break;
        }
        if sum < size {
            // give to the most frequent value that can still take it, else to any value below the cap
            let i = (0..=maxw).filter(|v| p[*v] < size / 2).max_by_key(|v| (cnt[*v], std::cmp::Reverse(*v))).unwrap();
            p[i] += 1;
        } else {
            let i = (0..=maxw).filter(|v| p[*v] > 1 || (cnt[*v] == 0 && p[*v] > 0)).max_by_key(|v| p[*v]).unwrap();
            p[i] -= 1;
        }
    }
    p.iter().map(|x| *x as i32).collect()
}
