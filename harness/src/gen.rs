//! Seeded input generators (content classes) and the frame corpus used by the randomized drivers:
//! decodecorpus files, libzstd output over many parameters, ruzstd output.
use crate::util::*;
use rand::{rngs::SmallRng, seq::SliceRandom, Rng, SeedableRng};
use serde_json::{json, Value};
use std::io::Write;

pub const CLASSES: [&str; 11] = ["empty_or_tiny", "all_equal", "random", "text", "skewed", "skewed_match", "periodic", "mixed", "runs", "skewed_unique", "base64"];

pub fn gen_input(class: &str, len: usize, rng: &mut SmallRng) -> Vec<u8> {
    match class {
        "empty_or_tiny" => (0..len.min(4)).map(|_| rng.gen()).collect(),
        "all_equal" => vec![rng.gen(); len],
        "random" => (0..len).map(|_| rng.gen()).collect(),
        "text" => {
            let words: Vec<Vec<u8>> = (0..40).map(|_| (0..rng.gen_range(2..9)).map(|_| b'a' + rng.gen_range(0..26)).collect()).collect();
            let mut v = Vec::with_capacity(len + 10);
            while v.len() < len {
                v.extend_from_slice(&words[(rng.gen::<f64>().powi(2) * 40.0) as usize % 40]);
                v.push(b' ');
            }
            v.truncate(len);
            v
        }
        "base64" => {
            // 6 bits of entropy per byte and no structure: large Huffman-coded literal sections (about 3/4 of the block)
            const A: &[u8; 64] = b"ABCDEFGHIJKLMNOPQRSTUVWXYZabcdefghijklmnopqrstuvwxyz0123456789+/";
            (0..len).map(|_| A[rng.gen_range(0..64)]).collect()
        }
        "skewed" => {
            // skewed byte distribution without long matches
            (0..len).map(|_| (rng.gen::<f64>().powi(3) * 60.0) as u8).collect()
        }
        "skewed_unique" => {
            // skewed byte distribution and no repeated 5-byte substring: every byte stays a literal, Huffman pays off
            let mut seen = std::collections::HashSet::<[u8; 5]>::new();
            let mut v: Vec<u8> = Vec::with_capacity(len);
            while v.len() < len {
                let mut b = (rng.gen::<f64>().powi(2) * 200.0) as u8;
                for _ in 0..300 {
                    if v.len() < 4 {
                        break;
                    }
                    let n = v.len();
                    let g = [v[n - 4], v[n - 3], v[n - 2], v[n - 1], b];
                    if !seen.contains(&g) {
                        break;
                    }
                    b = b.wrapping_add(1 + (rng.gen::<u8>() % 7));
                }
                if v.len() >= 4 {
                    let n = v.len();
                    seen.insert([v[n - 4], v[n - 3], v[n - 2], v[n - 1], b]);
                }
                v.push(b);
            }
            v
        }
        "skewed_match" => {
            let mut v: Vec<u8> = (0..len).map(|_| (rng.gen::<f64>().powi(3) * 60.0) as u8).collect();
            if len > 64 {
                let n = rng.gen_range(5..40.min(len / 2));
                let src = rng.gen_range(0..len / 2 - n.min(len / 2 - 1));
                let dst = rng.gen_range(len / 2..len - n);
                for j in 0..n {
                    v[dst + j] = v[src + j];
                }
            }
            v
        }
        "periodic" => {
            let p = rng.gen_range(1..300usize);
            let base: Vec<u8> = (0..p).map(|_| rng.gen()).collect();
            (0..len).map(|i| base[i % p]).collect()
        }
        "runs" => {
            let mut v = Vec::with_capacity(len);
            while v.len() < len {
                let b: u8 = rng.gen_range(0..6);
                let n = rng.gen_range(1..2000usize);
                v.extend(std::iter::repeat(b).take(n));
            }
            v.truncate(len);
            v
        }
        _ => {
            // mixed: segments of the other classes, with long-range copies
            let mut v: Vec<u8> = Vec::with_capacity(len + 10);
            while v.len() < len {
                let seg = rng.gen_range(1..(len / 3).max(2).min(70000));
                let c = ["random", "text", "skewed", "periodic", "runs", "all_equal"][rng.gen_range(0..6)];
                if !v.is_empty() && rng.gen_bool(0.3) {
                    let s = rng.gen_range(0..v.len());
                    let e = (s + seg).min(v.len());
                    let copy = v[s..e].to_vec();
                    v.extend(copy);
                } else {
                    v.extend(gen_input(c, seg, rng));
                }
            }
            v.truncate(len);
            v
        }
    }
}

pub fn boundary_len(rng: &mut SmallRng, max: usize) -> usize {
    const B: usize = 128 * 1024;
    let cands = [0, 1, 2, 3, 4, 5, 6, 7, 8, 15, 16, 17, 31, 32, 33, 63, 64, 65, 255, 256, 257, 1023, 1024, 1025, 4095, 4096, 4097, 16383, 16384, 16385, 65535, 65536, B - 1, B, B + 1, 2 * B - 1, 2 * B, 2 * B + 1, 3 * B];
    if rng.gen_bool(0.5) {
        let c = cands[rng.gen_range(0..cands.len())];
        if c <= max {
            return c;
        }
    }
    let e = rng.gen_range(0.0..(max as f64).ln());
    (e.exp() as usize).min(max)
}

/// libzstd compression with explicit parameters; `flush_every` > 0 flushes (ends a block) after that many input bytes.
pub fn libzstd_compress(data: &[u8], level: i32, wlog: Option<u32>, cks: bool, content_size: bool, ldm: bool, flush_every: usize, dict: Option<&[u8]>, dict_id: bool) -> Result<Vec<u8>, String> {
    use zstd::stream::raw::CParameter;
    let mut enc = match dict {
        Some(d) => zstd::stream::write::Encoder::with_dictionary(Vec::new(), level, d).map_err(|e| e.to_string())?,
        None => zstd::stream::write::Encoder::new(Vec::new(), level).map_err(|e| e.to_string())?,
    };
    if let Some(w) = wlog {
        enc.set_parameter(CParameter::WindowLog(w)).map_err(|e| e.to_string())?;
    }
    enc.set_parameter(CParameter::ChecksumFlag(cks)).map_err(|e| e.to_string())?;
    enc.set_parameter(CParameter::ContentSizeFlag(content_size)).map_err(|e| e.to_string())?;
    enc.set_parameter(CParameter::DictIdFlag(dict_id)).map_err(|e| e.to_string())?;
    if ldm {
        enc.set_parameter(CParameter::EnableLongDistanceMatching(true)).map_err(|e| e.to_string())?;
    }
    if content_size {
        enc.set_pledged_src_size(Some(data.len() as u64)).map_err(|e| e.to_string())?;
    }
    if flush_every == 0 {
        enc.write_all(data).map_err(|e| e.to_string())?;
    } else {
        for ch in data.chunks(flush_every) {
            enc.write_all(ch).map_err(|e| e.to_string())?;
            enc.flush().map_err(|e| e.to_string())?;
        }
    }
    enc.finish().map_err(|e| e.to_string())
}

/// mkcorpus <seed> <quick|thorough> <outdir> <index.json>
pub fn mkcorpus(args: &[String]) {
    let seed: u64 = args[0].parse().unwrap();
    let quick = args[1] == "quick";
    let outdir = &args[2];
    std::fs::create_dir_all(outdir).unwrap();
    let mut rng = SmallRng::seed_from_u64(seed ^ 0xc0);
    let mut idx: Vec<Value> = vec![];
    let mut add = |name: String, frame: &[u8], content: &[u8], origin: &str, idx: &mut Vec<Value>| {
        let fp = format!("{outdir}/{name}.zst");
        let cp = format!("{outdir}/{name}.raw");
        std::fs::write(&fp, frame).unwrap();
        std::fs::write(&cp, content).unwrap();
        idx.push(json!({"name": name, "frame": fp, "content": cp, "origin": origin, "flen": frame.len(), "clen": content.len()}));
    };
    // decodecorpus files
    let dir = "/repo/ruzstd/decodecorpus_files";
    let mut names: Vec<String> = std::fs::read_dir(dir).unwrap().filter_map(|e| e.ok()).map(|e| e.file_name().to_string_lossy().to_string()).filter(|n| n.ends_with(".zst")).collect();
    names.sort();
    if quick {
        names.shuffle(&mut rng);
        names.truncate(12);
    }
    for n in names {
        let f = std::fs::read(format!("{dir}/{n}")).unwrap();
        let base = n.trim_end_matches(".zst");
        if let Ok(c) = std::fs::read(format!("{dir}/{base}")) {
            if quick && f.len() > 400_000 {
                continue;
            }
            add(format!("corpus_{base}"), &f, &c, "decodecorpus", &mut idx);
        }
    }
    // libzstd frames
    let nlib = if quick { 24 } else { 400 };
    for i in 0..nlib {
        let class = CLASSES[rng.gen_range(0..CLASSES.len())];
        let len = boundary_len(&mut rng, if quick { 300_000 } else { 1_500_000 });
        let data = gen_input(class, len, &mut rng);
        let level = *[-5, -1, 1, 1, 2, 3, 3, 4, 5, 6, 7, 9, 12, 15, 19, 22].choose(&mut rng).unwrap();
        let wlog = if rng.gen_bool(0.6) { Some(rng.gen_range(10..=(if quick { 22 } else { 27 }))) } else { None };
        let cks = rng.gen_bool(0.5);
        let cs = rng.gen_bool(0.5);
        let ldm = rng.gen_bool(0.15);
        let flush = if rng.gen_bool(0.4) { rng.gen_range(1..=(len / 2).max(1)).max(if len > 50_000 { 500 } else { 1 }) } else { 0 };
        let level = if len > 400_000 && level > 12 { 5 } else { level };
        match libzstd_compress(&data, level, wlog, cks, cs, ldm, flush, None, false) {
            Ok(f) => add(format!("lib_{i}_{class}_l{level}_w{}_c{}{}_f{flush}", wlog.unwrap_or(0), cks as u8, cs as u8), &f, &data, "libzstd", &mut idx),
            Err(e) => eprintln!("libzstd: {e}"),
        }
    }
    // full blocks of high-entropy text: the largest Huffman-coded literal sections (four streams of 24 KiB and more)
    for (i, (len, level)) in [(131072usize, 1), (262144, 3), (200_000, 19), (131072, -1)].iter().enumerate() {
        if quick && i >= 2 {
            break;
        }
        let data = gen_input("base64", *len, &mut rng);
        if let Ok(f) = libzstd_compress(&data, *level, None, i % 2 == 0, true, false, 0, None, false) {
            add(format!("lib_b64_{i}_{len}_l{level}"), &f, &data, "libzstd", &mut idx);
        }
    }
    // ruzstd frames
    let nru = if quick { 10 } else { 120 };
    for i in 0..nru {
        let class = CLASSES[rng.gen_range(0..CLASSES.len())];
        let len = boundary_len(&mut rng, if quick { 300_000 } else { 800_000 });
        let data = gen_input(class, len, &mut rng);
        let lvl = if rng.gen_bool(0.8) { ruzstd::encoding::CompressionLevel::Fastest } else { ruzstd::encoding::CompressionLevel::Uncompressed };
        let d2 = data.clone();
        if let Ok(f) = std::panic::catch_unwind(move || ruzstd::encoding::compress_to_vec(&d2[..], lvl)) {
            add(format!("ru_{i}_{class}_{len}"), &f, &data, "ruzstd", &mut idx);
        }
    }
    write_json(&args[3], &json!({ "frames": idx }));
}
