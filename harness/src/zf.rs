//! C01 / C09: abstract frames written by TLC (ZstdFrames.tla, DictFrames.tla) -> bytes -> the real decoder through
//! every entry point; oracle = the content the specification computed.  The serializer is validated by libzstd.
use crate::fd::{dict_specs, Src};
use crate::frames::*;
use crate::util::*;
use ruzstd::decoding::{BlockDecodingStrategy, Dictionary, FrameDecoder, StreamingDecoder};
use ruzstd::verif;
use serde_json::{json, Value};
use std::io::{BufRead, Read};

fn bytes_of(v: &Value) -> Vec<u8> {
    v.as_array().map(|a| a.iter().map(|x| x.as_u64().unwrap() as u8).collect()).unwrap_or_default()
}

/// a normalised distribution (accuracy log 5) that covers the given codes, with a less-than-one entry and a zero run
fn fse_dist(codes: &[u8]) -> (u8, Vec<i32>) {
    let mut used: Vec<u8> = codes.to_vec();
    used.sort();
    used.dedup();
    let maxc = *used.last().unwrap() as usize;
    let mut probs = vec![0i32; maxc + 2];
    probs[maxc + 1] = -1;
    let share = 31 / used.len() as i32;
    for (i, c) in used.iter().enumerate() {
        probs[*c as usize] = share + if i == 0 { 31 - share * used.len() as i32 } else { 0 };
    }
    (5, probs)
}

fn mode_of(name: &str, codes: &[u8]) -> SeqMode {
    match name {
        "predef" => SeqMode::Predef,
        "rle" => SeqMode::Rle(codes[0]),
        "fse" => {
            let (al, p) = fse_dist(codes);
            SeqMode::Fse(al, p)
        }
        _ => SeqMode::Repeat,
    }
}

pub fn block_from_json(b: &Value) -> Blk {
    match b["k"].as_str().unwrap() {
        "raw" => Blk::Raw(bytes_of(&b["bytes"])),
        "rle" => Blk::Rle(b["byte"].as_u64().unwrap() as u8, b["n"].as_u64().unwrap() as usize),
        _ => {
            let lb = bytes_of(&b["lbytes"]);
            let fmt = b["fmt"].as_i64().unwrap();
            let fmt_o = if fmt < 0 { None } else { Some(fmt as u8) };
            let lits = match b["lit"].as_str().unwrap() {
                "raw" => {
                    if fmt_o.is_some() {
                        let mut sec = literals_header(0, lb.len(), None, false, fmt_o);
                        sec.extend_from_slice(&lb);
                        Lits::Verbatim(sec, lb.clone())
                    } else {
                        Lits::Raw(lb.clone())
                    }
                }
                "rle" if !lb.is_empty() => {
                    let mut sec = literals_header(1, lb.len(), None, false, fmt_o);
                    sec.push(lb[0]);
                    Lits::Verbatim(sec, vec![lb[0]; lb.len()])
                }
                "rle" => Lits::Raw(vec![]),
                "huf1" => Lits::Huf(lb.clone(), false, Some(vec![3, 2, 1]), Some(0)),
                "huf4" => Lits::Huf(lb.clone(), true, Some(vec![3, 2, 1]), fmt_o.or(Some(1))),
                "tree1" => Lits::Huf(lb.clone(), false, None, Some(0)),
                _ => Lits::Huf(lb.clone(), true, None, fmt_o.or(Some(1))),
            };
            let seqs: Vec<(u32, u32, u32)> = b["seqs"].as_array().unwrap().iter().map(|q| (q["ll"].as_u64().unwrap() as u32, q["ofv"].as_u64().unwrap() as u32, q["ml"].as_u64().unwrap() as u32)).collect();
            let llc: Vec<u8> = seqs.iter().map(|s| ll_code(s.0).0).collect();
            let ofc: Vec<u8> = seqs.iter().map(|s| of_code(s.1).0).collect();
            let mlc: Vec<u8> = seqs.iter().map(|s| ml_code(s.2).0).collect();
            let m = b["modes"].as_array().unwrap();
            let modes = if seqs.is_empty() {
                (SeqMode::Predef, SeqMode::Predef, SeqMode::Predef)
            } else {
                (mode_of(m[0].as_str().unwrap(), &llc), mode_of(m[1].as_str().unwrap(), &ofc), mode_of(m[2].as_str().unwrap(), &mlc))
            };
            Blk::Comp { lits, seqs, modes }
        }
    }
}

/// Decode through every entry point; returns per entry point Ok(bytes) / Err(text), plus metadata seen.
pub fn decode_everywhere(frame: &[u8], dicts: &[Vec<u8>], cap: usize) -> Vec<(&'static str, Result<Vec<u8>, String>)> {
    let mk = || {
        let mut d = FrameDecoder::new();
        for raw in dicts {
            if let Ok(x) = Dictionary::decode_dict(raw) {
                d.add_dict(x).unwrap();
            }
        }
        d
    };
    let mut out = vec![];
    let guard = |f: &mut dyn FnMut() -> Result<Vec<u8>, String>| -> Result<Vec<u8>, String> {
        std::panic::catch_unwind(std::panic::AssertUnwindSafe(|| f())).unwrap_or_else(|p| Err(format!("panic: {}", panic_msg(p))))
    };
    out.push(("decode_all_to_vec", guard(&mut || {
        let mut d = mk();
        let mut o = Vec::with_capacity(cap + 16);
        d.decode_all_to_vec(frame, &mut o).map(|_| o).map_err(|e| e.to_string())
    })));
    out.push(("streaming", guard(&mut || {
        let mut d = mk();
        let mut sd = StreamingDecoder::new_with_decoder(Src { data: frame.to_vec(), pos: 0, chunk: 3 }, &mut d).map_err(|e| e.to_string())?;
        let mut o = vec![];
        sd.read_to_end(&mut o).map_err(|e| e.to_string())?;
        Ok(o)
    })));
    out.push(("decode_blocks", guard(&mut || {
        let mut d = mk();
        let mut src = Src { data: frame.to_vec(), pos: 0, chunk: 0 };
        d.reset(&mut src).map_err(|e| e.to_string())?;
        let mut o = vec![];
        while !d.is_finished() {
            d.decode_blocks(&mut src, BlockDecodingStrategy::UptoBlocks(1)).map_err(|e| e.to_string())?;
            o.extend(d.collect().unwrap_or_default());
        }
        o.extend(d.collect().unwrap_or_default());
        Ok(o)
    })));
    out.push(("decode_from_to", guard(&mut || {
        let mut d = mk();
        let mut o = vec![];
        let mut pos = 0;
        let mut tgt = vec![0u8; 1 << 12];
        let mut offer = 18usize;
        let mut idle = 0;
        loop {
            let end = (pos + offer).min(frame.len());
            match d.decode_from_to(&frame[pos..end], &mut tgt) {
                Err(e) => {
                    if pos == 0 && end < frame.len() && offer < 64 {
                        offer += 7;
                        continue;
                    }
                    return Err(e.to_string());
                }
                Ok((rd, wr)) => {
                    pos += rd;
                    o.extend_from_slice(&tgt[..wr]);
                    if rd == 0 && wr == 0 {
                        if d.is_finished() && d.can_collect() == 0 {
                            break;
                        }
                        idle += 1;
                        offer = (offer * 2).min(1 << 18);
                        if idle > 40 {
                            return Err("decode_from_to makes no progress".into());
                        }
                    } else {
                        idle = 0;
                    }
                }
            }
        }
        Ok(o)
    })));
    out
}

/// zfexec <cases.ndjson> <report.json> [dict]
pub fn zfexec(args: &[String]) {
    quiet_panics();
    let f = std::io::BufReader::new(std::fs::File::open(&args[0]).unwrap());
    let with_dict = args.get(2).map(|s| s == "dict").unwrap_or(false);
    let (da, _db) = dict_specs();
    let dict_raw = build_dictionary(da.id, &da.tables, da.rep, &da.content);
    let (mut n, mut bad, mut tool, mut nvalid, mut ninvalid) = (0u64, 0u64, 0u64, 0u64, 0u64);
    let mut mism: Vec<Value> = vec![];
    let mut tools: Vec<Value> = vec![];
    let mut samples: Vec<Value> = vec![];
    let mut features = std::collections::BTreeMap::<String, u64>::new();
    for line in f.lines() {
        let c: Value = serde_json::from_str(&line.unwrap()).unwrap();
        n += 1;
        let fr = &c["frame"];
        let content = bytes_of(&c["content"]);
        let ok = c["ok"].as_bool().unwrap();
        let blocks: Vec<Blk> = fr["blocks"].as_array().unwrap().iter().map(block_from_json).collect();
        for b in fr["blocks"].as_array().unwrap() {
            if b["k"] == "comp" {
                *features.entry(format!("lit:{}", b["lit"].as_str().unwrap())).or_insert(0) += 1;
                if !b["seqs"].as_array().unwrap().is_empty() {
                    let m = b["modes"].as_array().unwrap();
                    *features.entry(format!("modes:{}/{}/{}", m[0].as_str().unwrap(), m[1].as_str().unwrap(), m[2].as_str().unwrap())).or_insert(0) += 1;
                }
            } else {
                *features.entry(format!("block:{}", b["k"].as_str().unwrap())).or_insert(0) += 1;
            }
        }
        let single = fr["hdr"]["single"].as_bool().unwrap();
        let fcsw = fr["hdr"]["fcs"].as_u64().unwrap() as u8;
        let total = content.len() as u64;
        let fcs_present = fcsw > 0 || single;
        // the requested field width where it can represent the size, else the next one that can
        let want = if fcsw == 0 { 1 } else { fcsw };
        let width = if !fcs_present {
            None
        } else if want == 1 && total < 256 && single {
            Some(1)
        } else if want <= 2 && (256..65792).contains(&total) {
            Some(2)
        } else if want <= 4 {
            Some(4)
        } else {
            Some(8)
        };
        let spec = FrameSpec {
            name: format!("zf{n}"),
            win_desc: if single { None } else { Some(0) },
            cks: fr["hdr"]["cks"].as_bool().unwrap(),
            dict_id: if with_dict { Some(da.id) } else { None },
            fcs: if fcs_present { Some(total) } else { None },
            blocks,
            dict: if with_dict { da.content.clone() } else { vec![] },
            rep: if with_dict { da.rep } else { [1, 4, 8] },
            fcs_width: width,
            dict_tables: if with_dict { Some(da.tables.clone()) } else { None },
        };
        // frames the specification calls invalid may not even be serialisable (repeat mode without a table): skip those
        let built = match std::panic::catch_unwind(std::panic::AssertUnwindSafe(|| build(&spec))) {
            Ok(b) => b,
            Err(_) => {
                if ok {
                    tool += 1;
                    if tools.len() < 5 {
                        tools.push(json!({"frame": fr, "problem": "the serializer cannot build a frame the specification calls valid"}));
                    }
                }
                continue;
            }
        };
        let dicts: Vec<Vec<u8>> = if with_dict { vec![dict_raw.clone()] } else { vec![] };
        let reference: Result<Vec<u8>, String> = if with_dict {
            let mut o = Vec::new();
            zstd::stream::read::Decoder::with_dictionary(&built.bytes[..], &dict_raw).and_then(|mut d| d.read_to_end(&mut o)).map(|_| o).map_err(|e| e.to_string())
        } else {
            zstd::decode_all(&built.bytes[..]).map_err(|e| e.to_string())
        };
        // three-way classification: the specification must agree with libzstd, otherwise it is our bug
        let spec_agrees = match (&reference, ok) {
            (Ok(r), true) => *r == content,
            (Err(_), false) => true,
            // with a dictionary object libzstd lets matches reach into the dictionary's header bytes in front of the content,
            // so it cannot confirm "offset beyond dictionary plus output"; the format (and the property) call that invalid
            (Ok(_), false) if with_dict => true,
            _ => false,
        };
        if !spec_agrees {
            tool += 1;
            if tools.len() < 5 {
                tools.push(json!({"frame": fr, "spec_ok": ok, "libzstd": format!("{:?}", reference.as_ref().map(|r| r.len())), "frame_hex": hex(&built.bytes)}));
            }
            continue;
        }
        if ok {
            nvalid += 1;
        } else {
            ninvalid += 1;
        }
        verif::take();
        let results = decode_everywhere(&built.bytes, &dicts, content.len());
        let mut errs = vec![];
        for (entry, r) in &results {
            match (r, ok) {
                (Ok(o), true) => {
                    if *o != content {
                        errs.push(format!("{entry}: decoded {} bytes that differ from the specified content ({} bytes)", o.len(), content.len()));
                    }
                }
                (Err(e), true) => errs.push(format!("{entry}: valid frame refused: {e}")),
                (Ok(o), false) => errs.push(format!("{entry}: invalid frame decoded to {} bytes", o.len())),
                (Err(e), false) => {
                    if e.starts_with("panic") {
                        errs.push(format!("{entry}: {e}"));
                    }
                }
            }
        }
        // metadata
        if ok {
            let mut d = FrameDecoder::new();
            for raw in &dicts {
                d.add_dict(Dictionary::decode_dict(raw).unwrap()).unwrap();
            }
            if d.reset(&built.bytes[..]).is_ok() {
                if fcs_present && d.content_size() != total {
                    errs.push(format!("content_size() {} differs from the declared {}", d.content_size(), total));
                }
            }
        }
        if !errs.is_empty() {
            bad += 1;
            if mism.len() < 12 {
                mism.push(json!({"frame": fr, "errors": errs, "frame_hex": hex(&built.bytes), "content": content}));
            }
        }
        if samples.len() < 2 && n % 211 == 5 {
            samples.push(json!({"frame": fr, "content": content, "bytes_hex": hex(&built.bytes)}));
        }
    }
    write_json(&args[1], &json!({"frames": n, "valid": nvalid, "invalid": ninvalid, "mismatches": bad, "first": mism, "spec_vs_libzstd": tool, "spec_vs_libzstd_examples": tools,
        "features": features, "samples": samples}));
}

/// seqrows <index.json> <max rows> <rows.ndjson> <report.json>: decode real frames with sequence events on and dump
/// (offset value, literal length, history before, actual offset, history after) rows for the RepStep row check.
pub fn seqrows(args: &[String]) {
    use std::io::Write;
    quiet_panics();
    let idx: Value = serde_json::from_str(&std::fs::read_to_string(&args[0]).unwrap()).unwrap();
    let max: usize = args[1].parse().unwrap();
    let mut w = std::io::BufWriter::new(std::fs::File::create(&args[2]).unwrap());
    let mut n = 0usize;
    let mut total = 0u64;
    let mut combos = std::collections::BTreeSet::<(u32, bool)>::new();
    let mut seen = std::collections::HashSet::<(u64, u64, u64, u64, u64)>::new();
    'outer: for fr in idx["frames"].as_array().unwrap() {
        let frame = std::fs::read(fr["frame"].as_str().unwrap()).unwrap();
        verif::take();
        verif::set_mask(verif::SEQ | verif::DEC);
        let mut d = FrameDecoder::new();
        d.set_max_window_size(1 << 31);
        let mut o = Vec::with_capacity(fr["clen"].as_u64().unwrap() as usize + 16);
        let _ = std::panic::catch_unwind(std::panic::AssertUnwindSafe(|| d.decode_all_to_vec(&frame, &mut o)));
        let evs = verif::take();
        verif::set_mask(0);
        let mut hist = [1u64, 4, 8];
        for e in &evs {
            match e.kind {
                "seq" => {
                    total += 1;
                    let (ll, ofv, actual) = (e.args[0], e.args[2], e.args[3]);
                    let after = [e.args[4], e.args[5], e.args[6]];
                    combos.insert((ofv.min(4) as u32, ll == 0));
                    // keep rows that are distinct in what the rule looks at
                    let key = (ofv.min(7), (ll == 0) as u64, hist[0], hist[1], hist[2]);
                    if (ofv <= 3 || total % 97 == 0) && seen.insert(key) && n < max && hist.iter().all(|h| *h < (1 << 30)) && ofv < (1 << 30) {
                        serde_json::to_writer(&mut w, &json!({"k": "rep", "ofv": ofv, "ll": ll, "h": hist, "actual": actual, "after": after})).unwrap();
                        w.write_all(b"\n").unwrap();
                        n += 1;
                    }
                    hist = after;
                }
                _ => {}
            }
        }
        if n >= max {
            break 'outer;
        }
        let _ = &mut hist;
    }
    w.flush().unwrap();
    write_json(&args[3], &json!({"rows": n, "sequences_seen": total, "offset_kind_x_ll0": combos.len()}));
}

/// dictinfo <out.json>: content and repeat offsets of the synthetic dictionary A (for DictFrames)
pub fn dictinfo(args: &[String]) {
    let (da, _) = dict_specs();
    write_json(&args[0], &json!({"content": da.content, "rep": da.rep, "id": da.id}));
}

/// c09trained <seed> <quick|thorough> <report.json>: dictionaries trained by libzstd, inputs compressed by libzstd with
/// them (levels, with / without dictionary id), decoded by ruzstd; oracle = the input.
pub fn c09trained(args: &[String]) {
    use crate::gen::{gen_input, libzstd_compress};
    use rand::{rngs::SmallRng, Rng, SeedableRng};
    quiet_panics();
    let seed: u64 = args[0].parse().unwrap();
    let quick = args[1] == "quick";
    let mut rng = SmallRng::seed_from_u64(seed ^ 0x09);
    let (mut ndict, mut nframes, mut bad, mut with_id, mut without_id) = (0u64, 0u64, 0u64, 0u64, 0u64);
    let mut mism: Vec<Value> = vec![];
    let mut samples: Vec<Value> = vec![];
    let ndicts = if quick { 4 } else { 30 };
    for di in 0..ndicts {
        // samples share structure so that the trainer finds something
        let base = gen_input("text", 3000, &mut rng);
        let nsamples = rng.gen_range(20..60);
        let mut sample_data: Vec<Vec<u8>> = vec![];
        for _ in 0..nsamples {
            let mut v = vec![];
            while v.len() < rng.gen_range(200..3000) {
                let s = rng.gen_range(0..base.len() - 50);
                let l = rng.gen_range(10..50);
                v.extend_from_slice(&base[s..s + l]);
                if rng.gen_bool(0.2) {
                    v.extend(gen_input("random", rng.gen_range(1..8), &mut rng));
                }
            }
            sample_data.push(v);
        }
        let dsize = [512usize, 1024, 4096, 16384, 112640][rng.gen_range(0..5)];
        let dict = match zstd::dict::from_samples(&sample_data, dsize) {
            Ok(d) => d,
            Err(_) => continue,
        };
        ndict += 1;
        let parsed = match Dictionary::decode_dict(&dict) {
            Ok(d) => d,
            Err(e) => {
                bad += 1;
                if mism.len() < 10 {
                    mism.push(json!({"dictionary": di, "size": dict.len(), "error": format!("a dictionary trained by libzstd is refused: {e}")}));
                }
                continue;
            }
        };
        let id = parsed.id;
        let mut dec = FrameDecoder::new();
        dec.add_dict(parsed).unwrap();
        for fi in 0..(if quick { 12 } else { 60 }) {
            nframes += 1;
            let mut input = vec![];
            let target = [0usize, 1, 10, 100, 1000, 5000, 40000, 200000][rng.gen_range(0..8)];
            while input.len() < target {
                let s = rng.gen_range(0..base.len() - 50);
                let l = rng.gen_range(5..50);
                input.extend_from_slice(&base[s..s + l]);
            }
            input.truncate(target);
            let level = [-3, 1, 2, 3, 5, 9, 15, 19, 22][rng.gen_range(0..9)];
            let level = if target > 50000 && level > 9 { 3 } else { level };
            let use_id = rng.gen_bool(0.6);
            let wlog = if rng.gen_bool(0.4) { Some(rng.gen_range(10..20)) } else { None };
            let frame = match libzstd_compress(&input, level, wlog, rng.gen_bool(0.5), rng.gen_bool(0.5), false, 0, Some(&dict), use_id) {
                Ok(f) => f,
                Err(_) => continue,
            };
            if use_id {
                with_id += 1;
            } else {
                without_id += 1;
            }
            let r = std::panic::catch_unwind(std::panic::AssertUnwindSafe(|| -> Result<Vec<u8>, String> {
                let mut src = &frame[..];
                dec.reset(&mut src).map_err(|e| format!("reset: {e}"))?;
                if !use_id {
                    // the frame does not name its dictionary: the caller has to
                    dec.force_dict(id).map_err(|e| format!("force_dict: {e}"))?;
                }
                let mut out = vec![];
                while !dec.is_finished() {
                    dec.decode_blocks(&mut src, BlockDecodingStrategy::UptoBytes(rng.gen_range(1..70000))).map_err(|e| format!("decode_blocks: {e}"))?;
                    out.extend(dec.collect().unwrap_or_default());
                }
                out.extend(dec.collect().unwrap_or_default());
                Ok(out)
            }));
            let e = match r {
                Err(p) => Some(format!("panic: {}", panic_msg(p))),
                Ok(Err(e)) => Some(e),
                Ok(Ok(o)) => {
                    if o == input {
                        None
                    } else {
                        Some(format!("decoded {} bytes that differ from the {} input bytes", o.len(), input.len()))
                    }
                }
            };
            if let Some(e) = e {
                bad += 1;
                if mism.len() < 10 {
                    mism.push(json!({"dictionary": di, "dict_size": dict.len(), "frame": fi, "level": level, "dict_id_in_frame": use_id, "input_len": input.len(), "error": e}));
                }
                dec = FrameDecoder::new();
                dec.add_dict(Dictionary::decode_dict(&dict).unwrap()).unwrap();
            } else if samples.len() < 2 {
                samples.push(json!({"dict_size": dict.len(), "level": level, "dict_id_in_frame": use_id, "input_len": input.len(), "frame_len": frame.len()}));
            }
        }
        // a plain frame afterwards on the same decoder: the dictionary must not matter
        let plain = gen_input("text", 2000, &mut rng);
        let pf = libzstd_compress(&plain, 3, None, true, false, false, 0, None, false).unwrap();
        let mut o = Vec::with_capacity(plain.len() + 16);
        match dec.decode_all_to_vec(&pf, &mut o) {
            Ok(()) if o == plain => {}
            other => {
                bad += 1;
                if mism.len() < 10 {
                    mism.push(json!({"dictionary": di, "error": format!("plain frame after dictionary frames: {:?}", other.map_err(|e| e.to_string()))}));
                }
            }
        }
    }
    write_json(&args[2], &json!({"dictionaries": ndict, "frames": nframes, "with_dict_id": with_id, "without_dict_id": without_id, "mismatches": bad, "first": mism, "samples": samples}));
}

/// seqstream <zf_cases.ndjson> <rows.ndjson> <report.json> [stride]
/// Rows for SeqStream.tla: per compressed block with sequences of every valid specification-generated frame, the three
/// tables as the serializer resolved them, the stream bytes it wrote, the sequences it meant, and the triples the real
/// decoder reported through its sequence events.
pub fn seqstream(args: &[String]) {
    use crate::fsecodec::{encode_sequences, SeqTables, LL_DEF, ML_DEF, OF_DEF};
    use std::io::Write;
    quiet_panics();
    let f = std::io::BufReader::new(std::fs::File::open(&args[0]).unwrap());
    let mut w = std::io::BufWriter::new(std::fs::File::create(&args[1]).unwrap());
    let stride: usize = args.get(3).and_then(|s| s.parse().ok()).unwrap_or(1);
    let (mut frames, mut rows, mut skipped) = (0u64, 0u64, 0u64);
    let mut modes_seen = std::collections::BTreeMap::<String, u64>::new();
    let mut seen = std::collections::HashSet::<String>::new();
    let mut distinct = 0usize;
    for (li, line) in f.lines().enumerate() {
        let c: Value = serde_json::from_str(&line.unwrap()).unwrap();
        if !c["ok"].as_bool().unwrap() {
            continue;
        }
        let fr = &c["frame"];
        let blocks: Vec<Blk> = fr["blocks"].as_array().unwrap().iter().map(block_from_json).collect();
        if !blocks.iter().any(|b| matches!(b, Blk::Comp { seqs, .. } if !seqs.is_empty())) {
            continue;
        }
        let spec = FrameSpec { name: format!("zf{li}"), win_desc: Some(0), cks: false, dict_id: None, fcs: None, blocks: blocks.clone(), dict: vec![], rep: [1, 4, 8], fcs_width: None, dict_tables: None };
        let built = match std::panic::catch_unwind(std::panic::AssertUnwindSafe(|| build(&spec))) {
            Ok(b) => b,
            Err(_) => {
                skipped += 1;
                continue;
            }
        };
        frames += 1;
        // the real decoder's sequence events, per block
        verif::take();
        verif::set_mask(verif::DEC | verif::SEQ);
        let mut o = Vec::with_capacity(built.content.len() + 16);
        let _ = std::panic::catch_unwind(std::panic::AssertUnwindSafe(|| FrameDecoder::new().decode_all_to_vec(&built.bytes, &mut o)));
        let evs = verif::take();
        verif::set_mask(0);
        let mut per_block: Vec<Vec<Value>> = vec![];
        let mut cur: Vec<Value> = vec![];
        for e in &evs {
            match e.kind {
                "seq" => cur.push(json!([e.args[0], e.args[2], e.args[1]])),
                "block" => per_block.push(std::mem::take(&mut cur)),
                _ => {}
            }
        }
        // the serializer's tables and streams, block by block
        let mut prev = SeqTables::default();
        let mut prev_json: [Value; 3] = [Value::Null, Value::Null, Value::Null];
        for (bi, b) in blocks.iter().enumerate() {
            if let Blk::Comp { seqs, modes, .. } = b {
                if seqs.is_empty() {
                    continue;
                }
                let tab = |m: &SeqMode, def_al: u8, def: &[i32], prev: &Value| -> Value {
                    match m {
                        SeqMode::Predef => json!({"mode": "predef", "al": def_al, "probs": def, "sym": 0}),
                        SeqMode::Rle(c) => json!({"mode": "rle", "al": 0, "probs": [], "sym": c}),
                        SeqMode::Fse(al, p) => json!({"mode": "fse", "al": al, "probs": p, "sym": 0}),
                        SeqMode::Repeat => prev.clone(),
                    }
                };
                let t = [tab(&modes.0, 6, &LL_DEF, &prev_json[0]), tab(&modes.1, 5, &OF_DEF, &prev_json[1]), tab(&modes.2, 6, &ML_DEF, &prev_json[2])];
                let (_tbl, stream) = match encode_sequences(seqs, modes, &mut prev) {
                    Ok(x) => x,
                    Err(_) => {
                        skipped += 1;
                        break;
                    }
                };
                let names = |m: &SeqMode| match m { SeqMode::Predef => "predef", SeqMode::Rle(_) => "rle", SeqMode::Fse(..) => "fse", SeqMode::Repeat => "repeat" };
                *modes_seen.entry(format!("{}/{}/{}", names(&modes.0), names(&modes.1), names(&modes.2))).or_insert(0) += 1;
                let meant: Vec<Value> = seqs.iter().map(|q| json!([q.0, q.1, q.2])).collect();
                let decoded = per_block.get(bi).cloned().unwrap_or_default();
                let row = json!({"ll": t[0], "of": t[1], "ml": t[2], "stream": stream, "meant": meant, "decoded": decoded});
                // identical (tables, stream, outcome) rows once; of the distinct ones every stride-th
                if seen.insert(row.to_string()) {
                    distinct += 1;
                    if distinct % stride == 0 {
                        serde_json::to_writer(&mut w, &row).unwrap();
                        w.write_all(b"\n").unwrap();
                        rows += 1;
                    }
                }
                prev_json = t;
            }
        }
    }
    w.flush().unwrap();
    write_json(&args[2], &json!({"frames": frames, "rows": rows, "skipped": skipped, "distinct_rows": distinct, "mode_triples": modes_seen}));
}
