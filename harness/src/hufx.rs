//! C13 executors: spec-generated weight vectors through the real decoder (wrapped into a literals section of a frame);
//! the real encoder's codes, descriptions and streams as rows; long literal round trips.
use crate::frames::literals_header;
use crate::util::*;
use rand::{rngs::SmallRng, seq::SliceRandom, Rng, SeedableRng};
use ruzstd::decoding::FrameDecoder;
use ruzstd::huff0::huff0_encoder::HuffmanTable;
use ruzstd::verif;
use serde_json::{json, Value};
use std::io::{BufRead, Write};

/// frame with one compressed block: the given literals section and no sequences
pub fn frame_with_literals(section: &[u8]) -> Vec<u8> {
    let mut f = vec![0x28, 0xB5, 0x2F, 0xFD, 0x00, 0x38];
    let mut body = section.to_vec();
    body.push(0);
    let h = ((body.len() as u32) << 3) | (2 << 1) | 1;
    f.extend_from_slice(&h.to_le_bytes()[..3]);
    f.extend(body);
    f
}

fn decode_both(frame: &[u8], cap: usize) -> (Result<Vec<u8>, String>, Result<Vec<u8>, String>) {
    let ours = std::panic::catch_unwind(|| {
        let mut d = FrameDecoder::new();
        let mut o = Vec::with_capacity(cap + 16);
        d.decode_all_to_vec(frame, &mut o).map(|_| o).map_err(|e| e.to_string())
    })
    .unwrap_or_else(|p| Err(format!("panic: {}", panic_msg(p))));
    let reference = zstd::decode_all(frame).map_err(|e| e.to_string());
    (ours, reference)
}

/// c13dec <huf_cases.ndjson> <report.json>
pub fn c13dec(args: &[String]) {
    quiet_panics();
    let f = std::io::BufReader::new(std::fs::File::open(&args[0]).unwrap());
    let (mut n, mut bad, mut tool, mut nvalid, mut nincomplete, mut nother) = (0u64, 0u64, 0u64, 0u64, 0u64, 0u64);
    let mut mism: Vec<Value> = vec![];
    let mut tools: Vec<Value> = vec![];
    let mut samples: Vec<Value> = vec![];
    for line in f.lines() {
        let c: Value = serde_json::from_str(&line.unwrap()).unwrap();
        n += 1;
        let bytes_of = |k: &str| -> Vec<u8> { c[k].as_array().unwrap().iter().map(|x| x.as_u64().unwrap() as u8).collect() };
        let desc = bytes_of("desc");
        let stream = bytes_of("stream");
        let data = bytes_of("data");
        let valid = c["valid"].as_bool().unwrap();
        let complete = c["complete"].as_bool().unwrap();
        let regen = if valid { data.len() } else { 3 };
        let mut section = literals_header(2, regen, Some(desc.len() + stream.len()), false, Some(0));
        section.extend_from_slice(&desc);
        section.extend_from_slice(&stream);
        let frame = frame_with_literals(&section);
        let (ours, reference) = decode_both(&frame, regen);
        if valid {
            nvalid += 1;
            match &reference {
                Ok(r) if *r == data => {}
                other => {
                    tool += 1;
                    if tools.len() < 5 {
                        tools.push(json!({"weights": c["weights"], "libzstd": format!("{:?}", other)}));
                    }
                    continue;
                }
            }
            match &ours {
                Ok(o) if *o == data => {}
                other => {
                    bad += 1;
                    if mism.len() < 10 {
                        mism.push(json!({"weights": c["weights"], "error": format!("a valid weight description is not decoded to the specified literals: {:?}", other), "frame_hex": hex(&frame)}));
                    }
                }
            }
            if samples.len() < 2 && n % 41 == 1 {
                samples.push(json!({"weights": c["weights"], "lens": c["lens"], "data": c["data"]}));
            }
        } else if !complete {
            nincomplete += 1;
            // the table builder itself must refuse the description (whatever stream follows)
            let d2 = desc.clone();
            let built = std::panic::catch_unwind(move || {
                let mut t = ruzstd::huff0::HuffmanTable::new();
                let mut padded = d2.clone();
                padded.extend_from_slice(&[0u8; 8]);
                t.build_decoder(&padded).is_ok()
            });
            match built {
                Ok(true) => {
                    bad += 1;
                    if mism.len() < 10 {
                        mism.push(json!({"weights": c["weights"], "error": "the table builder accepts weights that cannot form a complete code of depth <= 11", "desc": desc}));
                    }
                    continue;
                }
                Err(p) => {
                    bad += 1;
                    if mism.len() < 10 {
                        mism.push(json!({"weights": c["weights"], "error": format!("the table builder panics: {}", panic_msg(p)), "desc": desc}));
                    }
                    continue;
                }
                Ok(false) => {}
            }
            if reference.is_ok() {
                tool += 1;
                if tools.len() < 5 {
                    tools.push(json!({"weights": c["weights"], "libzstd": "accepts an incomplete description"}));
                }
                continue;
            }
            if let Ok(o) = &ours {
                bad += 1;
                if mism.len() < 10 {
                    mism.push(json!({"weights": c["weights"], "error": format!("weights that cannot form a complete code are accepted ({} bytes decoded)", o.len()), "frame_hex": hex(&frame)}));
                }
            } else if let Err(e) = &ours {
                if e.starts_with("panic") {
                    bad += 1;
                    if mism.len() < 10 {
                        mism.push(json!({"weights": c["weights"], "error": e, "frame_hex": hex(&frame)}));
                    }
                }
            }
        } else {
            // complete but not minimal: unconstrained by the property (the reference decoder refuses these)
            nother += 1;
            if let Err(e) = &ours {
                if e.starts_with("panic") {
                    bad += 1;
                    if mism.len() < 10 {
                        mism.push(json!({"weights": c["weights"], "error": e, "frame_hex": hex(&frame)}));
                    }
                }
            }
        }
    }
    write_json(&args[1], &json!({"cases": n, "valid": nvalid, "incomplete": nincomplete, "complete_not_minimal": nother, "mismatches": bad, "first": mism,
        "spec_vs_libzstd": tool, "spec_vs_libzstd_examples": tools, "samples": samples}));
}

/// c13enc <seed> <quick|thorough> <rows.ndjson> <report.json>
pub fn c13enc(args: &[String]) {
    quiet_panics();
    let seed: u64 = args[0].parse().unwrap();
    let quick = args[1] == "quick";
    let mut w = std::io::BufWriter::new(std::fs::File::create(&args[2]).unwrap());
    let mut rng = SmallRng::seed_from_u64(seed ^ 0x13);
    let mut kinds = std::collections::BTreeMap::<String, u64>::new();
    let mut panics: Vec<Value> = vec![];
    let mut rt_bad: Vec<Value> = vec![];
    let mut ncases = 0u64;
    let ns: Vec<usize> = if quick { vec![2, 3, 4, 5, 7, 8, 9, 15, 16, 17, 18, 31, 32, 33, 64, 100, 127, 128, 129, 200, 255, 256] } else { (2..=256).collect() };
    for &n in &ns {
        // rank orders: identity, reversed, ties, random permutations; placements of unused symbols
        let mut variants: Vec<Vec<usize>> = vec![];
        variants.push((0..n).map(|i| i + 1).collect());
        variants.push((0..n).map(|i| n - i).collect());
        variants.push(vec![5; n]);
        variants.push((0..n).map(|i| 1usize << (i % 12)).collect());
        for _ in 0..(if quick { 1 } else { 3 }) {
            let mut v: Vec<usize> = (0..n).map(|_| rng.gen_range(1..5000)).collect();
            v.shuffle(&mut rng);
            variants.push(v);
        }
        for (vi, used_counts) in variants.iter().enumerate() {
            // place the used symbols among 0..=255 with unused ones in between (the last symbol of the table must be used)
            let mut counts: Vec<usize> = used_counts.clone();
            if n < 250 && vi % 2 == 1 {
                let total = (n + rng.gen_range(1..(256 - n).min(40) + 1)).min(256);
                let mut slots: Vec<usize> = (0..total - 1).collect();
                slots.shuffle(&mut rng);
                let mut chosen: Vec<usize> = slots[..n - 1].to_vec();
                chosen.push(total - 1);
                chosen.sort();
                counts = vec![0; total];
                for (k, s) in chosen.iter().enumerate() {
                    counts[*s] = used_counts[k];
                }
            }
            ncases += 1;
            let cc = counts.clone();
            let r = std::panic::catch_unwind(std::panic::AssertUnwindSafe(|| {
                let t = HuffmanTable::build_from_counts(&cc);
                let codes = t.verif_codes().to_vec();
                let used: Vec<u8> = (0..cc.len()).filter(|s| cc[*s] > 0).map(|s| s as u8).collect();
                let mut data: Vec<u8> = (0..24).map(|i| used[(i * 7 + vi) % used.len()]).collect();
                data.push(*used.last().unwrap());
                data.insert(0, used[0]);
                let all1 = verif::huf_encode(&t, &data, true, false);
                let dlen = if all1[0] >= 128 { 1 + ((all1[0] as usize - 127) + 1) / 2 } else { 1 + all1[0] as usize };
                let desc = all1[..dlen].to_vec();
                let stream1 = all1[dlen..].to_vec();
                let all4 = verif::huf_encode(&t, &data, false, true);
                let lens: Vec<u8> = codes.iter().map(|c| c.1).collect();
                let vals: Vec<u32> = codes.iter().map(|c| c.0).collect();
                vec![
                    json!({"k": "code", "nsyms": used.len(), "counts": cc, "lens": lens, "codes": vals, "desc": desc}),
                    json!({"k": "stream1", "lens": lens, "data": data, "stream": stream1}),
                    json!({"k": "stream4", "lens": lens, "data": data, "stream": all4}),
                ]
            }));
            match r {
                Ok(rows) => {
                    for row in rows {
                        *kinds.entry(row["k"].as_str().unwrap().to_string()).or_insert(0) += 1;
                        serde_json::to_writer(&mut w, &row).unwrap();
                        w.write_all(b"\n").unwrap();
                    }
                }
                Err(p) => {
                    if panics.len() < 10 {
                        panics.push(json!({"n": n, "variant": vi, "counts": counts, "panic": panic_msg(p)}));
                    }
                }
            }
        }
    }
    w.flush().unwrap();
    // literals of boundary lengths through the compressor's literals writer and both real decoders
    let mut nrt = 0u64;
    for len in [6usize, 7, 8, 63, 64, 255, 256, 1023, 1024, 1025, 4096, 16383, 16384, 16385, 65535, 65536, 131071, 131072] {
        for alpha in [2usize, 3, 17, 60, 200, 256] {
            nrt += 1;
            let lits: Vec<u8> = (0..len).map(|_| ((rng.gen::<f64>().powi(3) * alpha as f64) as usize).min(alpha - 1) as u8).collect();
            if lits.iter().all(|x| *x == lits[0]) {
                continue;
            }
            let r = std::panic::catch_unwind(std::panic::AssertUnwindSafe(|| verif::enc::compress_literals(&lits, None)));
            match r {
                Err(p) => rt_bad.push(json!({"len": len, "alphabet": alpha, "error": format!("compress_literals panicked: {}", panic_msg(p))})),
                Ok((section, _t)) => {
                    if section.len() + 1 > 128 * 1024 {
                        // not smaller than the block: the compressor would store the block raw, nothing to decode here
                        continue;
                    }
                    let frame = frame_with_literals(&section);
                    let (ours, reference) = decode_both(&frame, len);
                    if ours.as_ref().map(|o| *o == lits).unwrap_or(false) && reference.as_ref().map(|o| *o == lits).unwrap_or(false) {
                        continue;
                    }
                    rt_bad.push(json!({"len": len, "alphabet": alpha, "literals_type": section[0] & 3, "error": format!("literals do not round-trip: ruzstd {:?} libzstd {:?}",
                        ours.as_ref().map(|o| o.len()), reference.as_ref().map(|o| o.len()))}));
                }
            }
        }
    }
    rt_bad.truncate(10);
    write_json(&args[3], &json!({"histograms": ncases, "rows": kinds, "panics": panics, "roundtrips": nrt, "roundtrip_failures": rt_bad}));
}
