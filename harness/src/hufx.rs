//! C13 executors: spec-generated weight vectors through the real decoder (wrapped into a literals section of a frame);
//! the real encoder's codes, descriptions and streams as rows; long literal round trips.
use crate::frames::literals_header;
use crate::util::*;
use rand::{rngs::SmallRng, seq::SliceRandom, Rng, SeedableRng};
use ruzstd::decoding::FrameDecoder;
use ruzstd::huff0::huff0_encoder::HuffmanTable;
use ruzstd::verif;
use serde_json::{json, Value};
use std::io::{BufRead, Write};

/// frame with one compressed block: the given literals section and no sequences
pub fn frame_with_literals(section: &[u8]) -> Vec<u8> {
    let mut f = vec![0x28, 0xB5, 0x2F, 0xFD, 0x00, 0x38];
    let mut body = section.to_vec();
    body.push(0);
    let h = ((body.len() as u32) << 3) | (2 << 1) | 1;
    f.extend_from_slice(&h.to_le_bytes()[..3]);
    f.extend(body);
    f
}

fn decode_both(frame: &[u8], cap: usize) -> (Result<Vec<u8>, String>, Result<Vec<u8>, String>) {
    let ours = std::panic::catch_unwind(|| {
        let mut d = FrameDecoder::new();
        let mut o = Vec::with_capacity(cap + 16);
        d.decode_all_to_vec(frame, &mut o).map(|_| o).map_err(|e| e.to_string())
    })
    .unwrap_or_else(|p| Err(format!("panic: {}", panic_msg(p))));
    let reference = zstd::decode_all(frame).map_err(|e| e.to_string());
    (ours, reference)
}

/// c13dec <huf_cases.ndjson> <report.json>
pub fn c13dec(args: &[String]) {
    quiet_panics();
    let f = std::io::BufReader::new(std::fs::File::open(&args[0]).unwrap());
    let (mut n, mut bad, mut tool, mut nvalid, mut nincomplete, mut nother) = (0u64, 0u64, 0u64, 0u64, 0u64, 0u64);
    let mut mism: Vec<Value> = vec![];
    let mut tools: Vec<Value> = vec![];
    let mut samples: Vec<Value> = vec![];
    for line in f.lines() {
        let c: Value = serde_json::from_str(&line.unwrap()).unwrap();
        n += 1;
        let bytes_of = |k: &str| -> Vec<u8> { c[k].as_array().unwrap().iter().map(|x| x.as_u64().unwrap() as u8).collect() };
        let desc = bytes_of("desc");
        let stream = bytes_of("stream");
        let data = bytes_of("data");
        let valid = c["valid"].as_bool().unwrap();
        let complete = c["complete"].as_bool().unwrap();
        let regen = if valid { data.len() } else { 3 };
        let mut section = literals_header(2, regen, Some(desc.len() + stream.len()), false, Some(0));
        section.extend_from_slice(&desc);
        section.extend_from_slice(&stream);
        let frame = frame_with_literals(&section);
        let (ours, reference) = decode_both(&frame, regen);
        if valid {
            nvalid += 1;
            match &reference {
                Ok(r) if *r == data => {}
                other => {
                    tool += 1;
                    if tools.len() < 5 {
                        tools.push(json!({"weights": c["weights"], "libzstd": format!("{:?}", other)}));
                    }
                    continue;
                }
            }
            match &ours {
                Ok(o) if *o == data => {}
                other => {
                    bad += 1;
                    if mism.len() < 10 {
                        mism.push(json!({"weights": c["weights"], "error": format!("a valid weight description is not decoded to the specified literals: {:?}", other), "frame_hex": hex(&frame)}));
                    }
                }
            }
            if samples.len() < 2 && n % 41 == 1 {
                samples.push(json!({"weights": c["weights"], "lens": c["lens"], "data": c["data"]}));
            }
        } else if !complete {
            nincomplete += 1;
            // the table builder itself must refuse the description (whatever stream follows)
            let d2 = desc.clone();
            let built = std::panic::catch_unwind(move || {
                let mut t = ruzstd::huff0::HuffmanTable::new();
                let mut padded = d2.clone();
                padded.extend_from_slice(&[0u8; 8]);
                t.build_decoder(&padded).is_ok()
            });
            match built {
                Ok(true) => {
                    bad += 1;
                    if mism.len() < 10 {
                        mism.push(json!({"weights": c["weights"], "error": "the table builder accepts weights that cannot form a complete code of depth <= 11", "desc": desc}));
                    }
                    continue;
                }
                Err(p) => {
                    bad += 1;
                    if mism.len() < 10 {
                        mism.push(json!({"weights": c["weights"], "error": format!("the table builder panics: {}", panic_msg(p)), "desc": desc}));
                    }
                    continue;
                }
                Ok(false) => {}
            }
            if reference.is_ok() {
                tool += 1;
                if tools.len() < 5 {
                    tools.push(json!({"weights": c["weights"], "libzstd": "accepts an incomplete description"}));
                }
                continue;
            }
            if let Ok(o) = &ours {
                bad += 1;
                if mism.len() < 10 {
                    mism.push(json!({"weights": c["weights"], "error": format!("weights that cannot form a complete code are accepted ({} bytes decoded)", o.len()), "frame_hex": hex(&frame)}));
                }
            } else if let Err(e) = &ours {
                if e.starts_with("panic") {
                    bad += 1;
                    if mism.len() < 10 {
                        mism.push(json!({"weights": c["weights"], "error": e, "frame_hex": hex(&frame)}));
                    }
                }
            }
        } else {
            // complete but not minimal: unconstrained by the property (the reference decoder refuses these)
            nother += 1;
            if let Err(e) = &ours {
                if e.starts_with("panic") {
                    bad += 1;
                    if mism.len() < 10 {
                        mism.push(json!({"weights": c["weights"], "error": e, "frame_hex": hex(&frame)}));
                    }
                }
            }
        }
    }
    write_json(&args[1], &json!({"cases": n, "valid": nvalid, "incomplete": nincomplete, "complete_not_minimal": nother, "mismatches": bad, "first": mism,
        "spec_vs_libzstd": tool, "spec_vs_libzstd_examples": tools, "samples": samples}));
}

/// c13fse <seed> <quick|thorough> <rows.ndjson> <report.json>
/// Decoder side, FSE-compressed weight descriptions from an independent encoder: alphabets of 3..256 symbols x code
/// shapes x (accuracy log, how flat the distribution is); every description of 124..127 bytes (the largest the header
/// byte can express) and a sample of the shorter ones is wrapped into a frame and decoded by ruzstd and libzstd;
/// each is also a row for HufRows.tla (the specification's reading of the description gives exactly these weights).
pub fn c13fse(args: &[String]) {
    use crate::hufcodec::{encode_stream, fse_description, table_for_data, weight_distribution};
    quiet_panics();
    let seed: u64 = args[0].parse().unwrap();
    let quick = args[1] == "quick";
    let mut w = std::io::BufWriter::new(std::fs::File::create(&args[2]).unwrap());
    let mut rng = SmallRng::seed_from_u64(seed ^ 0x13f);
    let (mut tried, mut n, mut bad, mut tool) = (0u64, 0u64, 0u64, 0u64);
    let mut sizes = std::collections::BTreeMap::<usize, u64>::new();
    let mut mism: Vec<Value> = vec![];
    let mut tools: Vec<Value> = vec![];
    let mut taken = std::collections::BTreeMap::<usize, u64>::new();
    let shapes = ["uniform", "geometric", "two_level", "random"];
    let ms: Vec<usize> = if quick { vec![3, 4, 5, 8, 16, 17, 33, 64, 100, 128, 129, 160, 180, 200, 220, 240, 250, 255, 256] } else { (3..=256).collect() };
    for &m in &ms {
        for shape in shapes {
            // literals with the wanted histogram shape over m symbols
            let len = 600 + 12 * m;
            let syms: Vec<u8> = { let mut v: Vec<u8> = (0..=255u8).collect(); v.shuffle(&mut rng); v.truncate(m); if m == 256 { v } else { v.sort(); v } };
            let data: Vec<u8> = (0..len).map(|i| {
                if i < m { return syms[i]; }
                let k = match shape {
                    "uniform" => rng.gen_range(0..m),
                    "geometric" => { let mut k = 0; while k + 1 < m && rng.gen_bool(0.6) { k += 1; } k }
                    "two_level" => if rng.gen_bool(0.8) { rng.gen_range(0..(m / 4).max(1)) } else { rng.gen_range(0..m) },
                    _ => (rng.gen::<f64>().powi(2) * m as f64) as usize % m,
                };
                syms[k]
            }).collect();
            let table = match table_for_data(&data) { Some(t) => t, None => continue };
            let explicit: Vec<u8> = table.weights[..table.weights.len() - 1].to_vec();
            if explicit.len() < 2 {
                continue;
            }
            for al in [5u8, 6] {
                for flat in [0u32, 10, 25, 40, 55, 70, 85, 100, 105, 110, 115, 120, 125, 130, 135, 140, 145, 150, 155, 160, 165, 170, 175, 180, 185, 190, 195, 200] {
                    tried += 1;
                    let probs = weight_distribution(&explicit, al, flat);
                    let desc = match fse_description(&explicit, al, &probs) { Some(d) => d, None => continue };
                    let sz = desc.len() - 1;
                    *sizes.entry(sz).or_insert(0) += 1;
                    // all of the largest ones, a sample of the rest
                    let t = taken.entry(sz).or_insert(0);
                    let want = if sz >= 124 { *t < 6 } else { *t < 1 || (tried % 37 == 0 && *t < 3) };
                    if !want {
                        continue;
                    }
                    *t += 1;
                    n += 1;
                    let lits = &data[..300.min(data.len())];
                    let stream = encode_stream(&table, lits);
                    let mut section = literals_header(2, lits.len(), Some(desc.len() + stream.len()), false, Some(0));
                    section.extend_from_slice(&desc);
                    section.extend_from_slice(&stream);
                    let frame = frame_with_literals(&section);
                    let (ours, reference) = decode_both(&frame, lits.len());
                    match &reference {
                        Ok(r) if r == lits => {}
                        other => {
                            tool += 1;
                            if tools.len() < 5 {
                                tools.push(json!({"symbols": m, "shape": shape, "al": al, "flat": flat, "size": sz, "libzstd": format!("{:?}", other).chars().take(200).collect::<String>()}));
                            }
                            continue;
                        }
                    }
                    match &ours {
                        Ok(o) if o == lits => {}
                        other => {
                            bad += 1;
                            if mism.len() < 10 {
                                mism.push(json!({"symbols": m, "shape": shape, "al": al, "flat": flat, "description_bytes": sz,
                                    "error": format!("a valid FSE-compressed weight description is not decoded to the literals: {:?}", other).chars().take(300).collect::<String>(), "frame_hex": hex(&frame)}));
                            }
                        }
                    }
                    serde_json::to_writer(&mut w, &json!({"k": "fsedesc", "desc": desc, "explicit": explicit, "al": al})).unwrap();
                    w.write_all(b"\n").unwrap();
                }
            }
        }
    }
    // the largest sizes the header byte can express are rare on the grid: search for them (move probability between
    // weight values until the description has exactly the wanted size)
    let mut searched = std::collections::BTreeMap::<usize, u64>::new();
    for (bi, &m) in [256usize, 230, 200, 170, 140].iter().enumerate() {
        for shape in ["geometric", "random"] {
            let len = 600 + 12 * m;
            let data: Vec<u8> = (0..len).map(|i| {
                if i < m { return i as u8; }
                let k = if shape == "geometric" { let mut k = 0; while k + 1 < m && rng.gen_bool(0.6) { k += 1; } k } else { (rng.gen::<f64>().powi(2) * m as f64) as usize % m };
                k as u8
            }).collect();
            let table = match table_for_data(&data) { Some(t) => t, None => continue };
            let explicit: Vec<u8> = table.weights[..table.weights.len() - 1].to_vec();
            for target in [127usize, 126, 125, 128] {
                if quick && bi > 1 && target != 127 {
                    continue;
                }
                let al = 6u8;
                let size = 1i32 << al;
                let used: Vec<bool> = { let mut u = vec![false; 12]; for w in &explicit { u[*w as usize] = true; } u };
                let mut probs = weight_distribution(&explicit, al, 140);
                let k = probs.len();
                let mut cur = crate::hufcodec::fse_description_body(&explicit, al, &probs).map(|b| b.len());
                for _ in 0..4000 {
                    if cur == Some(target) {
                        break;
                    }
                    let (i, j) = (rng.gen_range(0..k), rng.gen_range(0..k));
                    if i == j || probs[i] <= if used[i] { 1 } else { 0 } || probs[j] >= size / 2 {
                        continue;
                    }
                    probs[i] -= 1;
                    probs[j] += 1;
                    let nsz = crate::hufcodec::fse_description_body(&explicit, al, &probs).map(|b| b.len());
                    let better = match (cur, nsz) {
                        (_, None) => false,
                        (None, Some(_)) => true,
                        (Some(c), Some(n2)) => (n2 as i64 - target as i64).abs() <= (c as i64 - target as i64).abs(),
                    };
                    if better {
                        cur = nsz;
                    } else {
                        probs[i] += 1;
                        probs[j] -= 1;
                    }
                }
                if cur != Some(target) {
                    continue;
                }
                *searched.entry(target).or_insert(0) += 1;
                if target >= 128 {
                    continue; // not expressible: nothing to decode (the search shows the boundary is real)
                }
                let desc = fse_description(&explicit, al, &probs).unwrap();
                *sizes.entry(target).or_insert(0) += 1;
                n += 1;
                let lits = &data[..300];
                let stream = encode_stream(&table, lits);
                let mut section = literals_header(2, lits.len(), Some(desc.len() + stream.len()), false, Some(0));
                section.extend_from_slice(&desc);
                section.extend_from_slice(&stream);
                let frame = frame_with_literals(&section);
                let (ours, reference) = decode_both(&frame, lits.len());
                match &reference {
                    Ok(r) if r == lits => {}
                    other => {
                        tool += 1;
                        if tools.len() < 5 {
                            tools.push(json!({"symbols": m, "shape": shape, "size": target, "libzstd": format!("{:?}", other).chars().take(200).collect::<String>()}));
                        }
                        continue;
                    }
                }
                match &ours {
                    Ok(o) if o == lits => {}
                    other => {
                        bad += 1;
                        if mism.len() < 10 {
                            mism.push(json!({"symbols": m, "shape": shape, "al": al, "description_bytes": target,
                                "error": format!("a valid FSE-compressed weight description is not decoded to the literals: {:?}", other).chars().take(300).collect::<String>(), "frame_hex": hex(&frame)}));
                        }
                    }
                }
                serde_json::to_writer(&mut w, &json!({"k": "fsedesc", "desc": desc, "explicit": explicit, "al": al})).unwrap();
                w.write_all(b"\n").unwrap();
            }
        }
    }
    w.flush().unwrap();
    let big: u64 = sizes.iter().filter(|(k, _)| **k >= 124).map(|(_, v)| *v).sum();
    write_json(&args[3], &json!({"tried": tried, "cases": n, "mismatches": bad, "first": mism, "spec_vs_libzstd": tool, "spec_vs_libzstd_examples": tools,
        "descriptions_of_124_to_127_bytes": big, "with_127_bytes": sizes.get(&127).cloned().unwrap_or(0), "largest": sizes.keys().max(), "found_by_search": searched}));
}

/// c13enc <seed> <quick|thorough> <rows.ndjson> <report.json>
pub fn c13enc(args: &[String]) {
    quiet_panics();
    let seed: u64 = args[0].parse().unwrap();
    let quick = args[1] == "quick";
    let mut w = std::io::BufWriter::new(std::fs::File::create(&args[2]).unwrap());
    let mut rng = SmallRng::seed_from_u64(seed ^ 0x13);
    let mut kinds = std::collections::BTreeMap::<String, u64>::new();
    let mut panics: Vec<Value> = vec![];
    let mut rt_bad: Vec<Value> = vec![];
    let mut ncases = 0u64;
    let ns: Vec<usize> = if quick { vec![2, 3, 4, 5, 7, 8, 9, 15, 16, 17, 18, 31, 32, 33, 64, 100, 127, 128, 129, 200, 255, 256] } else { (2..=256).collect() };
    for &n in &ns {
        // rank orders: identity, reversed, ties, random permutations; placements of unused symbols
        let mut variants: Vec<Vec<usize>> = vec![];
        variants.push((0..n).map(|i| i + 1).collect());
        variants.push((0..n).map(|i| n - i).collect());
        variants.push(vec![5; n]);
        variants.push((0..n).map(|i| 1usize << (i % 12)).collect());
        for _ in 0..(if quick { 1 } else { 3 }) {
            let mut v: Vec<usize> = (0..n).map(|_| rng.gen_range(1..5000)).collect();
            v.shuffle(&mut rng);
            variants.push(v);
        }
        for (vi, used_counts) in variants.iter().enumerate() {
            // place the used symbols among 0..=255 with unused ones in between (the last symbol of the table must be used)
            let mut counts: Vec<usize> = used_counts.clone();
            if n < 250 && vi % 2 == 1 {
                let total = (n + rng.gen_range(1..(256 - n).min(40) + 1)).min(256);
                let mut slots: Vec<usize> = (0..total - 1).collect();
                slots.shuffle(&mut rng);
                let mut chosen: Vec<usize> = slots[..n - 1].to_vec();
                chosen.push(total - 1);
                chosen.sort();
                counts = vec![0; total];
                for (k, s) in chosen.iter().enumerate() {
                    counts[*s] = used_counts[k];
                }
            }
            ncases += 1;
            let cc = counts.clone();
            let r = std::panic::catch_unwind(std::panic::AssertUnwindSafe(|| {
                let t = HuffmanTable::build_from_counts(&cc);
                let codes = t.verif_codes().to_vec();
                let used: Vec<u8> = (0..cc.len()).filter(|s| cc[*s] > 0).map(|s| s as u8).collect();
                let mut data: Vec<u8> = (0..24).map(|i| used[(i * 7 + vi) % used.len()]).collect();
                data.push(*used.last().unwrap());
                data.insert(0, used[0]);
                let all1 = verif::huf_encode(&t, &data, true, false);
                let dlen = if all1[0] >= 128 { 1 + ((all1[0] as usize - 127) + 1) / 2 } else { 1 + all1[0] as usize };
                let desc = all1[..dlen].to_vec();
                let stream1 = all1[dlen..].to_vec();
                let all4 = verif::huf_encode(&t, &data, false, true);
                let lens: Vec<u8> = codes.iter().map(|c| c.1).collect();
                let vals: Vec<u32> = codes.iter().map(|c| c.0).collect();
                vec![
                    json!({"k": "code", "nsyms": used.len(), "counts": cc, "lens": lens, "codes": vals, "desc": desc}),
                    json!({"k": "stream1", "lens": lens, "data": data, "stream": stream1}),
                    json!({"k": "stream4", "lens": lens, "data": data, "stream": all4}),
                ]
            }));
            match r {
                Ok(rows) => {
                    for row in rows {
                        *kinds.entry(row["k"].as_str().unwrap().to_string()).or_insert(0) += 1;
                        serde_json::to_writer(&mut w, &row).unwrap();
                        w.write_all(b"\n").unwrap();
                    }
                }
                Err(p) => {
                    if panics.len() < 10 {
                        panics.push(json!({"n": n, "variant": vi, "counts": counts, "panic": panic_msg(p)}));
                    }
                }
            }
        }
    }
    w.flush().unwrap();
    // literals of boundary lengths through the compressor's literals writer and both real decoders
    let mut nrt = 0u64;
    for len in [6usize, 7, 8, 63, 64, 255, 256, 1023, 1024, 1025, 4096, 16383, 16384, 16385, 65535, 65536, 131071, 131072] {
        for alpha in [2usize, 3, 17, 60, 200, 256] {
            nrt += 1;
            let lits: Vec<u8> = (0..len).map(|_| ((rng.gen::<f64>().powi(3) * alpha as f64) as usize).min(alpha - 1) as u8).collect();
            if lits.iter().all(|x| *x == lits[0]) {
                continue;
            }
            let r = std::panic::catch_unwind(std::panic::AssertUnwindSafe(|| verif::enc::compress_literals(&lits, None)));
            match r {
                Err(p) => rt_bad.push(json!({"len": len, "alphabet": alpha, "error": format!("compress_literals panicked: {}", panic_msg(p))})),
                Ok((section, _t)) => {
                    if section.len() + 1 > 128 * 1024 {
                        // not smaller than the block: the compressor would store the block raw, nothing to decode here
                        continue;
                    }
                    let frame = frame_with_literals(&section);
                    let (ours, reference) = decode_both(&frame, len);
                    if ours.as_ref().map(|o| *o == lits).unwrap_or(false) && reference.as_ref().map(|o| *o == lits).unwrap_or(false) {
                        continue;
                    }
                    rt_bad.push(json!({"len": len, "alphabet": alpha, "literals_type": section[0] & 3, "error": format!("literals do not round-trip: ruzstd {:?} libzstd {:?}",
                        ours.as_ref().map(|o| o.len()), reference.as_ref().map(|o| o.len()))}));
                }
            }
        }
    }
    // chains of literals sections threaded the way compress_block threads them (the returned table replaces the remembered
    // one): the table the compressor remembers must be the table the decoder holds -- a table is handed back exactly when
    // its description was written (literals type 2), and the three-block frame decodes to the three literal strings.
    let flat = |rng: &mut SmallRng, heavy: usize| -> Vec<u8> {
        // nearly incompressible: 254 values ten times each, two of them `heavy` times (Huffman saves less than its table costs)
        let mut v: Vec<u8> = Vec::new();
        for b in 0..254usize {
            for _ in 0..(if b < 2 { heavy } else { 10 }) {
                v.push(b as u8);
            }
        }
        for i in (1..v.len()).rev() {
            let j = rng.gen_range(0..=i);
            v.swap(i, j);
        }
        v
    };
    let skew = |rng: &mut SmallRng, alpha: usize, len: usize| -> Vec<u8> {
        (0..len).map(|_| ((rng.gen::<f64>().powi(3) * alpha as f64) as usize).min(alpha - 1) as u8).collect()
    };
    let mut nchains = 0u64;
    for c0 in 0..6usize {
        for c1 in 0..6usize {
            for c2 in 0..6usize {
                let mk = |rng: &mut SmallRng, c: usize| -> Vec<u8> {
                    match c {
                        0 => skew(rng, 17, 3000),
                        1 => skew(rng, 200, 2500),
                        2 => flat(rng, 120),
                        3 => flat(rng, 60),
                        4 => flat(rng, 11),
                        _ => skew(rng, 256, 1100),
                    }
                };
                let chain = [mk(&mut rng, c0), mk(&mut rng, c1), mk(&mut rng, c2)];
                nchains += 1;
                nrt += 1;
                let r = std::panic::catch_unwind(std::panic::AssertUnwindSafe(|| {
                    let mut last = None;
                    let mut secs: Vec<Vec<u8>> = vec![];
                    let mut mismatch: Option<String> = None;
                    for (i, lits) in chain.iter().enumerate() {
                        let (sec, t) = verif::enc::compress_literals(lits, last.as_ref());
                        let ty = sec[0] & 3;
                        if (ty == 2) != t.is_some() && mismatch.is_none() {
                            mismatch = Some(format!("section {i} of the chain has literals type {ty} but the compressor {} a table to remember (the decoder {})",
                                if t.is_some() { "takes" } else { "does not take" }, if ty == 2 { "reads a new one" } else { "keeps its old one" }));
                        }
                        if let Some(t) = t {
                            last = Some(t);
                        }
                        secs.push(sec);
                    }
                    (secs, mismatch)
                }));
                let classes = format!("{c0}{c1}{c2}");
                match r {
                    Err(p) => rt_bad.push(json!({"len": 0, "alphabet": 0, "chain": classes, "error": format!("compress_literals panicked in a chain: {}", panic_msg(p))})),
                    Ok((secs, mismatch)) => {
                        if let Some(m) = mismatch {
                            rt_bad.push(json!({"len": chain[0].len(), "alphabet": 0, "chain": classes, "error": m}));
                            continue;
                        }
                        let mut f = vec![0x28u8, 0xB5, 0x2F, 0xFD, 0x00, 0x38];
                        for (i, sec) in secs.iter().enumerate() {
                            let mut body = sec.clone();
                            body.push(0);
                            let h = ((body.len() as u32) << 3) | (2 << 1) | (i == secs.len() - 1) as u32;
                            f.extend_from_slice(&h.to_le_bytes()[..3]);
                            f.extend(body);
                        }
                        let want: Vec<u8> = chain.iter().flatten().copied().collect();
                        let (ours, reference) = decode_both(&f, want.len());
                        if ours.as_ref().map(|o| *o == want).unwrap_or(false) && reference.as_ref().map(|o| *o == want).unwrap_or(false) {
                            continue;
                        }
                        rt_bad.push(json!({"len": want.len(), "alphabet": 0, "chain": classes, "types": secs.iter().map(|s| s[0] & 3).collect::<Vec<_>>(),
                            "error": format!("chain of three literals sections does not round-trip: ruzstd {:?} libzstd {:?}", ours.as_ref().map(|o| o.len()), reference.as_ref().map(|o| o.len()))}));
                    }
                }
            }
        }
    }
    rt_bad.truncate(10);
    write_json(&args[3], &json!({"histograms": ncases, "rows": kinds, "panics": panics, "roundtrips": nrt, "chains": nchains, "roundtrip_failures": rt_bad}));
}
