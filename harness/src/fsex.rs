//! C12 executors: spec-generated distributions through the real decoder; encoder tables / descriptions / streams as rows.
use crate::util::*;
use rand::{rngs::SmallRng, Rng, SeedableRng};
use ruzstd::fse::{fse_encoder, FSETable};
use ruzstd::verif;
use serde_json::{json, Value};
use std::io::{BufRead, Write};

/// c12dec <fse_cases.ndjson> <report.json>
pub fn c12dec(args: &[String]) {
    quiet_panics();
    let f = std::io::BufReader::new(std::fs::File::open(&args[0]).unwrap());
    let (mut n, mut bad) = (0u64, 0u64);
    let mut mism: Vec<Value> = vec![];
    let mut samples: Vec<Value> = vec![];
    // long-lived tables: one is reset and rebuilt for every case, one takes over every case's table with reinit_from
    // (what happens to the sequence tables of a decoder from frame to frame and when a dictionary is loaded)
    let mut rebuilt = FSETable::new(255);
    let mut copied = FSETable::new(255);
    for line in f.lines() {
        let c: Value = serde_json::from_str(&line.unwrap()).unwrap();
        n += 1;
        let al = c["al"].as_u64().unwrap() as u8;
        let probs: Vec<i32> = c["probs"].as_array().unwrap().iter().map(|x| x.as_i64().unwrap() as i32).collect();
        let mut bytes: Vec<u8> = c["bytes"].as_array().unwrap().iter().map(|x| x.as_u64().unwrap() as u8).collect();
        let used_expected = bytes.len();
        bytes.push(0xA5); // inside a frame something always follows the description
        let r = std::panic::catch_unwind(std::panic::AssertUnwindSafe(|| -> Result<(), String> {
            let mut t = FSETable::new(255);
            let used = t.build_decoder(&bytes, 9).map_err(|e| format!("valid description refused: {e}"))?;
            if used != used_expected {
                return Err(format!("{used} bytes read, description has {used_expected}"));
            }
            if t.accuracy_log != al || t.symbol_probabilities != probs {
                return Err(format!("parsed al {} probs {:?}", t.accuracy_log, t.symbol_probabilities));
            }
            let exp = c["table"].as_array().unwrap();
            if t.decode.len() != exp.len() {
                return Err(format!("table has {} states, specified {}", t.decode.len(), exp.len()));
            }
            for (i, e) in exp.iter().enumerate() {
                let got = (t.decode[i].symbol as u64, t.decode[i].num_bits as u64, t.decode[i].base_line as u64);
                let want = (e[0].as_u64().unwrap(), e[1].as_u64().unwrap(), e[2].as_u64().unwrap());
                if got != want {
                    return Err(format!("state {i}: (symbol, bits, baseline) = {:?}, specified {:?}", got, want));
                }
            }
            // the same description into a table that held another one before; and the table handed over with reinit_from
            rebuilt.reset();
            rebuilt.build_decoder(&bytes, 9).map_err(|e| format!("a reused table refuses the description: {e}"))?;
            copied.reinit_from(&t);
            for (what, r) in [("rebuilt after reset", &rebuilt), ("taken over with reinit_from", &copied)] {
                if r.accuracy_log != t.accuracy_log || r.decode.len() != t.decode.len()
                    || (0..t.decode.len()).any(|i| (r.decode[i].symbol, r.decode[i].num_bits, r.decode[i].base_line) != (t.decode[i].symbol, t.decode[i].num_bits, t.decode[i].base_line)) {
                    return Err(format!("the table {what} (a table object that held another table before) has {} states / differs from the freshly built one with {}", r.decode.len(), t.decode.len()));
                }
            }
            // the reader's limits: accepted exactly within them
            for l in c["limits"].as_array().unwrap() {
                let (ml, ms, acc) = (l["maxlog"].as_u64().unwrap() as u8, l["maxsym"].as_u64().unwrap() as u8, l["accept"].as_bool().unwrap());
                let mut tl = FSETable::new(ms);
                let got = tl.build_decoder(&bytes, ml).is_ok();
                if got != acc {
                    return Err(format!("a reader limited to accuracy log {ml} and symbols 0..={ms} {} the description (specified: {})",
                        if got { "accepts" } else { "refuses" }, if acc { "accept" } else { "refuse" }));
                }
            }
            // the same table through build_from_probabilities (the path of the predefined tables)
            let mut t2 = FSETable::new(255);
            t2.build_from_probabilities(al, &probs).map_err(|e| e.to_string())?;
            for i in 0..t.decode.len() {
                if (t2.decode[i].symbol, t2.decode[i].num_bits, t2.decode[i].base_line) != (t.decode[i].symbol, t.decode[i].num_bits, t.decode[i].base_line) {
                    return Err(format!("build_from_probabilities differs at state {i}"));
                }
            }
            Ok(())
        }));
        let e = match r {
            Err(p) => Some(format!("panic: {}", panic_msg(p))),
            Ok(Err(e)) => Some(e),
            Ok(Ok(())) => None,
        };
        if let Some(e) = e {
            bad += 1;
            if mism.len() < 10 {
                mism.push(json!({"al": al, "probs": probs, "bytes": bytes, "error": e}));
            }
        }
        if samples.len() < 2 && n % 97 == 3 {
            samples.push(json!({"al": al, "probs": probs, "bytes": c["bytes"]}));
        }
    }
    write_json(&args[1], &json!({"cases": n, "mismatches": bad, "first": mism, "samples": samples}));
}

fn hist_data(counts: &[usize], rng: &mut SmallRng) -> Vec<u8> {
    use rand::seq::SliceRandom;
    let mut d = vec![];
    for (s, c) in counts.iter().enumerate() {
        d.extend(std::iter::repeat(s as u8).take(*c));
    }
    d.shuffle(rng);
    d
}

/// c12enc <seed> <quick|thorough> <rows.ndjson> <report.json>
pub fn c12enc(args: &[String]) {
    quiet_panics();
    let seed: u64 = args[0].parse().unwrap();
    let quick = args[1] == "quick";
    let mut w = std::io::BufWriter::new(std::fs::File::create(&args[2]).unwrap());
    let mut rng = SmallRng::seed_from_u64(seed ^ 0x12);
    let mut counts_of = std::collections::BTreeMap::<String, u64>::new();
    let mut panics: Vec<Value> = vec![];
    let mut hists: Vec<Vec<usize>> = vec![];
    // all histograms over up to 4 symbols with counts <= 6 (at least two symbols used)
    let top = if quick { 4 } else { 7 };
    for a in 0..top {
        for b in 0..top {
            for c in 0..top {
                for d in 0..top {
                    let h = vec![a, b, c, d];
                    if h.iter().filter(|x| **x > 0).count() >= 1 && h.iter().sum::<usize>() >= 1 {
                        hists.push(h);
                    }
                }
            }
        }
    }
    // shapes aimed at the branches of the normalisation heuristic
    hists.push(vec![1000, 1]);
    hists.push(vec![1, 1000]);
    hists.push(vec![5000, 3, 3, 3, 3]);
    hists.push(vec![1; 36]);
    hists.push(vec![1; 53]);
    hists.push((0..36).map(|i| i + 1).collect());
    hists.push((0..53).map(|i| 60 - i).collect());
    hists.push(vec![0, 0, 0, 7, 0, 0, 0, 0, 0, 0, 0, 0, 9]);
    hists.push(vec![300, 200, 100, 50, 25, 12, 6, 3, 1, 1, 1]);
    hists.push(vec![512, 0, 0, 0, 512]);
    hists.push(vec![511, 1]);
    hists.push(vec![0, 1]);
    hists.push(vec![3]);
    for _ in 0..(if quick { 150 } else { 3000 }) {
        let n = rng.gen_range(1..53);
        let skew = rng.gen_range(1..4);
        hists.push((0..n).map(|_| if rng.gen_bool(0.2) { 0 } else { (rng.gen::<f64>().powi(skew) * 2000.0) as usize }).collect());
    }
    for h in &hists {
        if h.iter().sum::<usize>() == 0 {
            continue;
        }
        for &(maxlog, avoid) in &[(9u8, true), (8, true), (6, true), (9, false)] {
            let data = hist_data(h, &mut rng);
            let hh = h.clone();
            let r = std::panic::catch_unwind(std::panic::AssertUnwindSafe(|| {
                let t = fse_encoder::build_table_from_data(data.iter().copied(), maxlog, avoid);
                let probs = t.verif_probabilities();
                let states: Vec<Value> = t.verif_states().iter().map(|s| json!([s.0, s.1, s.2, s.3])).collect();
                let desc = verif::fse_write_table(&t);
                let used: Vec<usize> = (0..hh.len()).filter(|s| hh[*s] > 0).collect();
                let mut rows = vec![json!({"k": "enc", "al": t.acc_log(), "maxlog": maxlog, "avoid0": avoid && used.len() > 1, "probs": probs, "states": states, "desc": desc, "used": used, "hist": hh})];
                // short streams through both encoders
                if data.len() >= 4 && probs.len() <= 12 {
                    for two in [false, true] {
                        let n = data.len().min(if two { 9 } else { 7 });
                        let d = &data[..n];
                        let all = verif::fse_encode(t.clone(), d, two);
                        let stream = all[desc.len()..].to_vec();
                        rows.push(json!({"k": "stream", "al": t.acc_log(), "probs": probs, "two": two, "data": d, "stream": stream}));
                    }
                }
                rows
            }));
            match r {
                Ok(rows) => {
                    for row in rows {
                        *counts_of.entry(row["k"].as_str().unwrap().to_string()).or_insert(0) += 1;
                        serde_json::to_writer(&mut w, &row).unwrap();
                        w.write_all(b"\n").unwrap();
                    }
                }
                Err(p) => {
                    if panics.len() < 10 {
                        panics.push(json!({"hist": h, "maxlog": maxlog, "avoid0": avoid, "panic": panic_msg(p)}));
                    }
                }
            }
        }
    }
    // predefined tables: the decoder's (through build_from_probabilities with the crate's own constants is private, so the
    // sequence decoder's tables are observed through a frame in C01) and the encoder's defaults
    let (ll, ml, of) = fse_encoder::verif_default_tables();
    for (which, t) in [("ll", ll), ("ml", ml), ("of", of)] {
        let states: Vec<Value> = t.verif_states().iter().map(|s| json!([s.0, s.1, s.2, s.3])).collect();
        let row = json!({"k": "predef", "which": which, "side": "enc", "al": t.acc_log(), "states": states, "table": []});
        *counts_of.entry("predef".into()).or_insert(0) += 1;
        serde_json::to_writer(&mut w, &row).unwrap();
        w.write_all(b"\n").unwrap();
    }
    // the decoder's predefined tables, built by the decoder from its own constants
    let (dl, dm, dof) = verif::default_distributions();
    for (which, (al, probs)) in [("ll", dl), ("ml", dm), ("of", dof)] {
        let mut t = FSETable::new(255);
        t.build_from_probabilities(al, probs).unwrap();
        let table: Vec<Value> = t.decode.iter().map(|e| json!([e.symbol, e.num_bits, e.base_line])).collect();
        let row = json!({"k": "predef", "which": which, "side": "dec", "al": al, "states": [], "table": table});
        *counts_of.entry("predef".into()).or_insert(0) += 1;
        serde_json::to_writer(&mut w, &row).unwrap();
        w.write_all(b"\n").unwrap();
    }
    w.flush().unwrap();
    write_json(&args[3], &json!({"rows": counts_of, "histograms": hists.len(), "panics": panics}));
}
