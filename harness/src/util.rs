//! Shared helpers: independent XXH64, bit writer, panic capture, JSON helpers, event formatting.
use serde_json::{json, Value};
use std::io::Write;

pub fn xxh64(d: &[u8], seed: u64) -> u64 {
    const P1: u64 = 11400714785074694791;
    const P2: u64 = 14029467366897019727;
    const P3: u64 = 1609587929392839161;
    const P4: u64 = 9650029242287828579;
    const P5: u64 = 2870177450012600261;
    let rd64 = |p: &[u8]| u64::from_le_bytes(p[..8].try_into().unwrap());
    let rd32 = |p: &[u8]| u32::from_le_bytes(p[..4].try_into().unwrap()) as u64;
    let round = |a: u64, i: u64| (a.wrapping_add(i.wrapping_mul(P2))).rotate_left(31).wrapping_mul(P1);
    let merge = |h: u64, v: u64| (h ^ round(0, v)).wrapping_mul(P1).wrapping_add(P4);
    let mut p = d;
    let mut h: u64;
    if d.len() >= 32 {
        let mut v1 = seed.wrapping_add(P1).wrapping_add(P2);
        let mut v2 = seed.wrapping_add(P2);
        let mut v3 = seed;
        let mut v4 = seed.wrapping_sub(P1);
        while p.len() >= 32 {
            v1 = round(v1, rd64(p));
            v2 = round(v2, rd64(&p[8..]));
            v3 = round(v3, rd64(&p[16..]));
            v4 = round(v4, rd64(&p[24..]));
            p = &p[32..];
        }
        h = v1.rotate_left(1).wrapping_add(v2.rotate_left(7)).wrapping_add(v3.rotate_left(12)).wrapping_add(v4.rotate_left(18));
        h = merge(h, v1);
        h = merge(h, v2);
        h = merge(h, v3);
        h = merge(h, v4);
    } else {
        h = seed.wrapping_add(P5);
    }
    h = h.wrapping_add(d.len() as u64);
    while p.len() >= 8 {
        h ^= round(0, rd64(p));
        h = h.rotate_left(27).wrapping_mul(P1).wrapping_add(P4);
        p = &p[8..];
    }
    if p.len() >= 4 {
        h ^= rd32(p).wrapping_mul(P1);
        h = h.rotate_left(23).wrapping_mul(P2).wrapping_add(P3);
        p = &p[4..];
    }
    for &b in p {
        h ^= (b as u64).wrapping_mul(P5);
        h = h.rotate_left(11).wrapping_mul(P1);
    }
    h ^= h >> 33;
    h = h.wrapping_mul(P2);
    h ^= h >> 29;
    h = h.wrapping_mul(P3);
    h ^= h >> 32;
    h
}

/// Forward bit writer (LSB first), as used by FSE table descriptions.
pub struct BitW {
    pub out: Vec<u8>,
    acc: u64,
    n: u32,
}
impl BitW {
    pub fn new() -> Self {
        BitW { out: vec![], acc: 0, n: 0 }
    }
    pub fn put(&mut self, v: u64, bits: u32) {
        for i in 0..bits {
            let b = (v >> i) & 1;
            self.acc |= b << self.n;
            self.n += 1;
            if self.n == 8 {
                self.out.push(self.acc as u8);
                self.acc = 0;
                self.n = 0;
            }
        }
    }
    pub fn bits_written(&self) -> usize {
        self.out.len() * 8 + self.n as usize
    }
    /// pad with zero bits to a byte boundary
    pub fn flush(mut self) -> Vec<u8> {
        if self.n > 0 {
            self.out.push(self.acc as u8);
        }
        self.out
    }
    /// append the end mark (a single 1 bit) and pad: the form of a reversed bitstream
    pub fn finish_with_mark(mut self) -> Vec<u8> {
        self.put(1, 1);
        self.flush()
    }
}

pub fn panic_msg(e: Box<dyn std::any::Any + Send>) -> String {
    e.downcast_ref::<String>()
        .map(|s| s.lines().next().unwrap_or("").to_string())
        .or(e.downcast_ref::<&str>().map(|s| s.lines().next().unwrap_or("").to_string()))
        .unwrap_or_else(|| "<non-string panic>".into())
}

pub fn quiet_panics() {
    std::panic::set_hook(Box::new(|_| {}));
}

pub fn write_json(path: &str, v: &Value) {
    let mut f = std::io::BufWriter::new(std::fs::File::create(path).expect("create report"));
    serde_json::to_writer(&mut f, v).unwrap();
    f.write_all(b"\n").unwrap();
}

pub fn arg_after(args: &[String], key: &str) -> Option<String> {
    args.iter().position(|a| a == key).and_then(|i| args.get(i + 1).cloned())
}

pub fn ev_json(e: &ruzstd::verif::Event) -> Value {
    json!({"k": e.kind, "a": e.args[..e.nargs as usize].to_vec(), "b": e.bytes})
}

pub fn hex(b: &[u8]) -> String {
    b.iter().map(|x| format!("{:02x}", x)).collect()
}
pub fn unhex(s: &str) -> Vec<u8> {
    (0..s.len() / 2).map(|i| u8::from_str_radix(&s[2 * i..2 * i + 2], 16).unwrap()).collect()
}

/// zstdcat <archive> <out>: decode with libzstd (exit 0 ok, 1 refused)
pub fn zstdcat(args: &[String]) {
    let data = std::fs::read(&args[0]).unwrap_or_default();
    match zstd::decode_all(&data[..]) {
        Ok(o) => {
            std::fs::write(&args[1], o).unwrap();
        }
        Err(_) => std::process::exit(1),
    }
}

/// CPU time (user + system, in clock ticks of 1/100 s) consumed so far by this process or by process `pid`.
/// Watchdogs measure CPU time, not wall time: on a loaded machine a starved process makes no progress without hanging.
pub fn cpu_ticks(pid: Option<u32>) -> u64 {
    let path = match pid {
        Some(p) => format!("/proc/{p}/stat"),
        None => "/proc/self/stat".to_string(),
    };
    let s = std::fs::read_to_string(path).unwrap_or_default();
    // the fields after the command name (which may contain spaces): state is field 3, utime 14, stime 15
    let rest = s.rsplit(") ").next().unwrap_or("");
    let f: Vec<&str> = rest.split(' ').collect();
    let get = |i: usize| f.get(i).and_then(|x| x.parse::<u64>().ok()).unwrap_or(0);
    get(11) + get(12)
}
