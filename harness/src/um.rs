//! C16: a scripted, well-behaved user matcher through the public Matcher trait.
//!  c16classes: one concrete valid parse per class of ParseClasses.tla (data synthesised from the plan)
//!  c16tiny   : ALL valid parses of all binary blocks of 3..7 bytes after histories of 0 / 3 / 5 bytes
//!  random valid parses of large blocks
use crate::util::*;
use rand::{rngs::SmallRng, Rng, SeedableRng};
use ruzstd::decoding::FrameDecoder;
use ruzstd::encoding::{CompressionLevel, FrameCompressor, Matcher, Sequence};
use serde_json::{json, Value};
use std::cell::RefCell;
use std::io::{BufRead, Write};
use std::rc::Rc;

pub type Parse = Vec<(usize, usize, usize)>; // (literal length, offset, match length)

pub struct Scripted {
    hist: Vec<u8>,
    last: Vec<u8>,
    plans: Rc<RefCell<Vec<Parse>>>,
    blk: usize,
    slice: usize,
    window: u64,
    /// the matcher configures itself in reset(): until then it reports the smallest window (the trait allows window_size()
    /// to change with reset; the frame header must carry the value that holds while the frame is produced)
    configured: bool,
}
impl Matcher for Scripted {
    fn get_next_space(&mut self) -> Vec<u8> {
        vec![0; self.slice]
    }
    fn get_last_space(&mut self) -> &[u8] {
        &self.last
    }
    fn commit_space(&mut self, space: Vec<u8>) {
        let old = std::mem::replace(&mut self.last, space);
        self.hist.extend(old);
        self.blk += 1;
    }
    fn skip_matching(&mut self) {}
    fn start_matching(&mut self, mut h: impl for<'a> FnMut(Sequence<'a>)) {
        let plan = self.plans.borrow().get(self.blk - 1).cloned().unwrap_or_default();
        let mut pos = 0;
        for (ll, off, ml) in plan {
            h(Sequence::Triple { literals: &self.last[pos..pos + ll], offset: off, match_len: ml });
            pos += ll + ml;
        }
        if pos < self.last.len() {
            h(Sequence::Literals { literals: &self.last[pos..] });
        }
    }
    fn reset(&mut self, _l: CompressionLevel) {
        self.hist.clear();
        self.last.clear();
        self.blk = 0;
        self.configured = true;
    }
    fn window_size(&self) -> u64 {
        if self.configured { self.window } else { 1024 }
    }
}

/// compress `data` in blocks of `slice` bytes with the given plan per block; returns None (ok) or what went wrong
pub fn roundtrip(data: &[u8], slice: usize, plans: Vec<Parse>, window: u64) -> Option<String> {
    roundtrip_frame(data, slice, plans, window).0
}

pub fn roundtrip_frame(data: &[u8], slice: usize, plans: Vec<Parse>, window: u64) -> (Option<String>, Vec<u8>) {
    let m = Scripted { hist: vec![], last: vec![], plans: Rc::new(RefCell::new(plans)), blk: 0, slice, window, configured: false };
    let d2 = data.to_vec();
    let res = std::panic::catch_unwind(std::panic::AssertUnwindSafe(move || {
        let mut out = Vec::new();
        let mut c = FrameCompressor::new_with_matcher(m, CompressionLevel::Fastest);
        c.set_source(&d2[..]);
        c.set_drain(&mut out);
        c.compress();
        drop(c);
        out
    }));
    match res {
        Err(p) => (Some(format!("compress() panicked: {}", panic_msg(p))), vec![]),
        Ok(out) => {
            let r = zstd::decode_all(&out[..]);
            let o = {
                let mut d = FrameDecoder::new();
                let mut v = Vec::with_capacity(data.len() + 16);
                d.decode_all_to_vec(&out, &mut v).map(|_| v)
            };
            let ref_ok = r.as_ref().map(|v| v == data).unwrap_or(false);
            let our_ok = o.as_ref().map(|v| v == data).unwrap_or(false);
            // every offset the decoder executed lies within the window the frame declares
            let mut beyond: Option<String> = None;
            if our_ok {
                if let Ok(lay) = crate::frames::walk_frame(&out) {
                    let win = lay["win"].as_u64().unwrap_or(u64::MAX);
                    ruzstd::verif::take();
                    ruzstd::verif::set_mask(ruzstd::verif::SEQ);
                    let mut v = Vec::with_capacity(data.len() + 16);
                    let _ = FrameDecoder::new().decode_all_to_vec(&out, &mut v);
                    let evs = ruzstd::verif::take();
                    ruzstd::verif::set_mask(0);
                    if let Some(e) = evs.iter().find(|e| e.kind == "seq" && e.args[3] > win) {
                        beyond = Some(format!("a match offset of {} lies beyond the window of {} bytes that the frame declares (the matcher announced {})", e.args[3], win, window));
                    }
                }
            }
            let verdict = if let Some(b) = beyond {
                Some(b)
            } else if ref_ok && our_ok {
                None
            } else {
                Some(format!("the frame does not decode to the input: libzstd {} ruzstd {}",
                    if ref_ok { "ok".into() } else { r.err().map(|e| e.to_string()).unwrap_or("wrong bytes".into()) },
                    if our_ok { "ok".into() } else { o.err().map(|e| e.to_string()).unwrap_or("wrong bytes".into()) }))
            };
            (verdict, out)
        }
    }
}

/// data for a block from a plan: literal bytes from the alphabet, match bytes copied from `offset` back (history ++ block)
fn synth(hist: &[u8], plan: &Parse, tail: usize, alphabet: &[u8], rng: &mut SmallRng) -> Vec<u8> {
    let mut all = hist.to_vec();
    for &(ll, off, ml) in plan {
        for _ in 0..ll {
            all.push(alphabet[rng.gen_range(0..alphabet.len())]);
        }
        for _ in 0..ml {
            let v = all[all.len() - off];
            all.push(v);
        }
    }
    for _ in 0..tail {
        all.push(alphabet[rng.gen_range(0..alphabet.len())]);
    }
    all[hist.len()..].to_vec()
}

const BLOCK: usize = 128 * 1024;

fn shape_values(shape: &str, kind: char, i: usize) -> usize {
    // literal lengths / match lengths / offsets realising a code-set shape
    match (kind, shape) {
        ('l', "zero") => 0,
        ('l', "single") => 2,
        ('l', "two") => i % 2,
        ('l', _) => [0, 1, 2, 3, 5, 8, 13, 17, 19, 24, 33, 50][i % 12],
        ('m', "zero") => 3,
        ('m', "single") => 7,
        ('m', "two") => 3 + i % 2,
        ('m', _) => [3, 4, 5, 6, 9, 12, 20, 35, 37, 44, 60, 70][i % 12],
        ('o', "single") => 4,
        ('o', "two") => [4, 9][i % 2],
        (_, _) => [1, 2, 3, 4, 7, 8, 15, 16, 100, 1000, 5000, 70000][i % 12],
    }
}

/// c16classes <seed> <parse_classes.ndjson> <report.json>
pub fn c16classes(args: &[String]) {
    quiet_panics();
    let seed: u64 = args[0].parse().unwrap();
    let f = std::io::BufReader::new(std::fs::File::open(&args[1]).unwrap());
    let mut rng = SmallRng::seed_from_u64(seed ^ 0x16);
    let (mut n, mut bad, mut skipped) = (0u64, 0u64, 0u64);
    let mut mism: Vec<Value> = vec![];
    let mut samples: Vec<Value> = vec![];
    for line in f.lines() {
        let c: Value = serde_json::from_str(&line.unwrap()).unwrap();
        let nseq = c["n"].as_u64().unwrap() as usize;
        let (lls, mls, ofs, lits) = (c["ll"].as_str().unwrap(), c["ml"].as_str().unwrap(), c["of"].as_str().unwrap(), c["lits"].as_str().unwrap());
        // the plan for the second block (the first block is history, parsed as literals only)
        let mut plan: Parse = vec![];
        let mut used = 0usize;
        for i in 0..nseq {
            let ll = shape_values(lls, 'l', i);
            let ml = shape_values(mls, 'm', i);
            let off = shape_values(ofs, 'o', i);
            if used + ll + ml > BLOCK {
                break;
            }
            plan.push((ll, off, ml));
            used += ll + ml;
        }
        if plan.len() != nseq {
            skipped += 1;
            continue;
        }
        // literals class: total literal bytes and their alphabet
        let lit_in_seqs: usize = plan.iter().map(|p| p.0).sum();
        let want_lits = if lits == "few" { lit_in_seqs.min(1024) } else { 1500usize.max(lit_in_seqs) };
        if lits == "few" && lit_in_seqs > 1024 {
            skipped += 1;
            continue;
        }
        let tail = (want_lits - lit_in_seqs).min(BLOCK - used);
        if lits != "few" && lit_in_seqs + tail <= 1024 {
            skipped += 1;
            continue;
        }
        let alphabet: Vec<u8> = match lits {
            "one_symbol" => vec![b'a'],
            "two_symbols" => vec![b'a', b'b'],
            _ => (0..=255u8).collect(),
        };
        n += 1;
        let hist: Vec<u8> = (0..BLOCK).map(|_| rng.gen()).collect();
        let block = synth(&hist, &plan, tail, &alphabet, &mut rng);
        let mut data = hist.clone();
        data.extend_from_slice(&block);
        let e = roundtrip(&data, BLOCK, vec![vec![], plan.clone()], 1 << 20);
        if let Some(e) = e {
            bad += 1;
            if mism.len() < 12 {
                mism.push(json!({"class": c, "block_len": block.len(), "first_sequences": plan[..plan.len().min(5)].to_vec(), "error": e}));
            }
        } else if samples.len() < 2 && nseq > 1 {
            samples.push(json!({"class": c, "block_len": block.len(), "first_sequences": plan[..plan.len().min(4)].to_vec()}));
        }
    }
    write_json(&args[2], &json!({"classes_run": n, "skipped_infeasible": skipped, "mismatches": bad, "first": mism, "samples": samples}));
}

fn parses(h: &[u8], b: &[u8], pos: usize, lit_run: usize, cur: &mut Parse, out: &mut Vec<Parse>) {
    if pos == b.len() {
        out.push(cur.clone());
        return;
    }
    parses(h, b, pos + 1, lit_run + 1, cur, out);
    let avail = h.len() + pos;
    for off in 1..=avail {
        for ml in 3..=(b.len() - pos) {
            let ok = (0..ml).all(|k| {
                let src = (h.len() + pos + k) as isize - off as isize;
                let sb = if (src as usize) < h.len() { h[src as usize] } else { b[src as usize - h.len()] };
                sb == b[pos + k]
            });
            if ok {
                cur.push((lit_run, off, ml));
                parses(h, b, pos + ml, 0, cur, out);
                cur.pop();
            }
        }
    }
}

/// c16tiny <seed> <quick|thorough> <rows.ndjson> <report.json>: exhaustive tiny parses; a sample of them is also written
/// as rows so that TLC confirms with Matcher!SeqsOk (minimum match 3) that what the harness generates are valid parses
pub fn c16tiny(args: &[String]) {
    quiet_panics();
    let seed: u64 = args[0].parse().unwrap();
    let quick = args[1] == "quick";
    let mut w = std::io::BufWriter::new(std::fs::File::create(&args[2]).unwrap());
    let mut rng = SmallRng::seed_from_u64(seed ^ 0x1616);
    let slice = 7usize;
    let (mut cases, mut bad, mut rows) = (0u64, 0u64, 0u64);
    let mut sig = std::collections::BTreeMap::<String, (u64, Value)>::new();
    for hl in [0usize, 3, 5] {
        for bl in 3..=slice {
            for hbits in 0..(1u32 << hl) {
                for bbits in 0..(1u32 << bl) {
                    let mut h: Vec<u8> = vec![2; slice - hl];
                    h.extend((0..hl).map(|i| ((hbits >> i) & 1) as u8));
                    if hl == 0 {
                        h.clear();
                    }
                    let b: Vec<u8> = (0..bl).map(|i| ((bbits >> i) & 1) as u8).collect();
                    // blocks of one repeated byte take the RLE path and never reach the matcher
                    if b.iter().all(|x| *x == b[0]) || (!h.is_empty() && h.iter().all(|x| *x == h[0])) {
                        continue;
                    }
                    let mut ps = vec![];
                    parses(&h, &b, 0, 0, &mut vec![], &mut ps);
                    for p in ps {
                        if p.is_empty() {
                            continue;
                        }
                        cases += 1;
                        if quick && cases % 4 != 0 {
                            continue;
                        }
                        let mut data = h.clone();
                        data.extend_from_slice(&b);
                        let plans = if h.is_empty() { vec![p.clone()] } else { vec![vec![], p.clone()] };
                        if rng.gen_range(0..40) == 0 {
                            // row for TLC: lens, data, blocks with seqs as <<literals, offset, length>>
                            let mut seqs: Vec<Value> = vec![];
                            let mut pos = 0;
                            for (ll, off, ml) in &p {
                                seqs.push(json!([b[pos..pos + ll].to_vec(), off, ml]));
                                pos += ll + ml;
                            }
                            if pos < b.len() {
                                seqs.push(json!([b[pos..].to_vec(), 0, 0]));
                            }
                            let (lens, blocks) = if h.is_empty() { (vec![b.len()], vec![json!({"skip": false, "seqs": seqs})]) } else { (vec![h.len(), b.len()], vec![json!({"skip": false, "seqs": [[h.clone(), 0, 0]]}), json!({"skip": false, "seqs": seqs})]) };
                            serde_json::to_writer(&mut w, &json!({"slices": 4, "slice": 7, "ws": 1024, "lens": lens, "data": data, "blocks": blocks, "minmatch": 3, "builtin": false})).unwrap();
                            w.write_all(b"\n").unwrap();
                            rows += 1;
                        }
                        if let Some(e) = roundtrip(&data, slice, plans, 1 << 10) {
                            bad += 1;
                            let key = e.split(':').next().unwrap_or("").chars().take(80).collect::<String>();
                            let ent = sig.entry(key).or_insert((0, json!({"history": h, "block": b, "parse": p, "error": e})));
                            ent.0 += 1;
                        }
                    }
                }
            }
        }
    }
    w.flush().unwrap();
    // random valid parses of large blocks
    let mut big = 0u64;
    for k in 0..(if quick { 12 } else { 150 }) {
        big += 1;
        let hist: Vec<u8> = (0..BLOCK).map(|_| rng.gen_range(0..(if k % 2 == 0 { 256u32 } else { 4 })) as u8).collect();
        let mut plan: Parse = vec![];
        let mut used = 0usize;
        let dense = k % 3 == 0;
        loop {
            let ll = if dense { rng.gen_range(0..2) } else { [0usize, 0, 1, 5, 40, 300, 5000][rng.gen_range(0..7)] };
            let ml = if dense { rng.gen_range(3..5) } else { [3usize, 3, 4, 8, 60, 300, 70000][rng.gen_range(0..7)] };
            let off = [1usize, 2, 3, 4, 5, 100, 4096, 131072, 131072 + used][rng.gen_range(0..9)].max(1).min(BLOCK + used + ll);
            if used + ll + ml > BLOCK - 10 {
                break;
            }
            plan.push((ll, off, ml));
            used += ll + ml;
        }
        let alphabet: Vec<u8> = if k % 4 == 1 { vec![7] } else { (0..=255u8).collect() };
        let block = synth(&hist, &plan, BLOCK - used, &alphabet, &mut rng);
        let mut data = hist.clone();
        data.extend_from_slice(&block);
        if let Some(e) = roundtrip(&data, BLOCK, vec![vec![], plan.clone()], 1 << 20) {
            bad += 1;
            let key = format!("large: {}", e.chars().take(70).collect::<String>());
            let ent = sig.entry(key).or_insert((0, json!({"sequences": plan.len(), "first_sequences": plan[..plan.len().min(6)].to_vec(), "error": e})));
            ent.0 += 1;
        }
    }
    let first: Vec<Value> = sig.iter().map(|(k, v)| json!({"signature": k, "count": v.0, "example": v.1})).collect();
    write_json(&args[3], &json!({"tiny_parses": cases, "large_parses": big, "mismatches": bad, "first": first, "rows": rows}));
}

/// Where the sequences section of a compressed block starts (after the literals section), independent parser.
fn after_literals(b: &[u8]) -> Option<usize> {
    let b0 = *b.first()? as usize;
    let (ty, sf) = (b0 & 3, (b0 >> 2) & 3);
    if ty < 2 {
        let (hl, regen) = match sf {
            0 | 2 => (1, b0 >> 3),
            1 => (2, (b0 >> 4) + ((*b.get(1)? as usize) << 4)),
            _ => (3, (b0 >> 4) + ((*b.get(1)? as usize) << 4) + ((*b.get(2)? as usize) << 12)),
        };
        Some(hl + if ty == 0 { regen } else { 1 })
    } else {
        let v = |n: usize| -> Option<u64> {
            let mut x = 0u64;
            for i in 0..n {
                x |= (*b.get(i)? as u64) << (8 * i);
            }
            Some(x)
        };
        let (hl, comp) = match sf {
            0 | 1 => (3, ((v(3)? >> 14) & 0x3FF) as usize),
            2 => (4, ((v(4)? >> 18) & 0x3FFF) as usize),
            _ => (5, ((v(5)? >> 22) & 0x3FFFF) as usize),
        };
        Some(hl + comp)
    }
}

/// compress_to_vec at level Fastest, then both decoders
fn builtin_roundtrip(data: &[u8]) -> (Option<String>, Vec<u8>) {
    let d2 = data.to_vec();
    match std::panic::catch_unwind(move || ruzstd::encoding::compress_to_vec(&d2[..], CompressionLevel::Fastest)) {
        Err(p) => (Some(format!("compress_to_vec panicked: {}", panic_msg(p))), vec![]),
        Ok(out) => {
            let r = zstd::decode_all(&out[..]);
            let o = std::panic::catch_unwind(|| {
                let mut d = FrameDecoder::new();
                let mut v = Vec::with_capacity(data.len() + 16);
                d.decode_all_to_vec(&out, &mut v).map(|_| v).map_err(|e| e.to_string())
            })
            .unwrap_or_else(|p| Err(format!("panic: {}", panic_msg(p))));
            let ref_ok = r.as_ref().map(|v| v == data).unwrap_or(false);
            let our_ok = o.as_ref().map(|v| v == data).unwrap_or(false);
            let verdict = if ref_ok && our_ok {
                None
            } else {
                Some(format!("the frame of the built-in compressor does not decode to the input: libzstd {} ruzstd {}",
                    if ref_ok { "ok".into() } else { r.err().map(|e| e.to_string()).unwrap_or("wrong bytes".into()) },
                    if our_ok { "ok".into() } else { o.err().unwrap_or("wrong bytes".into()) }))
            };
            (verdict, out)
        }
    }
}

/// seqhist <seed> <hist_classes.ndjson> <rows.ndjson> <report.json> [quick|thorough]
/// One valid parse per code-histogram class of ParseClasses.tla (HistRows): the field under test gets exactly the class's
/// histogram of codes; the frame must decode with both decoders, and the table descriptions the compressor wrote for the
/// block are dumped as rows for FSERows.tla (OkWritten: limits of RFC 8878 3.1.1.3.2.1, every used code encodable).
pub fn seqhist(args: &[String]) {
    use crate::frames::{ll_code, ml_code, walk_frame};
    use rand::seq::SliceRandom;
    quiet_panics();
    let seed: u64 = args[0].parse().unwrap();
    let f = std::io::BufReader::new(std::fs::File::open(&args[1]).unwrap());
    let mut w = std::io::BufWriter::new(std::fs::File::create(&args[2]).unwrap());
    let mut rng = SmallRng::seed_from_u64(seed ^ 0x1612);
    // first value of every literal-length / match-length code, and how many values the code covers
    let mut ll_first: Vec<(u32, u32)> = vec![];
    for v in 0..=131071u32 {
        let (c, _, bits) = ll_code(v);
        if c as usize == ll_first.len() {
            ll_first.push((v, 1u32 << bits));
        }
    }
    let mut ml_first: Vec<(u32, u32)> = vec![];
    for v in 3..=131074u32 {
        let (c, _, bits) = ml_code(v);
        if c as usize == ml_first.len() {
            ml_first.push((v, 1u32 << bits));
        }
    }
    let (mut n, mut bad, mut skipped, mut rows, mut fse_tables, mut not_compressed) = (0u64, 0u64, 0u64, 0u64, 0u64, 0u64);
    let mut mism: Vec<Value> = vec![];
    let mut samples: Vec<Value> = vec![];
    let hist: Vec<u8> = (0..2 * BLOCK).map(|_| rng.gen()).collect();
    let quick = args.get(4).map(|t| t == "quick").unwrap_or(false);
    // "builtin": the same planted data (with matches long enough for the built-in match finder) through compress_to_vec
    let builtin = args.get(5).map(|t| t == "builtin").unwrap_or(false);
    let mut li = 0usize;
    for line in f.lines() {
        li += 1;
        let c: Value = serde_json::from_str(&line.unwrap()).unwrap();
        let field = c["field"].as_str().unwrap();
        let h: Vec<usize> = c["hist"].as_array().unwrap().iter().map(|x| x.as_u64().unwrap() as usize).collect();
        let mut codes: Vec<usize> = vec![];
        for (code, cnt) in h.iter().enumerate() {
            codes.extend(std::iter::repeat(code).take(*cnt));
        }
        codes.shuffle(&mut rng);
        let mut plan: Parse = vec![];
        let mut used = 0usize;
        let (mut cl, mut co, mut cm) = (std::collections::BTreeSet::new(), std::collections::BTreeSet::new(), std::collections::BTreeSet::new());
        for code in &codes {
            let llc = if field == "ll" { *code } else if builtin { rng.gen_range(20..25) } else { rng.gen_range(0..4) };
            let mlc = if field == "ml" { *code } else if builtin { rng.gen_range(13..20) } else { rng.gen_range(0..4) };
            let ofc = if field == "of" { *code } else { rng.gen_range(2..5) };
            let ll = (ll_first[llc].0 + rng.gen_range(0..ll_first[llc].1)) as usize;
            let ml = (ml_first[mlc].0 + rng.gen_range(0..ml_first[mlc].1)) as usize;
            let ofv: usize = (1usize << ofc) + rng.gen_range(0..(1usize << ofc));
            plan.push((ll, ofv - 3, ml));
            used += ll + ml;
            cl.insert(llc);
            co.insert(ofc);
            cm.insert(mlc);
        }
        if builtin && field == "of" && !plan.is_empty() && used + 70_000 < BLOCK {
            // the built-in match finder reaches far offsets only inside the block: open it with 66 000 literals
            plan[0].0 += 66_000;
            used += 66_000;
        }
        if used > BLOCK {
            skipped += 1;
            continue;
        }
        n += 1;
        let alphabet: Vec<u8> = (0..=255u8).collect();
        let tail = (BLOCK - used).min(100);
        let block = synth(&hist, &plan, tail, &alphabet, &mut rng);
        let mut data = hist.clone();
        data.extend_from_slice(&block);
        let (e, frame) = if builtin { builtin_roundtrip(&data) } else { roundtrip_frame(&data, BLOCK, vec![vec![], vec![], plan.clone()], 1 << 20) };
        if builtin && field == "of" && c["unclamped"].as_u64().unwrap() > 8 && std::env::var("VH_DEBUG").is_ok() {
            ruzstd::verif::take();
            ruzstd::verif::set_mask(ruzstd::verif::SEQ);
            let mut v = Vec::with_capacity(data.len() + 16);
            let _ = FrameDecoder::new().decode_all_to_vec(&frame, &mut v);
            let evs = ruzstd::verif::take();
            ruzstd::verif::set_mask(0);
            let mut hh = vec![0usize; 20];
            for e in evs.iter().filter(|e| e.kind == "seq") {
                hh[(63 - (e.args[3] + 3).leading_zeros()) as usize] += 1;
            }
            eprintln!("planned {:?}\nfound   {:?}", h, hh);
        }
        if let Some(e) = e {
            bad += 1;
            if mism.len() < 12 {
                mism.push(json!({"class": {"field": field, "k": c["k"], "c": c["c"], "single": c["single"], "place": c["place"], "unclamped": c["unclamped"], "al": c["al"]},
                    "block_len": block.len(), "first_sequences": plan[..plan.len().min(5)].to_vec(), "error": e}));
            }
        } else if samples.len() < 2 {
            samples.push(json!({"class": {"field": field, "k": c["k"], "c": c["c"], "single": c["single"], "place": c["place"]}, "block_len": block.len(), "first_sequences": plan[..plan.len().min(4)].to_vec()}));
        }
        // the table descriptions written for the third block
        if let Ok(lay) = walk_frame(&frame) {
            if let Some(b) = lay["blocks"].as_array().and_then(|a| a.get(2)) {
                if b["type"] == 2 {
                    let at = b["at"].as_u64().unwrap() as usize + 3;
                    let body = &frame[at..at + b["c"].as_u64().unwrap() as usize];
                    if let Some(p) = after_literals(body) {
                        let b0 = body[p] as usize;
                        let cnt = if b0 < 128 { 1 } else if b0 < 255 { 2 } else { 3 };
                        let modes = body[p + cnt];
                        let rest = &body[p + cnt + 1..];
                        let m = [(modes >> 6) & 3, (modes >> 4) & 3, (modes >> 2) & 3];
                        fse_tables += m.iter().filter(|x| **x == 2).count() as u64;
                        // every class is judged by the two decoders; TLC reads the descriptions of the classes that reach the
                        // clamp and (quick tier) of every 12th other class
                        let maxlog = if field == "of" { 8 } else { 9 };
                        if builtin {
                            continue;
                        }
                        if quick && c["unclamped"].as_u64().unwrap() <= maxlog && li % 12 != 0 {
                            continue;
                        }
                        serde_json::to_writer(&mut w, &json!({"k": "written", "field": field, "class_al": c["al"], "unclamped": c["unclamped"], "modes": m,
                            "bytes": rest[..rest.len().min(150)].to_vec(), "ll_codes": cl, "of_codes": co, "ml_codes": cm})).unwrap();
                        w.write_all(b"\n").unwrap();
                        rows += 1;
                    }
                } else {
                    not_compressed += 1;
                }
            }
        }
    }
    w.flush().unwrap();
    write_json(&args[3], &json!({"classes_run": n, "skipped_infeasible": skipped, "mismatches": bad, "first": mism, "samples": samples, "rows": rows,
        "fse_tables_written": fse_tables, "block_not_compressed": not_compressed}));
}

/// c16chains <seed> <quick|thorough> <report.json>
/// Chains of three dependent blocks through a user matcher: every block is literals only / literals plus one long far
/// match (kept compressed) / one literal plus a 3-byte far match 2048 times (sequences cost more than they save: the block
/// is stored raw after its tables were built), over two literal alphabets -- all 6^3 chains after a history of RLE blocks.
/// What the encoder remembers about Huffman tables (new / treeless / discarded with a raw block) must stay in step with
/// what a decoder of the frame holds: the frame decodes to the input with both decoders.
pub fn c16chains(args: &[String]) {
    quiet_panics();
    let seed: u64 = args[0].parse().unwrap();
    let quick = args[1] == "quick";
    let mut rng = SmallRng::seed_from_u64(seed ^ 0x16c);
    const SLICE: usize = 8192;
    const HIST_BLOCKS: usize = 540; // > 4 MiB of zeros: far offsets cost 21..22 extra bits
    let kinds = ["litsA", "litsB", "cheapA", "cheapB", "costlyA", "costlyB"];
    let alphabet = |k: &str| -> Vec<u8> { if k.ends_with('A') { (0..8u8).map(|i| b'a' + i).collect() } else { (0..128u8).map(|i| 100u8.wrapping_add(i)).collect() } };
    let (mut n, mut bad) = (0u64, 0u64);
    let mut mism: Vec<Value> = vec![];
    let mut kinds_seen = std::collections::BTreeMap::<String, u64>::new();
    for a in 0..6 {
        for b in 0..6 {
            for c in 0..6 {
                if quick && (a * 36 + b * 6 + c) % 2 == 1 && !(kinds[b].starts_with("costly")) {
                    continue;
                }
                let chain = [kinds[a], kinds[b], kinds[c]];
                let mut data = vec![0u8; SLICE * HIST_BLOCKS];
                let mut plans: Vec<Parse> = vec![vec![]; HIST_BLOCKS];
                for k in chain {
                    let al = alphabet(k);
                    let pick = |rng: &mut SmallRng| -> u8 {
                        // alphabet A skewed, alphabet B uniform
                        if al.len() == 8 { al[(rng.gen::<f64>().powi(2) * 8.0) as usize % 8] } else { al[rng.gen_range(0..al.len())] }
                    };
                    let start = data.len();
                    let mut plan: Parse = vec![];
                    let mut pending = 0usize;
                    if k.starts_with("lits") {
                        for _ in 0..SLICE {
                            data.push(pick(&mut rng));
                        }
                    } else if k.starts_with("cheap") {
                        for _ in 0..2048 {
                            data.push(pick(&mut rng));
                        }
                        // one long match into the zeros, far away
                        let off = (1usize << 20) + rng.gen_range(0..SLICE); // reaches the history
                        plan.push((2048, off, SLICE - 2048));
                        for _ in 0..(SLICE - 2048) {
                            let v = data[data.len() - off];
                            data.push(v);
                        }
                    } else {
                        // 2048 sequences: 0..2 literals (2048 in total), then a 3-byte match 2..4 MiB back, inside the zeros:
                        // about 25 bits per sequence for 24 bits saved
                        for i in 0..2048 {
                            let ll = match (i % 2, rng.gen_range(0..3)) { (0, r) => { pending = 2 - r; r } (_, _) => pending };
                            for _ in 0..ll {
                                data.push(pick(&mut rng));
                            }
                            let off = (1usize << 21) + rng.gen_range(0..(1usize << 21) + 40_000);
                            plan.push((ll, off, 3));
                            for _ in 0..3 {
                                let v = data[data.len() - off];
                                data.push(v);
                            }
                        }
                    }
                    debug_assert_eq!(data.len() - start, SLICE);
                    plans.push(plan);
                }
                n += 1;
                let (e, frame) = roundtrip_frame(&data, SLICE, plans, 8 << 20);
                // which block kinds the compressor chose for the three chain blocks (type, literals type)
                if let Ok(lay) = crate::frames::walk_frame(&frame) {
                    if let Some(bl) = lay["blocks"].as_array() {
                        for bk in bl.iter().skip(HIST_BLOCKS).take(3) {
                            *kinds_seen.entry(format!("type{}_lit{}", bk["type"], bk["lit_type"])).or_insert(0) += 1;
                        }
                    }
                }
                if let Some(e) = e {
                    bad += 1;
                    if mism.len() < 12 {
                        mism.push(json!({"chain": chain, "error": e}));
                    }
                }
            }
        }
    }
    write_json(&args[2], &json!({"chains_run": n, "mismatches": bad, "first": mism, "block_kinds_of_chain_blocks": kinds_seen}));
}
