//! C14: dump the implementation's function tables (decoder tables, encoder mappings, header parsers and writers)
//! as rows for FormatRows.tla.
use crate::frames::window_size;
use crate::util::*;
use rand::{rngs::SmallRng, Rng, SeedableRng};
use ruzstd::verif;
use serde_json::{json, Value};
use std::io::Write;

/// c14rows <seed> <stride> <outprefix> <report.json>  -- writes <outprefix>_<kind>.ndjson
pub fn c14rows(args: &[String]) {
    quiet_panics();
    let seed: u64 = args[0].parse().unwrap();
    let stride: usize = args[1].parse().unwrap();
    let prefix = &args[2];
    let mut rng = SmallRng::seed_from_u64(seed ^ 0x14);
    let mut counts = std::collections::BTreeMap::<String, u64>::new();
    let mut panics: Vec<Value> = vec![];
    let mut files: Vec<String> = vec![];
    let mut open = |kind: &str, files: &mut Vec<String>| {
        let p = format!("{prefix}_{kind}.ndjson");
        files.push(p.clone());
        std::io::BufWriter::new(std::fs::File::create(p).unwrap())
    };
    macro_rules! row {
        ($w:expr, $kind:expr, $v:expr) => {{
            serde_json::to_writer(&mut $w, &$v).unwrap();
            $w.write_all(b"\n").unwrap();
            *counts.entry($kind.to_string()).or_insert(0) += 1;
        }};
    }
    let guard = |f: &mut dyn FnMut() -> Value, what: String, panics: &mut Vec<Value>| -> Option<Value> {
        match std::panic::catch_unwind(std::panic::AssertUnwindSafe(|| f())) {
            Ok(v) => Some(v),
            Err(p) => {
                if panics.len() < 10 {
                    panics.push(json!({"what": what, "panic": panic_msg(p)}));
                }
                None
            }
        }
    };
    // ---- literal lengths: every value (strided in quick mode, boundaries always) ----
    {
        let mut w = open("ll", &mut files);
        let bases = [0u32, 15, 16, 17, 18, 23, 24, 27, 28, 31, 32, 39, 40, 47, 48, 63, 64, 127, 128, 255, 256, 511, 512, 1023, 1024, 2047, 2048, 4095, 4096, 8191, 8192, 16383, 16384, 32767, 32768, 65535, 65536, 131071];
        for v in 0..=131071u32 {
            if v as usize % stride != 0 && !bases.contains(&v) && !bases.contains(&(v + 1)) {
                continue;
            }
            if let Some(r) = guard(&mut || {
                let (code, extra, bits) = verif::enc::literal_length(v);
                let (dbase, dbits) = verif::lookup_ll_code(code);
                json!({"k": "ll", "v": v, "code": code, "extra": extra, "bits": bits, "dbase": dbase, "dbits": dbits})
            }, format!("ll {v}"), &mut panics) {
                row!(w, "ll", r);
            }
        }
        w.flush().unwrap();
    }
    {
        let mut w = open("ml", &mut files);
        for v in 3..=131074u32 {
            let b = v - 3;
            if b as usize % stride != 0 && !(b + 1).is_power_of_two() && !b.is_power_of_two() && v > 140 && ![259, 515, 1027, 2051, 4099, 8195, 16387, 32771, 65539, 258, 514, 1026, 2050, 4098, 8194, 16386, 32770, 65538, 131074].contains(&v) {
                continue;
            }
            if let Some(r) = guard(&mut || {
                let (code, extra, bits) = verif::enc::match_len(v);
                let (dbase, dbits) = verif::lookup_ml_code(code);
                json!({"k": "ml", "v": v, "code": code, "extra": extra, "bits": bits, "dbase": dbase, "dbits": dbits})
            }, format!("ml {v}"), &mut panics) {
                row!(w, "ml", r);
            }
        }
        w.flush().unwrap();
    }
    // ---- offsets: all code boundaries +-1 and random values over the full 32-bit range ----
    {
        let mut w = open("of", &mut files);
        let mut vals: Vec<u32> = vec![];
        for c in 0..32u32 {
            let b = 1u64 << c;
            for d in [-1i64, 0, 1, 2] {
                let v = b as i64 + d;
                if v >= 1 && v <= u32::MAX as i64 {
                    vals.push(v as u32);
                }
            }
            vals.push(((b << 1) - 1).min(u32::MAX as u64) as u32);
        }
        for _ in 0..(100_000 / stride.max(1)) {
            let c = rng.gen_range(0..32);
            vals.push(((1u64 << c) + rng.gen_range(0..(1u64 << c))) as u32);
        }
        for v in vals {
            if let Some(r) = guard(&mut || {
                let (code, extra, bits) = verif::enc::offset(v);
                json!({"k": "of", "hi": v >> 16, "lo": v & 0xFFFF, "code": code, "bits": bits, "ehi": extra >> 16, "elo": extra & 0xFFFF})
            }, format!("of {v}"), &mut panics) {
                row!(w, "of", r);
            }
        }
        w.flush().unwrap();
    }
    // ---- repeat offsets ----
    {
        let mut w = open("rep", &mut files);
        let hs = [1u32, 2, 3, 4, 8, 100, 70000];
        for &h1 in &hs {
            for &h2 in &hs {
                for &h3 in &hs {
                    for ofv in [1u32, 2, 3, 4, 5, 6, 10, 103, 70003] {
                        for ll in [0u32, 1, 9] {
                            if let Some(r) = guard(&mut || {
                                let mut h = [h1, h2, h3];
                                let actual = verif::do_offset_history(ofv, ll, &mut h);
                                json!({"k": "rep", "ofv": ofv, "ll": ll, "h": [h1, h2, h3], "actual": actual, "after": h})
                            }, format!("rep {ofv} {ll}"), &mut panics) {
                                row!(w, "rep", r);
                            }
                        }
                    }
                }
            }
        }
        w.flush().unwrap();
    }
    // ---- number of sequences: writer and parser ----
    {
        let mut w = open("seq", &mut files);
        for n in 1..=98047usize {
            if n % stride != 0 && ![1, 127, 128, 129, 255, 256, 257, 32510, 32511, 32512, 32513, 32767, 32768, 32769, 65535, 65536, 98046, 98047].contains(&n) {
                continue;
            }
            if let Some(r) = guard(&mut || {
                let bytes = verif::enc::seqnum(n);
                let mut with_modes = bytes.clone();
                with_modes.push(0x54);
                let (parsed, used) = match verif::parse_sequences_header(&with_modes) {
                    Ok((p, _, u)) => (p as i64, u as i64),
                    Err(_) => (-1, -1),
                };
                json!({"k": "seqnum", "n": n, "bytes": bytes, "parsed": parsed, "used": used})
            }, format!("seqnum {n}"), &mut panics) {
                row!(w, "seqnum", r);
            }
        }
        // every first byte x a few second / third bytes through the parser alone
        for b0 in 1..=255u32 {
            for (b1, b2) in [(0u32, 0u32), (1, 0), (255, 0), (7, 9), (255, 255)] {
                let bytes = vec![b0 as u8, b1 as u8, b2 as u8, 0x54];
                if let Ok((p, _, _)) = verif::parse_sequences_header(&bytes) {
                    row!(w, "seqparse", json!({"k": "seqparse", "bytes": [b0, b1, b2], "parsed": p}));
                }
            }
        }
        // the same parser on sources of EXACTLY 1..4 bytes: where the header ends with the input (a count of zero in the two
        // byte form needs no modes byte; everything else needs all of its bytes)
        for b0 in 0..=255u32 {
            for (b1, b2, b3) in [(0u32, 0u32, 0u32), (1, 0, 0), (0, 5, 9), (255, 255, 255)] {
                for len in 1..=4usize {
                    let src: Vec<u8> = [b0 as u8, b1 as u8, b2 as u8, b3 as u8][..len].to_vec();
                    let r = match verif::parse_sequences_header(&src) {
                        Ok((p, _, u)) => json!({"k": "seqhdr", "src": src, "ok": true, "n": p, "used": u}),
                        Err(_) => json!({"k": "seqhdr", "src": src, "ok": false, "n": 0, "used": 0}),
                    };
                    row!(w, "seqhdr", r);
                }
            }
        }
        w.flush().unwrap();
    }
    // ---- literals section headers: every (type, size format) x boundary sizes through the parser; writers ----
    {
        let mut w = open("lit", &mut files);
        for b0 in 0..=255u32 {
            for rest in [[0u8, 0, 0, 0], [0xFF, 0xFF, 0xFF, 0xFF], [0x01, 0x80, 0x3C, 0xA5], [0xF0, 0x0F, 0x55, 0x01]] {
                let bytes = vec![b0 as u8, rest[0], rest[1], rest[2], rest[3]];
                let r = verif::parse_literals_header(&bytes);
                let v = match r {
                    Ok((t, regen, comp, streams, used)) => json!({"k": "lit", "bytes": bytes, "ok": true, "type": t, "regen": regen, "comp": comp.map(|c| c as i64).unwrap_or(-1), "streams": streams.unwrap_or(0), "used": used}),
                    Err(_) => json!({"k": "lit", "bytes": bytes, "ok": false, "type": 0, "regen": 0, "comp": 0, "streams": 0, "used": 0}),
                };
                row!(w, "lit", v);
            }
        }
        // the compressor's writers
        for len in [0usize, 1, 31, 32, 1023, 1024, 1025, 4095, 4096, 16383, 16384, 65535, 131071, 131072] {
            let lits = vec![7u8; len];
            if let Some(r) = guard(&mut || {
                let sec = verif::enc::raw_literals(&lits);
                json!({"k": "litenc", "len": len, "type": 0, "payload": len, "bytes": sec[..sec.len().min(5)].to_vec()})
            }, format!("raw_literals {len}"), &mut panics) {
                let mut r = r;
                let b = r["bytes"].as_array().unwrap().clone();
                let mut bb: Vec<Value> = b;
                while bb.len() < 5 {
                    bb.push(json!(0));
                }
                r["bytes"] = json!(bb);
                row!(w, "litenc", r);
            }
        }
        for len in [1025usize, 1026, 4000, 16383, 16384, 16385, 65536, 131072] {
            let lits: Vec<u8> = (0..len).map(|i| ((i * i / 7) % 23) as u8).collect();
            if let Some(r) = guard(&mut || {
                let (sec, table) = verif::enc::compress_literals(&lits, None);
                let ty = sec[0] & 3;
                let hdr = match (sec[0] >> 2) & 3 { 0 | 1 => 3, 2 => 4, _ => 5 };
                let mut bytes = sec[..sec.len().min(5)].to_vec();
                while bytes.len() < 5 {
                    bytes.push(0);
                }
                let payload = if ty >= 2 { sec.len() - hdr } else { len };
                json!({"k": "litenc", "len": len, "type": ty, "payload": payload, "bytes": bytes, "new_table": table.is_some()})
            }, format!("compress_literals {len}"), &mut panics) {
                row!(w, "litenc", r);
            }
        }
        w.flush().unwrap();
    }
    // ---- block headers: boundary sizes and samples individually, all 2^24 as per-class summaries; writer ----
    {
        let mut w = open("block", &mut files);
        let mut sizes: Vec<u32> = vec![0, 1, 2, 7, 8, 255, 256, 65535, 65536, 131071, 131072, 131073, 131074, 262144, (1 << 21) - 1];
        for _ in 0..(4096 / stride.max(1)) {
            sizes.push(rng.gen_range(0..(1u32 << 21)));
        }
        for &sz in &sizes {
            for flags in 0..8u32 {
                let h = (sz << 3) | flags;
                let bytes = [h as u8, (h >> 8) as u8, (h >> 16) as u8];
                let v = match verif::parse_block_header(bytes) {
                    Ok((last, ty, dec, content)) => json!({"k": "block", "bytes": bytes, "ok": true, "last": last, "type": ty, "decompressed": dec, "content": content}),
                    Err(_) => json!({"k": "block", "bytes": bytes, "ok": false, "last": false, "type": 0, "decompressed": 0, "content": 0}),
                };
                row!(w, "block", v);
            }
        }
        for flags in 0..8u32 {
            let (mut acc, mut min_ok, mut max_ok, mut min_bad) = (0u32, u32::MAX, 0u32, u32::MAX);
            let mut size_is_field = true;
            let mut flags_ok = true;
            for sz in 0..(1u32 << 21) {
                let h = (sz << 3) | flags;
                match verif::parse_block_header([h as u8, (h >> 8) as u8, (h >> 16) as u8]) {
                    Ok((last, ty, dec, content)) => {
                        acc += 1;
                        min_ok = min_ok.min(sz);
                        max_ok = max_ok.max(sz);
                        let want_content = if ty == 1 { 1 } else { sz };
                        let want_dec = if ty == 2 { 0 } else { sz };
                        if content != want_content || dec != want_dec {
                            size_is_field = false;
                        }
                        if last != (flags & 1 == 1) || ty as u32 != (flags >> 1) {
                            flags_ok = false;
                        }
                    }
                    Err(_) => min_bad = min_bad.min(sz),
                }
            }
            row!(w, "blocksum", json!({"k": "blocksum", "last": flags & 1 == 1, "type": flags >> 1, "accepted": acc, "min_ok": if acc > 0 { min_ok } else { 0 }, "max_ok": max_ok,
                "min_bad": if min_bad == u32::MAX { 0 } else { min_bad }, "size_is_field": size_is_field, "flags_ok": flags_ok}));
        }
        for last in [false, true] {
            for ty in 0..3u8 {
                for sz in [0u32, 1, 5, 131071, 131072] {
                    let bytes = verif::serialize_block_header(last, ty, sz);
                    row!(w, "blockenc", json!({"k": "blockenc", "bytes": bytes, "last": last, "type": ty, "size": sz}));
                }
            }
        }
        w.flush().unwrap();
    }
    // ---- frame headers: every descriptor x window bytes through the parser; the writer ----
    {
        let mut w = open("frame", &mut files);
        for d in 0..=255u32 {
            for wbyte in [0x00u8, 0x07, 0x08, 0x53, 0x88, 0xFE, 0xFF] {
                for did_nonzero in [true, false] {
                    let single = (d >> 5) & 1 == 1;
                    let did = [0usize, 1, 2, 4][(d & 3) as usize];
                    let fcs = match d >> 6 { 0 => single as usize, 1 => 2, 2 => 4, _ => 8 };
                    let mut b = vec![0x28, 0xB5, 0x2F, 0xFD, d as u8];
                    if !single {
                        b.push(wbyte);
                    }
                    for i in 0..did {
                        b.push(if did_nonzero { 0x11 + i as u8 } else { 0 });
                    }
                    for i in 0..fcs {
                        b.push(0x21 + 3 * i as u8);
                    }
                    b.extend_from_slice(&[0xEE; 4]);
                    let v = match verif::parse_frame_header(&b) {
                        Ok((desc, win, dict, _fcs, used)) => {
                            let wd = match &win {
                                Ok(ws) => (0..=255u32).find(|x| window_size(*x as u8) == *ws).map(|x| x as i64).unwrap_or(-1),
                                Err(_) => -2,
                            };
                            json!({"k": "frame", "desc": desc, "wbyte": wbyte, "ok": true, "used": used, "has_dict": dict.is_some(), "did_nonzero": did_nonzero, "window_ok": win.is_ok(), "window_desc": wd})
                        }
                        Err(_) => json!({"k": "frame", "desc": d, "wbyte": wbyte, "ok": false, "used": 0, "has_dict": false, "did_nonzero": did_nonzero, "window_ok": false, "window_desc": -3}),
                    };
                    row!(w, "frame", v);
                }
            }
        }
        for cks in [false, true] {
            for win in [1024u64, 1025, 4096, 100_000, 131072, 131073, 1 << 20, 8 << 20, 1 << 27, (1 << 27) + 1, 1 << 31] {
                if let Some(r) = guard(&mut || {
                    let bytes = verif::serialize_frame_header(None, false, cks, None, Some(win));
                    let mut padded = bytes.clone();
                    padded.extend_from_slice(&[0; 8]);
                    match verif::parse_frame_header(&padded) {
                        Ok((desc, w2, _d, _f, used)) => json!({"k": "frameenc", "parse_ok": true, "cks": (desc >> 2) & 1 == 1, "want_cks": cks, "used": used, "len": bytes.len(),
                            "window_ge_requested": w2.map(|x| x >= win).unwrap_or(false)}),
                        Err(_) => json!({"k": "frameenc", "parse_ok": false, "cks": false, "want_cks": cks, "used": 0, "len": bytes.len(), "window_ge_requested": false}),
                    }
                }, format!("frame header {win}"), &mut panics) {
                    row!(w, "frameenc", r);
                }
            }
        }
        w.flush().unwrap();
    }
    // ---- whole frames built around one header value (sizes at every format boundary and at the 128 KiB limit) ----
    {
        use crate::frames::{build, Blk, FrameSpec, Lits, SeqMode};
        let mut w = open("whole", &mut files);
        const MB: usize = 128 * 1024;
        let sizes = [0usize, 1, 2, 31, 32, 33, 4095, 4096, 4097, 16383, 16384, 16385, 65535, 65536, MB - 5, MB - 4, MB - 3, MB - 1, MB, MB + 1, 200_000, 262_143];
        let pre = || (SeqMode::Predef, SeqMode::Predef, SeqMode::Predef);
        let mut cases: Vec<(&str, usize, Vec<Blk>, u64)> = vec![]; // (what, n, blocks, regenerated size of the block under test)
        for &n in &sizes {
            let data: Vec<u8> = (0..n).map(|_| [0u8, 0, 0, 1, 2][rng.gen_range(0..5)]).collect();
            cases.push(("rawblock", n, vec![Blk::Raw((0..n).map(|i| (i * 7 + 3) as u8).collect())], n as u64));
            cases.push(("rleblock", n, vec![Blk::Rle(0x5A, n)], n as u64));
            cases.push(("rawlits", n, vec![Blk::Comp { lits: Lits::Raw((0..n).map(|i| (i * 5 + 1) as u8).collect()), seqs: vec![], modes: pre() }], n as u64));
            if n > 0 {
                cases.push(("rlelits", n, vec![Blk::Comp { lits: Lits::Rle(0x33, n), seqs: vec![], modes: pre() }], n as u64));
                // literals plus one match: the block regenerates n + 3 bytes
                cases.push(("rlelits_match", n, vec![Blk::Comp { lits: Lits::Rle(0x34, n), seqs: vec![(n as u32, 4, 3)], modes: pre() }], n as u64 + 3));
            }
            if (8..=1023).contains(&n) {
                cases.push(("huf1", n, vec![Blk::Comp { lits: Lits::Huf(data.clone(), false, Some(vec![2, 1]), None), seqs: vec![], modes: pre() }], n as u64));
            }
            if n >= 8 {
                cases.push(("huf4", n, vec![Blk::Comp { lits: Lits::Huf(data.clone(), true, Some(vec![2, 1]), None), seqs: vec![], modes: pre() }], n as u64));
            }
        }
        // four Huffman streams whose sizes add up to more than 64 KiB (each jump table entry is 16 bits, their sums are not):
        // 64 equally likely symbols cost 6 bits each
        for n in [87_000usize, 116_000, 116_520, 120_000, 131_072] {
            let data: Vec<u8> = (0..n).map(|_| rng.gen_range(0..64u8)).collect();
            cases.push(("huf4_wide", n, vec![Blk::Comp { lits: Lits::Huf(data, true, Some(vec![1; 63]), None), seqs: vec![], modes: pre() }], n as u64));
        }
        // sequence counts at the boundaries of the 1, 2 and 3 byte encodings (one literal, then n matches of length 3)
        for n in [1usize, 2, 126, 127, 128, 129, 254, 255, 256, 257, 0x7EFF, 0x7F00, 0x7F01, 40000, 43690, 43691] {
            let mut seqs = vec![(1u32, 4u32, 3u32)];
            seqs.extend(std::iter::repeat((0u32, 4u32, 3u32)).take(n - 1));
            cases.push(("seqcount", n, vec![Blk::Comp { lits: Lits::Raw(vec![b'q']), seqs, modes: pre() }], 1 + 3 * n as u64));
        }
        // one sequence whose three extra-bit fields add up to 58 bits (offset code 27, literal-length code 35, match-length
        // code 51: a match 128 MiB back), followed by a small one whose offset code shifts the bit alignment: all 8 alignments
        let mut far: Vec<(String, Vec<u8>, Vec<u8>)> = vec![];
        for c in 2..10u32 {
            let mut blocks = vec![Blk::Raw((0..1000u32).map(|i| (i * 13 + 5) as u8).collect())];
            blocks.extend((0..1024u32).map(|i| Blk::Rle((i % 251) as u8, MB)));
            blocks.push(Blk::Comp { lits: Lits::Raw((0..65600u32).map(|i| (i * 31 + 7) as u8).collect()), seqs: vec![(65600, (1 << 27) + 1, 40000), (0, (1 << c) + 1, 3)], modes: pre() });
            let spec = FrameSpec { name: format!("extra58_{c}"), win_desc: Some(0x88), cks: false, dict_id: None, fcs: None, blocks, dict: vec![], rep: [1, 4, 8], fcs_width: None, dict_tables: None };
            let b = build(&spec);
            far.push((spec.name.clone(), b.bytes, b.content));
        }
        for (name, bytes, content) in far {
            let lib_ok = zstd::stream::decode_all(&bytes[..]).map(|o| o == content).unwrap_or(false);
            if !lib_ok {
                *counts.entry("whole_dropped".to_string()).or_insert(0) += 1;
                continue;
            }
            let r = std::panic::catch_unwind(|| {
                let mut d = ruzstd::decoding::FrameDecoder::new();
                let mut o = Vec::with_capacity(content.len() + 16);
                d.decode_all_to_vec(&bytes, &mut o).map(|_| o).map_err(|e| e.to_string())
            });
            let (acc, content_ok, err) = match r {
                Ok(Ok(o)) => (true, o == content, String::new()),
                Ok(Err(e)) => (false, false, e.chars().take(120).collect()),
                Err(p) => {
                    let m = format!("panic: {}", panic_msg(p));
                    if panics.len() < 10 {
                        panics.push(json!({"what": format!("whole frame {name}"), "panic": m}));
                    }
                    (false, false, m.chars().take(120).collect())
                }
            };
            row!(w, "whole", json!({"k": "whole", "what": "extra58", "n": 105603, "regen": 105603, "stored": 70000, "api": "decode_all_to_vec", "accepted": acc, "content_ok": content_ok, "err": err}));
        }
        for (what, n, blocks, regen) in cases {
            let stored_too_big = match &blocks[0] { Blk::Raw(d) => d.len() > MB, _ => false };
            let spec = FrameSpec { name: format!("{what}_{n}"), win_desc: Some(0x50), cks: true, dict_id: None, fcs: None, blocks, dict: vec![], rep: [1, 4, 8], fcs_width: None, dict_tables: None };
            let b = match std::panic::catch_unwind(std::panic::AssertUnwindSafe(|| build(&spec))) {
                Ok(b) => b,
                Err(_) => continue,
            };
            let stored = b.blocks[0].c;
            let legal = regen <= MB as u64 && stored <= MB && !stored_too_big;
            let lib = zstd::stream::decode_all(&b.bytes[..]);
            // the reference decoder must agree with the format's limits, else the case itself is wrong (dropped, counted)
            if lib.is_ok() != legal || (legal && lib.as_ref().unwrap() != &b.content) {
                *counts.entry("whole_dropped".to_string()).or_insert(0) += 1;
                continue;
            }
            let res = crate::zf::decode_everywhere(&b.bytes, &[], b.content.len());
            for (api, r) in res {
                let (acc, content_ok, err) = match &r {
                    Ok(o) => (true, legal && *o == b.content, String::new()),
                    Err(e) => (false, false, e.chars().take(120).collect()),
                };
                if err.starts_with("panic") && panics.len() < 10 {
                    panics.push(json!({"what": format!("whole frame {what} n={n} via {api}"), "panic": err}));
                }
                row!(w, "whole", json!({"k": "whole", "what": what, "n": n, "regen": regen, "stored": stored, "api": api, "accepted": acc, "content_ok": content_ok, "err": err}));
            }
        }
        w.flush().unwrap();
    }
    write_json(&args[3], &json!({"rows": counts, "panics": panics, "files": files}));
}
