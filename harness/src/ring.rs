//! C04: executors for the ring buffer model.
//!  ringexec  : replay TLC-derived programs (one per transition of the RingBuffer state graph) on the real RingBuffer
//!  ringrand  : seeded random operation sequences, recorded as a trace for Trace_RingBuffer
use crate::util::*;
use rand::{rngs::SmallRng, Rng, SeedableRng};
use ruzstd::verif::{self, Event, RingBuffer};
use serde_json::{json, Value};
use std::collections::VecDeque;
use std::io::{BufRead, BufWriter, Write};

/// Turn raw hook events into trace records for the ring specifications.
/// Grouping is mechanical: the raw copies between `efw_pre` and `efw` belong to that call.
pub fn ring_trace(events: &[Event], out: &mut Vec<Value>) {
    let mut copies: Vec<Value> = vec![];
    let mut base: u64 = 0;
    let mut in_efw = false;
    for e in events {
        let a = &e.args;
        match e.kind {
            "efw_pre" => {
                copies.clear();
                base = a[2];
                in_efw = true;
            }
            "copy" => {
                if in_efw {
                    // src addr, src len, dst addr, dst len, n, touched, chunk
                    copies.push(json!([
                        a[0].wrapping_sub(base) as i64,
                        a[1],
                        a[2].wrapping_sub(base) as i64,
                        a[3],
                        a[4],
                        a[5]
                    ]));
                }
            }
            "efw" => {
                out.push(json!({"op":"efw","s":a[0],"n":a[1],"copies":copies.clone(),"cap":a[3],"head":a[4],"tail":a[5]}));
                in_efw = false;
            }
            "z" => {
                out.push(json!({"op":"z","s":a[1],"n":a[0],"copies":[],"cap":a[3],"head":a[4],"tail":a[5]}));
            }
            "grow" | "extend" | "fill" | "reader" | "drop" | "clear" => {
                out.push(json!({"op":e.kind,"s":0,"n":a[0],"copies":[],"cap":a[3],"head":a[4],"tail":a[5]}));
            }
            _ => {}
        }
    }
}

pub fn reset_record() -> Value {
    json!({"op":"reset","s":0,"n":0,"copies":[],"cap":0,"head":0,"tail":0})
}

struct ShortReader {
    left: usize,
    ctr: u8,
}
impl std::io::Read for ShortReader {
    fn read(&mut self, buf: &mut [u8]) -> std::io::Result<usize> {
        let n = buf.len().min(self.left);
        for b in &mut buf[..n] {
            self.ctr = self.ctr.wrapping_mul(31).wrapping_add(7);
            *b = self.ctr;
        }
        self.left -= n;
        Ok(n)
    }
}

struct Runner {
    rb: RingBuffer,
    mirror: VecDeque<u8>,
    ctr: u32,
}
impl Runner {
    fn new() -> Self {
        Runner { rb: RingBuffer::new(), mirror: VecDeque::new(), ctr: 0 }
    }
    fn fresh(&mut self, n: usize) -> Vec<u8> {
        (0..n)
            .map(|_| {
                self.ctr = self.ctr.wrapping_mul(1103515245).wrapping_add(12345);
                (self.ctr >> 16) as u8
            })
            .collect()
    }
    /// apply one operation to the real ring and to the byte-queue mirror
    fn apply(&mut self, op: &str, a: usize, b: usize) -> Result<(), String> {
        match op {
            "Reserve" => self.rb.reserve(a),
            "Extend" => {
                let d = self.fresh(a);
                self.rb.extend(&d);
                self.mirror.extend(d);
            }
            "Fill" => {
                let v = self.fresh(1)[0];
                self.rb.extend_and_fill(v, a);
                self.mirror.extend(std::iter::repeat(v).take(a));
            }
            "Reader" => {
                let d = self.fresh(a);
                self.rb.extend_from_reader(&d[..], a).map_err(|e| e.to_string())?;
                self.mirror.extend(d);
            }
            "ReaderFail" => {
                let r = ShortReader { left: a.saturating_sub(1), ctr: 3 };
                if self.rb.extend_from_reader(r, a).is_ok() {
                    return Err("short reader did not fail".into());
                }
            }
            "DropFirst" => {
                self.rb.drop_first_n(a);
                self.mirror.drain(..a);
            }
            "Clear" => {
                self.rb.clear();
                self.mirror.clear();
            }
            "EFW" => {
                self.rb.extend_from_within(a, b);
                for i in 0..b {
                    let v = self.mirror[a + i];
                    self.mirror.push_back(v);
                }
            }
            "EFWU" => {
                // preconditions are guaranteed by the model (the action is enabled only under them)
                unsafe { self.rb.extend_from_within_unchecked(a, b) };
                for i in 0..b {
                    let v = self.mirror[a + i];
                    self.mirror.push_back(v);
                }
            }
            _ => return Err(format!("unknown op {op}")),
        }
        Ok(())
    }
    fn check(&self) -> Vec<String> {
        let mut errs = vec![];
        let (cap, _, _) = self.rb.verif_indices();
        if self.rb.len() != self.mirror.len() {
            errs.push(format!("len {} queue {}", self.rb.len(), self.mirror.len()));
        }
        let free = if cap == 0 { 0 } else { cap - 1 - self.mirror.len().min(cap - 1) };
        if self.rb.free() != free {
            errs.push(format!("free {} expected {}", self.rb.free(), free));
        }
        let (s1, s2) = self.rb.as_slices();
        if s1.len() + s2.len() != self.mirror.len() || !s1.iter().chain(s2.iter()).eq(self.mirror.iter()) {
            errs.push("contents differ from the byte queue".into());
        }
        for i in [0usize, self.mirror.len() / 2, self.mirror.len().saturating_sub(1), self.mirror.len()] {
            if self.rb.get(i) != self.mirror.get(i).copied() {
                errs.push(format!("get({i}) differs"));
            }
        }
        errs
    }
}

pub fn ringexec(args: &[String]) {
    quiet_panics();
    let progs = std::fs::File::open(&args[0]).expect("programs");
    let report = &args[1];
    let trace_path = arg_after(args, "--trace");
    let ntrace: usize = arg_after(args, "--ntrace").map(|s| s.parse().unwrap()).unwrap_or(0);
    let mut tw = trace_path.map(|p| BufWriter::new(std::fs::File::create(p).unwrap()));
    let (mut nprog, mut nstep, mut bad, mut traced, mut trace_events) = (0u64, 0u64, 0u64, 0usize, 0u64);
    let mut chunk = 0u64;
    let mut ndrift = 0u64;
    let mut drift_ex: Vec<Value> = vec![];
    let mut mism: Vec<Value> = vec![];
    let mut kinds = std::collections::BTreeMap::<String, u64>::new();
    let total_lines = std::io::BufReader::new(std::fs::File::open(&args[0]).unwrap()).lines().count().max(1);
    let stride = if ntrace == 0 { usize::MAX } else { (total_lines / ntrace).max(1) };
    for (li, line) in std::io::BufReader::new(progs).lines().enumerate() {
        let line = line.unwrap();
        let prog: Vec<Value> = serde_json::from_str(&line).unwrap();
        nprog += 1;
        let tracing = tw.is_some() && li % stride == 0 && traced < ntrace;
        verif::take();
        verif::set_mask(verif::RING | verif::COPY);
        let mut r = Runner::new();
        let mut recs: Vec<Value> = vec![reset_record()];
        let mut failed = false;
        let mut drifted = false;
        for (si, s) in prog.iter().enumerate() {
            nstep += 1;
            let op = s["op"].as_str().unwrap();
            *kinds.entry(op.to_string()).or_insert(0) += 1;
            let a = s["args"].get(0).and_then(|x| x.as_u64()).unwrap_or(0) as usize;
            let b = s["args"].get(1).and_then(|x| x.as_u64()).unwrap_or(0) as usize;
            let mut errs = vec![];
            if drifted {
                // without predictions the unchecked method is only called under its documented requirements
                let legal = match op {
                    "EFWU" => a + b <= r.rb.len() && r.rb.free() >= b && r.rb.verif_indices().0 > 0,
                    "EFW" => a + b <= r.rb.len() && r.rb.verif_indices().0 > 0,
                    "DropFirst" => a <= r.rb.len() && a > 0,
                    _ => true,
                };
                if !legal {
                    continue;
                }
            }
            let rr = std::panic::catch_unwind(std::panic::AssertUnwindSafe(|| r.apply(op, a, b)));
            match rr {
                Err(p) => errs.push(format!("panic: {}", panic_msg(p))),
                Ok(Err(e)) => errs.push(e),
                Ok(Ok(())) => {}
            }
            let evs = verif::take();
            for e in &evs {
                if e.kind == "copy" {
                    chunk = e.args[6];
                }
            }
            if tracing {
                ring_trace(&evs, &mut recs);
            }
            let exp = &s["exp"];
            let (cap, head, tail) = r.rb.verif_indices();
            if !drifted {
                // exact positions are conformance with the as-built model (growth policy, placement): drift, not a violation
                for (nm, got) in [("cap", cap), ("head", head), ("tail", tail)] {
                    if exp[nm].as_u64() != Some(got as u64) {
                        drifted = true;
                        ndrift += 1;
                        if drift_ex.len() < 3 {
                            drift_ex.push(json!({"program": li, "step": si, "op": op, "args": s["args"], "difference": format!("{nm} {} as-built model {}", got, exp[nm])}));
                        }
                        break;
                    }
                }
            }
            // documented position invariants
            if cap > 0 && (head >= cap || tail >= cap) {
                errs.push(format!("position invariant broken: cap {cap} head {head} tail {tail}"));
            }
            if errs.is_empty() {
                errs.extend(r.check());
            }
            if !errs.is_empty() {
                bad += 1;
                failed = true;
                if mism.len() < 20 {
                    mism.push(json!({"program": li, "step": si, "op": op, "args": s["args"], "errors": errs, "prefix": prog[..=si].to_vec()}));
                }
                break;
            }
        }
        verif::set_mask(0);
        if tracing && !failed {
            if let Some(w) = tw.as_mut() {
                for rec in &recs {
                    serde_json::to_writer(&mut *w, rec).unwrap();
                    w.write_all(b"\n").unwrap();
                    trace_events += 1;
                }
                traced += 1;
            }
        }
    }
    if let Some(mut w) = tw {
        w.flush().unwrap();
    }
    write_json(report, &json!({"programs": nprog, "steps": nstep, "mismatches": bad, "first": mism, "ops": kinds,
        "chunk": chunk, "traced_programs": traced, "trace_events": trace_events, "drifted_programs": ndrift, "drift_examples": drift_ex}));
}

/// Random operation sequences over the full operand range; every sequence is recorded as a trace.
pub fn ringrand(args: &[String]) {
    quiet_panics();
    let seed: u64 = args[0].parse().unwrap();
    let nseq: usize = args[1].parse().unwrap();
    let maxops: usize = args[2].parse().unwrap();
    let maxcap: usize = args[3].parse().unwrap();
    let mut w = BufWriter::new(std::fs::File::create(&args[4]).unwrap());
    let report = &args[5];
    let mut rng = SmallRng::seed_from_u64(seed);
    let (mut nops, mut bad, mut nev) = (0u64, 0u64, 0u64);
    let mut mism: Vec<Value> = vec![];
    let mut kinds = std::collections::BTreeMap::<String, u64>::new();
    let mut samples: Vec<Value> = vec![];
    let mut states = std::collections::BTreeSet::<(usize, usize, usize)>::new();
    verif::take();
    verif::set_mask(verif::RING | verif::COPY);
    for si in 0..nseq {
        let mut r = Runner::new();
        let mut recs = vec![reset_record()];
        let mut oplog: Vec<Value> = vec![];
        let nop = rng.gen_range(1..=maxops);
        for _ in 0..nop {
            let (cap, _, _) = r.rb.verif_indices();
            let len = r.mirror.len();
            let free = r.rb.free();
            let room = maxcap.saturating_sub(1).saturating_sub(len); // keep cap <= maxcap: np2 growth
            // the largest n such that growing for n stays within maxcap
            let fits = |n: usize| -> bool {
                if free >= n {
                    return true;
                }
                let need = n - free;
                let nc = std::cmp::max(cap.next_power_of_two(), (cap + need).next_power_of_two()) + 1;
                nc <= maxcap
            };
            let pick = rng.gen_range(0..100);
            let small = |rng: &mut SmallRng, hi: usize| -> usize {
                if hi == 0 {
                    return 0;
                }
                match rng.gen_range(0..4) {
                    0 => rng.gen_range(0..=hi.min(3)),
                    1 => [15usize, 16, 17, 31, 32, 33][rng.gen_range(0..6)].min(hi),
                    _ => rng.gen_range(0..=hi),
                }
            };
            let (op, a, b): (&str, usize, usize) = if pick < 22 {
                let n = small(&mut rng, room.min(48));
                (["Extend", "Fill", "Reader"][rng.gen_range(0..3)], n, 0)
            } else if pick < 27 {
                ("ReaderFail", small(&mut rng, room.min(20)).max(1), 0)
            } else if pick < 45 {
                ("DropFirst", small(&mut rng, len), 0)
            } else if pick < 48 {
                ("Clear", 0, 0)
            } else if pick < 55 {
                ("Reserve", small(&mut rng, room.min(64)), 0)
            } else if pick < 80 {
                let s = small(&mut rng, len);
                let l = small(&mut rng, (len - s).min(room));
                ("EFW", s, l)
            } else {
                let s = small(&mut rng, len);
                let l = small(&mut rng, (len - s).min(free));
                ("EFWU", s, l)
            };
            let n_for_growth = match op {
                "EFW" => b,
                "EFWU" | "DropFirst" | "Clear" => 0,
                _ => a,
            };
            if !fits(n_for_growth) {
                continue;
            }
            if (op == "DropFirst" && a == 0) || cap == 0 && matches!(op, "DropFirst" | "EFWU" | "EFW") {
                continue;
            }
            nops += 1;
            *kinds.entry(op.to_string()).or_insert(0) += 1;
            oplog.push(json!([op, a, b]));
            let mut errs = vec![];
            match std::panic::catch_unwind(std::panic::AssertUnwindSafe(|| r.apply(op, a, b))) {
                Err(p) => errs.push(format!("panic: {}", panic_msg(p))),
                Ok(Err(e)) => errs.push(e),
                Ok(Ok(())) => {}
            }
            let evs = verif::take();
            ring_trace(&evs, &mut recs);
            if errs.is_empty() {
                errs.extend(r.check());
            }
            states.insert(r.rb.verif_indices());
            if !errs.is_empty() {
                bad += 1;
                if mism.len() < 20 {
                    mism.push(json!({"sequence": si, "ops": oplog, "errors": errs}));
                }
                break;
            }
        }
        if samples.len() < 3 {
            samples.push(json!(oplog));
        }
        for rec in &recs {
            serde_json::to_writer(&mut w, rec).unwrap();
            w.write_all(b"\n").unwrap();
            nev += 1;
        }
    }
    verif::set_mask(0);
    w.flush().unwrap();
    write_json(report, &json!({"sequences": nseq, "ops": nops, "mismatches": bad, "first": mism, "kinds": kinds,
        "trace_events": nev, "distinct_index_states": states.len(), "samples": samples}));
}

pub fn ringk(_args: &[String]) {
    verif::take();
    verif::set_mask(verif::COPY);
    let mut rb = RingBuffer::new();
    rb.extend(&[1u8; 100]);
    rb.extend_from_within(0, 40);
    let evs = verif::take();
    verif::set_mask(0);
    let k = evs.iter().find(|e| e.kind == "copy").map(|e| e.args[6]).unwrap_or(0);
    println!("{k}");
}

/// Scripted sink: k > 0 accept k bytes, 0 = Ok(0), -1 = error, -2 = accept all; exhausted = accept all.
pub struct Sink {
    pub script: Vec<i64>,
    pub got: Vec<u8>,
    /// how many times this sink answered with an error
    pub errs: usize,
}
impl std::io::Write for Sink {
    fn write(&mut self, b: &[u8]) -> std::io::Result<usize> {
        if self.script.is_empty() {
            self.got.extend_from_slice(b);
            return Ok(b.len());
        }
        let a = self.script.remove(0);
        match a {
            -1 => {
                self.errs += 1;
                Err(std::io::Error::new(std::io::ErrorKind::WouldBlock, "scripted"))
            }
            -2 => {
                self.got.extend_from_slice(b);
                Ok(b.len())
            }
            k => {
                let n = (k as usize).min(b.len());
                self.got.extend_from_slice(&b[..n]);
                Ok(n)
            }
        }
    }
    fn flush(&mut self) -> std::io::Result<()> {
        Ok(())
    }
}

/// L1: random operation sequences on the real DecodeBuffer (which drives the ring through repeat / drain);
/// oracle = the byte stream semantics (dictionary ++ produced bytes, byte-wise copies, FIFO drains, XXH64 of drained bytes).
pub fn decbufrand(args: &[String]) {
    use ruzstd::verif::DecodeBuffer;
    use std::hash::Hasher;
    use std::io::Read;
    quiet_panics();
    let seed: u64 = args[0].parse().unwrap();
    let nseq: usize = args[1].parse().unwrap();
    let maxops: usize = args[2].parse().unwrap();
    let mut w = BufWriter::new(std::fs::File::create(&args[3]).unwrap());
    let report = &args[4];
    let mut rng = SmallRng::seed_from_u64(seed ^ 0xdecb);
    let (mut nops, mut bad, mut nev) = (0u64, 0u64, 0u64);
    let mut mism: Vec<Value> = vec![];
    let mut kinds = std::collections::BTreeMap::<String, u64>::new();
    let mut samples: Vec<Value> = vec![];
    verif::take();
    verif::set_mask(verif::RING | verif::COPY);
    for si in 0..nseq {
        let windows = [8usize, 16, 33, 64];
        let mut win = windows[rng.gen_range(0..4)];
        let mut db = DecodeBuffer::new(win);
        db.reset(win);
        let mut dict: Vec<u8> = vec![];
        if rng.gen_bool(0.3) {
            dict = (0..rng.gen_range(1..12)).map(|i| 200 + i as u8).collect();
            db.dict_content = dict.clone();
        }
        let mut stream: Vec<u8> = vec![]; // everything produced in this frame
        let mut delivered: Vec<u8> = vec![];
        let mut ctr: u32 = si as u32;
        let mut recs = vec![reset_record()];
        let mut oplog: Vec<Value> = vec![];
        let mut errs: Vec<String> = vec![];
        let nop = rng.gen_range(1..=maxops);
        for _ in 0..nop {
            let held = stream.len() - delivered.len();
            let room = 120usize.saturating_sub(held);
            let pick = rng.gen_range(0..100);
            let mut fresh = |n: usize| -> Vec<u8> {
                (0..n)
                    .map(|_| {
                        ctr = ctr.wrapping_mul(1103515245).wrapping_add(12345);
                        (ctr >> 16) as u8
                    })
                    .collect()
            };
            let r = std::panic::catch_unwind(std::panic::AssertUnwindSafe(|| -> Result<Value, String> {
                if pick < 15 {
                    let n = rng.gen_range(0..=room.min(40));
                    let d = fresh(n);
                    db.push(&d);
                    stream.extend(&d);
                    Ok(json!(["Push", n]))
                } else if pick < 50 {
                    // repeat: any valid (offset, length), overlapping or not, possibly reaching into the dictionary
                    let reach = if stream.len() <= win { held + dict.len() } else { held };
                    if reach == 0 {
                        return Ok(json!(["Skip"]));
                    }
                    let off = match rng.gen_range(0..4) {
                        0 => rng.gen_range(1..=reach.min(3)),
                        1 => reach,
                        _ => rng.gen_range(1..=reach),
                    };
                    let ml = match rng.gen_range(0..4) {
                        0 => rng.gen_range(0..=3usize),
                        1 => [15usize, 16, 17, 31, 32, 33][rng.gen_range(0..6)],
                        _ => rng.gen_range(0..=48usize),
                    }
                    .min(room);
                    db.repeat(off, ml).map_err(|e| format!("repeat({off},{ml}) failed: {e}"))?;
                    // oracle: byte-wise copy over dict ++ held part of the stream
                    let base = delivered.len();
                    for _ in 0..ml {
                        let pos = stream.len() as isize - off as isize; // index into stream, may be < base
                        let v = if pos >= base as isize {
                            stream[pos as usize]
                        } else {
                            let back = base as isize - pos; // bytes before the held data -> dictionary tail
                            dict[dict.len() - back as usize]
                        };
                        stream.push(v);
                    }
                    Ok(json!(["Repeat", off, ml]))
                } else if pick < 56 {
                    let n = rng.gen_range(0..=room.min(40));
                    let v = fresh(1)[0];
                    db.extend_and_fill(v, n);
                    stream.extend(std::iter::repeat(v).take(n));
                    Ok(json!(["Fill", n]))
                } else if pick < 62 {
                    let n = rng.gen_range(0..=room.min(40));
                    let d = fresh(n);
                    db.extend_from_reader(&d[..], n).map_err(|e| e.to_string())?;
                    stream.extend(&d);
                    Ok(json!(["Reader", n]))
                } else if pick < 68 {
                    let v = db.drain_to_window_size().unwrap_or_default();
                    let want = held.saturating_sub(win);
                    if v.len() != want {
                        return Err(format!("drain_to_window_size gave {} expected {}", v.len(), want));
                    }
                    delivered.extend(v);
                    Ok(json!(["DrainWin"]))
                } else if pick < 72 {
                    let v = db.drain();
                    if v.len() != held {
                        return Err(format!("drain gave {} expected {}", v.len(), held));
                    }
                    delivered.extend(v);
                    Ok(json!(["DrainAll"]))
                } else if pick < 80 {
                    let n = rng.gen_range(0..=50usize);
                    let mut buf = vec![0u8; n];
                    let k = db.read(&mut buf).map_err(|e| e.to_string())?;
                    let want = held.saturating_sub(win).min(n);
                    if k != want {
                        return Err(format!("read({n}) gave {k} expected {want}"));
                    }
                    delivered.extend(&buf[..k]);
                    Ok(json!(["Read", n]))
                } else if pick < 86 {
                    let n = rng.gen_range(0..=50usize);
                    let mut buf = vec![0u8; n];
                    let k = db.read_all(&mut buf).map_err(|e| e.to_string())?;
                    if k != held.min(n) {
                        return Err(format!("read_all({n}) gave {k} expected {}", held.min(n)));
                    }
                    delivered.extend(&buf[..k]);
                    Ok(json!(["ReadAll", n]))
                } else if pick < 97 {
                    let script: Vec<i64> = (0..rng.gen_range(0..4))
                        .map(|_| match rng.gen_range(0..5) {
                            0 => -1,
                            1 => 0,
                            2 => -2,
                            _ => rng.gen_range(1..20),
                        })
                        .collect();
                    let mut sink = Sink { script: script.clone(), got: vec![], errs: 0 };
                    let all = rng.gen_bool(0.5);
                    let r = if all { db.drain_to_writer(&mut sink) } else { db.drain_to_window_size_writer(&mut sink) };
                    if let Ok(n) = r {
                        if n != sink.got.len() {
                            return Err(format!("drain to writer returned {n}, sink took {}", sink.got.len()));
                        }
                    }
                    delivered.extend(sink.got);
                    Ok(json!([if all { "DrainToWriter" } else { "DrainWinToWriter" }, script]))
                } else {
                    // new frame on the same buffer
                    let rest = db.drain();
                    delivered.extend(rest);
                    if delivered != stream {
                        return Err("stream differs at frame end".into());
                    }
                    if db.hash.finish() != xxh64(&delivered, 0) {
                        return Err("hash differs from XXH64 of the delivered bytes".into());
                    }
                    win = windows[rng.gen_range(0..4)];
                    db.reset(win);
                    dict.clear();
                    stream.clear();
                    delivered.clear();
                    Ok(json!(["Reset", win]))
                }
            }));
            nops += 1;
            match r {
                Err(p) => errs.push(format!("panic: {}", panic_msg(p))),
                Ok(Err(e)) => errs.push(e),
                Ok(Ok(v)) => {
                    *kinds.entry(v[0].as_str().unwrap().to_string()).or_insert(0) += 1;
                    oplog.push(v);
                }
            }
            ring_trace(&verif::take(), &mut recs);
            if errs.is_empty() {
                if db.len() != stream.len() - delivered.len() {
                    errs.push(format!("len {} expected {}", db.len(), stream.len() - delivered.len()));
                }
                if !stream.starts_with(&delivered) {
                    errs.push("delivered bytes are not a prefix of the produced stream".into());
                }
            }
            if !errs.is_empty() {
                break;
            }
        }
        if errs.is_empty() {
            let rest = db.drain();
            ring_trace(&verif::take(), &mut recs);
            delivered.extend(rest);
            if delivered != stream {
                errs.push("stream differs at the end".into());
            }
            if db.hash.finish() != xxh64(&delivered, 0) {
                errs.push("hash differs from XXH64 of the delivered bytes".into());
            }
        }
        if !errs.is_empty() {
            bad += 1;
            if mism.len() < 20 {
                mism.push(json!({"sequence": si, "window": win, "ops": oplog, "errors": errs}));
            }
        }
        if samples.len() < 3 {
            samples.push(json!(oplog));
        }
        for rec in &recs {
            serde_json::to_writer(&mut w, rec).unwrap();
            w.write_all(b"\n").unwrap();
            nev += 1;
        }
    }
    verif::set_mask(0);
    w.flush().unwrap();
    write_json(report, &json!({"sequences": nseq, "ops": nops, "mismatches": bad, "first": mism, "kinds": kinds,
        "trace_events": nev, "samples": samples}));
}
