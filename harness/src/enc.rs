//! Encoder side executor: programs of 1..n frames on one reused FrameCompressor, every frame checked structurally
//! (independent walker + decoder events), decoded by ruzstd and by libzstd, and its trailer compared with XXH64.
use crate::frames::walk_frame;
use crate::gen::gen_input;
use crate::util::*;
use rand::{rngs::SmallRng, SeedableRng};
use ruzstd::decoding::FrameDecoder;
use ruzstd::encoding::{CompressionLevel, FrameCompressor, MatchGeneratorDriver};
use ruzstd::verif;
use serde_json::{json, Value};
use std::io::{BufRead, Read};

pub const BLOCK: usize = 128 * 1024;

/// A reader that hands out the data according to a fragmentation rule.
pub struct FragReader {
    pub data: Vec<u8>,
    pub pos: usize,
    /// 0 = as much as asked; k > 0 = at most k bytes per call; usize::MAX = reads that straddle block boundaries (BLOCK - 1, then 2, ...)
    pub frag: usize,
    pub calls: usize,
}
impl Read for FragReader {
    fn read(&mut self, buf: &mut [u8]) -> std::io::Result<usize> {
        self.calls += 1;
        let left = self.data.len() - self.pos;
        let mut n = buf.len().min(left);
        if self.frag == usize::MAX {
            let want = if self.calls % 2 == 1 { BLOCK - 1 } else { 2 };
            n = n.min(want);
        } else if self.frag > 0 {
            n = n.min(self.frag);
        }
        buf[..n].copy_from_slice(&self.data[self.pos..self.pos + n]);
        self.pos += n;
        Ok(n)
    }
}

pub struct FrameObs {
    pub json: Value,
    /// the frame breaks what the properties state (structure, bound, content, offsets, checksum)
    pub violations: Vec<String>,
    /// the frame differs from the as-built model only (block split, header layout choices): conformance drift, no alarm
    pub drift: Vec<String>,
}

/// All checks on one emitted frame. `events` are the encoder events recorded while it was produced.
pub fn check_frame(input: &[u8], frame: &[u8], level_fastest: bool, window: u64, enc_events: &[verif::Event]) -> FrameObs {
    check_frame_geom(input, frame, level_fastest, window, enc_events, BLOCK)
}

/// `blk`: the length of the blocks the compressor cuts its input into (128 KiB for the built-in geometry)
pub fn check_frame_geom(input: &[u8], frame: &[u8], level_fastest: bool, window: u64, enc_events: &[verif::Event], blk: usize) -> FrameObs {
    let mut v: Vec<String> = vec![];
    let mut dr: Vec<String> = vec![];
    let n = input.len();
    let mut obs = json!({"n": n, "flen": frame.len()});
    // ---- structure (independent walker) ----
    let lay = match walk_frame(frame) {
        Ok(l) => l,
        Err(e) => {
            v.push(format!("[wf] frame is not well formed: {e}"));
            return FrameObs { json: obs, violations: v, drift: dr };
        }
    };
    let hdr = lay["hdr"].as_u64().unwrap() as usize;
    let blocks = lay["blocks"].as_array().unwrap();
    let flen = lay["len"].as_u64().unwrap() as usize;
    if flen != frame.len() {
        v.push(format!("[wf] {} bytes follow the frame (final block and checksum end at {flen})", frame.len() - flen));
    }
    if !lay["cks"].as_bool().unwrap() {
        v.push("[cks] the checksum flag is not set".into());
    } else if frame.len() >= 4 {
        let stored = u32::from_le_bytes(frame[flen - 4..flen].try_into().unwrap());
        if stored != xxh64(input, 0) as u32 {
            v.push(format!("[cks] trailer {stored:08x} is not the low 32 bits of XXH64(input) {:08x}", xxh64(input, 0) as u32));
        }
    }
    if lay["dict_id"].as_u64().unwrap() != 0 {
        v.push("[wf] the frame asks for a dictionary".into());
    }
    if lay["single"].as_bool().unwrap() {
        dr.push("single-segment frame".into());
    }
    let declared_win = lay["win"].as_u64().unwrap();
    if declared_win < window {
        dr.push(format!("declared window {declared_win} is smaller than the matcher's window {window}"));
    }
    let expect_blocks = if n == 0 { 1 } else { n / blk + 1 };
    if blocks.len() != expect_blocks {
        dr.push(format!("{} blocks for {} input bytes, the as-built split has {}", blocks.len(), n, expect_blocks));
    }
    for (i, b) in blocks.iter().enumerate() {
        let last = b["last"].as_bool().unwrap();
        if last != (i + 1 == blocks.len()) {
            v.push(format!("[wf] block {i}: last flag {last}"));
        }
        if b["size"].as_u64().unwrap() as usize > BLOCK {
            v.push(format!("[wf] block {i}: size field {} above 128 KiB", b["size"]));
        }
        let ty = b["type"].as_u64().unwrap();
        if !level_fastest && ty != 0 {
            dr.push(format!("block {i}: type {ty} at level Uncompressed"));
        }
    }
    // the stated bound: frame header, three bytes per 128 KiB block, an optional empty final block, the checksum
    let bound = n + hdr + 3 * ((n + blk - 1) / blk + 1) + 4;
    if frame.len() > bound {
        v.push(format!("[bound] frame has {} bytes, more than input + framing overhead = {bound}", frame.len()));
    }
    obs["blocks"] = json!(blocks.iter().map(|b| json!([b["type"], b["size"], b["lit_type"]])).collect::<Vec<_>>());
    obs["hdr"] = json!(hdr);
    obs["win"] = json!(declared_win);
    // ---- decode with ruzstd, recording block and sequence events ----
    verif::take();
    verif::set_mask(verif::DEC | verif::SEQ);
    let mut dec = FrameDecoder::new();
    let mut out = Vec::with_capacity(n + 16);
    let r = std::panic::catch_unwind(std::panic::AssertUnwindSafe(|| dec.decode_all_to_vec(frame, &mut out)));
    let evs = verif::take();
    verif::set_mask(0);
    match r {
        Err(p) => v.push(format!("[dec] ruzstd decoder panicked: {}", panic_msg(p))),
        Ok(Err(e)) => v.push(format!("[dec] ruzstd cannot decode the frame: {e}")),
        Ok(Ok(())) => {
            if out != input {
                v.push("[dec] ruzstd decodes the frame to different bytes".into());
            }
        }
    }
    // regenerated block sizes and strict offset validity from the decoder's events
    let mut produced: u64 = 0;
    let mut in_block: u64 = 0;
    let mut bi = 0usize;
    let mut nseq = 0u64;
    let mut max_off = 0u64;
    let mut regen: Vec<u64> = vec![];
    for e in &evs {
        match e.kind {
            "seq" => {
                nseq += 1;
                let (ll, ml, actual) = (e.args[0], e.args[1], e.args[3]);
                let before_match = produced + in_block + ll;
                max_off = max_off.max(actual);
                if actual > before_match || actual > declared_win {
                    v.push(format!("[wf] sequence {nseq}: offset {actual} exceeds the data produced so far ({before_match}) or the window ({declared_win})"));
                }
                in_block += ll + ml;
            }
            "block" => {
                let d = e.args[3];
                if d > BLOCK as u64 {
                    v.push(format!("[wf] block {bi} regenerates {d} bytes"));
                }
                let want = if (bi + 1) * blk <= n { blk } else { n.saturating_sub(bi * blk) } as u64;
                if d != want {
                    dr.push(format!("block {bi} regenerates {d} bytes, the as-built split has {want}"));
                }
                regen.push(d);
                produced += d;
                in_block = 0;
                bi += 1;
            }
            _ => {}
        }
    }
    obs["regen"] = json!(regen);
    obs["sequences"] = json!(nseq);
    obs["max_offset"] = json!(max_off);
    // ---- decode with libzstd ----
    match zstd::decode_all(frame) {
        Err(e) => v.push(format!("[dec] libzstd cannot decode the frame: {e}")),
        Ok(o) => {
            if o != input {
                v.push("[dec] libzstd decodes the frame to different bytes".into());
            }
        }
    }
    // ---- encoder decisions ----
    let dec_ev: Vec<Value> = enc_events
        .iter()
        .filter(|e| e.kind.starts_with("enc_"))
        .map(|e| json!([e.kind, e.args[..e.nargs as usize].to_vec()]))
        .collect();
    obs["enc"] = json!(dec_ev);
    v.truncate(6);
    dr.truncate(6);
    FrameObs { json: obs, violations: v, drift: dr }
}

/// encexec <programs.ndjson> <report.json> [--obs <observations.ndjson>]
/// program = [{"level":"F"|"U","class":..,"len":..,"seed":..,"frag":0|k|"straddle"}, ...] on one compressor
pub fn encexec(args: &[String]) {
    use std::io::Write;
    quiet_panics();
    let f = std::io::BufReader::new(std::fs::File::open(&args[0]).unwrap());
    let mut obsw = arg_after(args, "--obs").map(|p| std::io::BufWriter::new(std::fs::File::create(p).unwrap()));
    let (mut nprog, mut nframes, mut bad, mut drifted) = (0u64, 0u64, 0u64, 0u64);
    let mut drift_ex: Vec<Value> = vec![];
    let mut mism: Vec<Value> = vec![];
    let mut samples: Vec<Value> = vec![];
    let mut decisions = std::collections::BTreeMap::<String, u64>::new();
    for line in f.lines() {
        let prog: Vec<Value> = serde_json::from_str(&line.unwrap()).unwrap();
        nprog += 1;
        let mut comp: FrameCompressor<FragReader, Vec<u8>, MatchGeneratorDriver> = FrameCompressor::new(CompressionLevel::Fastest);
        let mut failed = false;
        for (fi, fr) in prog.iter().enumerate() {
            nframes += 1;
            let fastest = fr["level"] == "F";
            let len = fr["len"].as_u64().unwrap() as usize;
            let mut rng = SmallRng::seed_from_u64(fr["seed"].as_u64().unwrap());
            let input = gen_input(fr["class"].as_str().unwrap(), len, &mut rng);
            let frag = match &fr["frag"] {
                Value::String(_) => usize::MAX,
                x => x.as_u64().unwrap_or(0) as usize,
            };
            comp.set_compression_level(if fastest { CompressionLevel::Fastest } else { CompressionLevel::Uncompressed });
            if fr["cont"].as_bool().unwrap_or(false) && fi > 0 && comp.source_mut().is_some() {
                comp.source_mut().unwrap().data.extend_from_slice(&input);
            } else {
                comp.set_source(FragReader { data: input.clone(), pos: 0, frag, calls: 0 });
            }
            comp.set_drain(Vec::new());
            verif::take();
            verif::set_mask(verif::ENC);
            let r = std::panic::catch_unwind(std::panic::AssertUnwindSafe(|| comp.compress()));
            let evs = verif::take();
            verif::set_mask(0);
            let mut viol: Vec<String> = vec![];
            let mut obs = json!({});
            match r {
                Err(p) => {
                    viol.push(format!("[panic] compress() panicked: {}", panic_msg(p)));
                    failed = true;
                }
                Ok(()) => {
                    let frame = comp.take_drain().unwrap();
                    let fo = check_frame(&input, &frame, fastest, if fastest { BLOCK as u64 } else { 0 }, &evs);
                    viol = fo.violations;
                    if !fo.drift.is_empty() {
                        drifted += 1;
                        if drift_ex.len() < 3 {
                            drift_ex.push(json!({"program": prog, "frame_index": fi, "drift": fo.drift}));
                        }
                    }
                    obs = fo.json;
                    for b in obs["blocks"].as_array().cloned().unwrap_or_default() {
                        *decisions.entry(format!("type{}_lit{}", b[0], b[2])).or_insert(0) += 1;
                    }
                    if let Some(w) = obsw.as_mut() {
                        obs["program"] = json!(nprog);
                        obs["frame"] = json!(fi + 1);
                        obs["level"] = fr["level"].clone();
                        serde_json::to_writer(&mut *w, &obs).unwrap();
                        w.write_all(b"\n").unwrap();
                    }
                }
            }
            if !viol.is_empty() {
                bad += 1;
                if mism.len() < 60 {
                    mism.push(json!({"program": prog, "frame_index": fi, "errors": viol}));
                }
            }
            if failed {
                break;
            }
        }
        if samples.len() < 3 {
            samples.push(json!(prog));
        }
    }
    if let Some(mut w) = obsw {
        w.flush().unwrap();
    }
    write_json(&args[1], &json!({"programs": nprog, "frames": nframes, "mismatches": bad, "first": mism, "samples": samples, "block_kinds": decisions,
        "drifted_frames": drifted, "drift_examples": drift_ex}));
}

/// The built-in match finder behind a wrapper that configures itself in reset(): until then it reports the smallest window.
/// (The Matcher trait allows window_size() to change with reset; the frame header must carry the value that holds while
/// the frame is produced.)
pub struct LateWindow {
    inner: MatchGeneratorDriver,
    configured: bool,
}
impl ruzstd::encoding::Matcher for LateWindow {
    fn get_next_space(&mut self) -> Vec<u8> {
        self.inner.get_next_space()
    }
    fn get_last_space(&mut self) -> &[u8] {
        self.inner.get_last_space()
    }
    fn commit_space(&mut self, space: Vec<u8>) {
        self.inner.commit_space(space)
    }
    fn skip_matching(&mut self) {
        self.inner.skip_matching()
    }
    fn start_matching(&mut self, handle_sequence: impl for<'a> FnMut(ruzstd::encoding::Sequence<'a>)) {
        self.inner.start_matching(handle_sequence)
    }
    fn reset(&mut self, level: CompressionLevel) {
        self.configured = true;
        self.inner.reset(level)
    }
    fn window_size(&self) -> u64 {
        if self.configured { self.inner.window_size() } else { 1024 }
    }
}

/// encgeom <seed> <quick|thorough> <report.json>
/// The built-in match finder at other geometries (slice size x slices per window, hook H6) behind the public
/// FrameCompressor::new_with_matcher: the window the frame header declares must cover every offset the matcher uses
/// (windows that are not powers of two, matches at distances just below the window), plus all the other frame checks.
pub fn encgeom(args: &[String]) {
    use rand::Rng;
    quiet_panics();
    let seed: u64 = args[0].parse().unwrap();
    let quick = args[1] == "quick";
    let mut rng = SmallRng::seed_from_u64(seed ^ 0x9e0);
    let geoms: Vec<(usize, usize)> = if quick { vec![(4600, 2), (3000, 1), (1000, 3), (70000, 2), (100_000, 1), (1100, 1)] }
        else { vec![(4600, 2), (3000, 1), (1000, 3), (70000, 2), (100_000, 1), (1100, 1), (131072, 1), (131072, 2), (5000, 5), (1024, 1), (1025, 1), (9000, 7), (65536, 3), (2300, 1)] };
    let (mut nframes, mut bad, mut drifted, mut far) = (0u64, 0u64, 0u64, 0u64);
    let mut mism: Vec<Value> = vec![];
    let mut drift_ex: Vec<Value> = vec![];
    let mut windows: Vec<Value> = vec![];
    for (slice, slices) in geoms {
        let win = slice * slices;
        let m = LateWindow { inner: MatchGeneratorDriver::verif_new(slice, slices), configured: false };
        let mut comp: FrameCompressor<FragReader, Vec<u8>, LateWindow> = FrameCompressor::new_with_matcher(m, CompressionLevel::Fastest);
        let mut declared = 0u64;
        for k in 0..(if quick { 5 } else { 12 }) {
            // data whose repeats sit just inside the window: random head, then copies of its start at distance ~ win - few bytes
            let n = win * 2 + rng.gen_range(0..slice.max(2));
            let mut data: Vec<u8> = gen_input(["random", "text", "skewed", "base64", "mixed"][k % 5], n, &mut rng);
            let dist = win.saturating_sub(rng.gen_range(1..(slice / 4).max(2))).max(8);
            let mut p = dist;
            while p + 40 < n {
                let l = rng.gen_range(6..40);
                for j in 0..l {
                    data[p + j] = data[p + j - dist];
                }
                p += l + rng.gen_range(1..slice.max(2));
            }
            nframes += 1;
            comp.set_source(FragReader { data: data.clone(), pos: 0, frag: if k % 2 == 0 { 0 } else { 777 }, calls: 0 });
            comp.set_drain(Vec::new());
            verif::take();
            verif::set_mask(verif::ENC);
            let r = std::panic::catch_unwind(std::panic::AssertUnwindSafe(|| comp.compress()));
            let evs = verif::take();
            verif::set_mask(0);
            let mut viol: Vec<String> = vec![];
            match r {
                Err(p) => {
                    viol.push(format!("[panic] compress() panicked: {}", panic_msg(p)));
                }
                Ok(()) => {
                    let frame = comp.take_drain().unwrap();
                    let fo = check_frame_geom(&data, &frame, true, win as u64, &evs, slice);
                    viol = fo.violations;
                    declared = fo.json["win"].as_u64().unwrap_or(0);
                    if fo.json["max_offset"].as_u64().unwrap_or(0) * 8 > win as u64 * 7 {
                        far += 1;
                    }
                    if !fo.drift.is_empty() {
                        drifted += 1;
                        if drift_ex.len() < 3 {
                            drift_ex.push(json!({"slice": slice, "slices": slices, "frame": k, "drift": fo.drift}));
                        }
                    }
                }
            }
            if !viol.is_empty() {
                bad += 1;
                if mism.len() < 20 {
                    mism.push(json!({"program": {"slice": slice, "slices": slices, "frame": k, "len": n, "match_distance": dist}, "frame_index": k, "errors": viol}));
                }
            }
        }
        windows.push(json!([win, declared]));
    }
    write_json(&args[2], &json!({"frames": nframes, "mismatches": bad, "first": mism, "drifted_frames": drifted, "drift_examples": drift_ex,
        "frames_with_offsets_above_7_8_of_the_window": far, "matcher_window_and_declared_window": windows}));
}

// ---------------------------------------------------------------------------------------------
// Programs from the FrameCompressor state graph: one action per block with a wanted content class
// ---------------------------------------------------------------------------------------------

/// Block content realising (as far as data can force it) a content class of FrameCompressor.tla.
pub fn class_block(cls: &str, fallback: bool, len: usize, rng: &mut SmallRng) -> Vec<u8> {
    use rand::seq::SliceRandom;
    use rand::Rng;
    match (cls, fallback) {
        ("rle", _) => vec![rng.gen(); len],
        ("fewlits", false) => gen_input("periodic", len, rng),
        ("fewlits", true) => {
            // too short or too irregular to gain anything, but few literals
            let mut v: Vec<u8> = (0..len).map(|i| (i * 37 % 251) as u8).collect();
            v.truncate(len.min(900));
            while v.len() < len {
                let r: u8 = rng.gen();
                v.push(r);
            }
            v
        }
        ("huf", false) => gen_input("skewed", len, rng),
        ("huf", true) => {
            // nearly uniform over 255 values: the Huffman code saves a few dozen bytes, one short match costs more
            let mut b: Vec<u8> = (0..len).map(|i| (i % 255) as u8).collect();
            b.shuffle(rng);
            if len > 64 {
                let src = rng.gen_range(0..len / 8);
                let dst = len / 4 + rng.gen_range(0..len / 4);
                for j in 0..5 {
                    b[dst + j] = b[src + j];
                }
            }
            b
        }
        ("hufraw", fb) => {
            // literals over 250 equally likely byte values: a Huffman table is built, but table + payload are not smaller
            // than the literals themselves.  Kept blocks: a short run of such literals, repeated (the repeats are matches).
            let unit = if fb { len } else { len.min(rng.gen_range(2000..6000)) };
            let lit: Vec<u8> = (0..unit).map(|_| rng.gen_range(0..250u8)).collect();
            (0..len).map(|i| lit[i % unit]).collect()
        }
        ("nohuf", true) => gen_input("random", len, rng),
        ("nohuf", false) => {
            let mut v = gen_input("random", len, rng);
            let h = len / 2;
            for i in h..len {
                v[i] = v[i - h];
            }
            v
        }
        _ => gen_input("mixed", len, rng),
    }
}

/// encgraph <programs.ndjson> <report.json> <trace.ndjson> <seed> <stride>
pub fn encgraph(args: &[String]) {
    use rand::Rng;
    use std::io::Write;
    quiet_panics();
    let f = std::io::BufReader::new(std::fs::File::open(&args[0]).unwrap());
    let mut tw = std::io::BufWriter::new(std::fs::File::create(&args[2]).unwrap());
    let seed: u64 = args[3].parse().unwrap();
    let stride: usize = args[4].parse().unwrap();
    let (mut nprog, mut nframes, mut bad, mut nev, mut drifted) = (0u64, 0u64, 0u64, 0u64, 0u64);
    let mut drift_ex: Vec<Value> = vec![];
    let mut mism: Vec<Value> = vec![];
    let mut samples: Vec<Value> = vec![];
    let mut seen = std::collections::BTreeMap::<String, u64>::new();
    for (li, line) in f.lines().enumerate() {
        let line = line.unwrap();
        if li % stride != 0 {
            continue;
        }
        let prog: Vec<Value> = serde_json::from_str(&line).unwrap();
        nprog += 1;
        let mut rng = SmallRng::seed_from_u64(seed ^ (li as u64).wrapping_mul(0x9E3779B97F4A7C15));
        // split the action sequence into frames
        struct Fr {
            fastest: bool,
            frag: usize,
            /// no set_source for this frame: the data is appended to the source that is already installed
            cont: bool,
            data: Vec<u8>,
            wanted: Vec<Value>,
        }
        let mut frames: Vec<Fr> = vec![];
        for s in &prog {
            let a = s["args"].as_array().unwrap();
            match s["op"].as_str().unwrap() {
                "BeginFrame" => frames.push(Fr { fastest: a[0] == "F", frag: match a[1].as_u64().unwrap() { 9 => usize::MAX, 99 => 0, k => k as usize }, cont: a[1].as_u64().unwrap() == 99 && !frames.is_empty(), data: vec![], wanted: vec![] }),
                "RawBlock" => {
                    let last = a[0].as_bool().unwrap();
                    let len = if last { rng.gen_range(1..5000) } else { BLOCK };
                    let fr = frames.last_mut().unwrap();
                    fr.data.extend(gen_input("mixed", len, &mut rng));
                    fr.wanted.push(json!(["any", false]));
                }
                "FastBlock" => {
                    let cls = a[0].as_str().unwrap();
                    let fb = a[2].as_bool().unwrap();
                    let last = a[3].as_bool().unwrap();
                    let len = if last { [1usize, 7, 300, 1025, 4000, 70000][rng.gen_range(0..6)] } else { BLOCK };
                    let fr = frames.last_mut().unwrap();
                    // two "huf" blocks in a row: the second one has the histogram of the first (a rotation of it), which is
                    // what makes the previous table eligible for treeless literals
                    let prev_huf = fr.wanted.last().map(|w| w[0] == "huf" || w[0] == "hufraw" || w[0] == "nohuf").unwrap_or(false) && fr.data.len() >= BLOCK;
                    // (a block that is to fall back to raw gets fresh data of its class: a NEW table that is then discarded)
                    if (cls == "huf" || cls == "hufraw") && prev_huf && !(fb && cls == "huf" && fr.wanted.last().map(|w| w[1] == false).unwrap_or(false)) {
                        let prev = fr.data[fr.data.len() - BLOCK..].to_vec();
                        let mut b: Vec<u8> = prev[1000..].to_vec();
                        b.extend_from_slice(&prev[..1000]);
                        b.truncate(len.max(1));
                        if !fb && b.len() > 8000 {
                            let l = b.len();
                            for j in 0..3000 {
                                b[l - 3000 + j] = b[j];
                            }
                        }
                        fr.data.extend(b);
                    } else {
                        fr.data.extend(class_block(cls, fb, len, &mut rng));
                    }
                    fr.wanted.push(json!([cls, fb]));
                }
                _ => {} // EmptyLast: nothing to add
            }
        }
        let mut comp: FrameCompressor<FragReader, Vec<u8>, MatchGeneratorDriver> = FrameCompressor::new(CompressionLevel::Fastest);
        let mut recs: Vec<Value> = vec![json!({"ev": "new"})];
        let mut untraced = false;
        for (fi, fr) in frames.iter().enumerate() {
            nframes += 1;
            comp.set_compression_level(if fr.fastest { CompressionLevel::Fastest } else { CompressionLevel::Uncompressed });
            if fr.cont && comp.source_mut().is_some() {
                // compress() again on the source that is already there (it has been read to its end): more data arrives
                comp.source_mut().unwrap().data.extend_from_slice(&fr.data);
            } else {
                comp.set_source(FragReader { data: fr.data.clone(), pos: 0, frag: fr.frag, calls: 0 });
            }
            comp.set_drain(Vec::new());
            verif::take();
            verif::set_mask(verif::ENC);
            let r = std::panic::catch_unwind(std::panic::AssertUnwindSafe(|| comp.compress()));
            let evs = verif::take();
            verif::set_mask(0);
            let mut viol: Vec<String> = vec![];
            match r {
                Err(p) => viol.push(format!("[panic] compress() panicked: {}", panic_msg(p))),
                Ok(()) => {
                    let frame = comp.take_drain().unwrap();
                    let fo = check_frame(&fr.data, &frame, fr.fastest, if fr.fastest { BLOCK as u64 } else { 0 }, &evs);
                    viol = fo.violations;
                    if !fo.drift.is_empty() {
                        // the frame is not split / laid out like the as-built model: nothing to bind the trace to; the
                        // property-level checks above have been applied, the rest of the program is not traced
                        drifted += 1;
                        if drift_ex.len() < 3 {
                            drift_ex.push(json!({"program": prog.iter().map(|s| json!([s["op"], s["args"]])).collect::<Vec<_>>(), "frame_index": fi, "drift": fo.drift}));
                        }
                        untraced = true;
                    }
                    if !untraced {
                    // trace records: one per emitted block, decisions bound from the encoder events
                    recs.push(json!({"ev": "begin", "level": if fr.fastest { "F" } else { "U" }}));
                    let mut ei = evs.iter().filter(|e| e.kind.starts_with("enc_")).peekable();
                    if let Some(blocks) = fo.json["blocks"].as_array() {
                        let nb = blocks.len();
                        for (bi, b) in blocks.iter().enumerate() {
                            let ty = b[0].as_u64().unwrap();
                            let size = b[1].as_u64().unwrap() as usize;
                            let lit = b[2].as_i64().unwrap();
                            let last = bi + 1 == nb;
                            let d = if (bi + 1) * BLOCK <= fr.data.len() { BLOCK } else { fr.data.len() - bi * BLOCK };
                            let dd = if d == BLOCK { BLOCK } else if d == 0 { 0 } else { 1 };
                            let mut had = false;
                            let mut has = false;
                            let mut fb = false;
                            if fr.fastest && d > 0 {
                                // events of this block: enc_rle | enc_block + enc_choice
                                if let Some(e) = ei.next() {
                                    if e.kind == "enc_block" {
                                        had = e.args[2] == 1;
                                        has = e.args[3] == 1;
                                        if let Some(c) = ei.next() {
                                            fb = c.args[2] == 1;
                                        }
                                    }
                                }
                            }
                            let kind = match ty { 0 => "raw", 1 => "rle", _ => "comp" };
                            let lits = match (ty, lit) { (2, 0) => "raw", (2, 1) => "rle", (2, 2) => "new", (2, 3) => "treeless", _ => "none" };
                            let _ = size;
                            *seen.entry(format!("{}:{}:{}{}", if fr.fastest { "F" } else { "U" }, kind, lits, if fb { ":fallback" } else { "" })).or_insert(0) += 1;
                            recs.push(json!({"ev": "block", "kind": kind, "d": dd, "lit": lits, "had": had, "has": has, "fb": fb, "last": last,
                                "wanted": fr.wanted.get(bi).cloned().unwrap_or(json!(["none", false]))}));
                        }
                    }
                    }
                }
            }
            if !viol.is_empty() {
                bad += 1;
                if mism.len() < 60 {
                    let path = format!("{}.input_{}_{}.bin", args[1], li, fi);
                    std::fs::write(&path, &fr.data).ok();
                    mism.push(json!({"program": prog.iter().map(|s| json!([s["op"], s["args"]])).collect::<Vec<_>>(), "frame_index": fi, "errors": viol, "input_file": path,
                        "level": if fr.fastest { "F" } else { "U" }, "frag": fr.frag as u64}));
                }
                break;
            }
        }
        for r in &recs {
            serde_json::to_writer(&mut tw, r).unwrap();
            tw.write_all(b"\n").unwrap();
            nev += 1;
        }
        if samples.len() < 2 {
            samples.push(json!(prog.iter().map(|s| json!([s["op"], s["args"]])).collect::<Vec<_>>()));
        }
    }
    tw.flush().unwrap();
    write_json(&args[1], &json!({"programs": nprog, "frames": nframes, "mismatches": bad, "first": mism, "samples": samples, "observed_decisions": seen, "trace_events": nev,
        "drifted_frames": drifted, "drift_examples": drift_ex}));
}
