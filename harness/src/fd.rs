//! FrameDecoder layer: frame sets for the protocol model and the executor that replays TLC-derived programs
//! (one per transition of the FrameDecoder state graph) on the real FrameDecoder / StreamingDecoder.
use crate::frames::*;
use crate::ring::Sink;
use crate::util::*;
use ruzstd::decoding::errors::FrameDecoderError;
use ruzstd::decoding::{BlockDecodingStrategy, FrameDecoder, StreamingDecoder};
use serde_json::{json, Value};
use std::io::{BufRead, Read};

fn fresh(n: usize, seed: u32) -> Vec<u8> {
    let mut c = seed.wrapping_mul(2654435761).wrapping_add(17);
    (0..n)
        .map(|_| {
            c = c.wrapping_mul(1103515245).wrapping_add(12345);
            (c >> 16) as u8
        })
        .collect()
}

fn rle_modes(ll: u32, ofv: u32, ml: u32) -> (SeqMode, SeqMode, SeqMode) {
    (SeqMode::Rle(ll_code(ll).0), SeqMode::Rle(of_code(ofv).0), SeqMode::Rle(ml_code(ml).0))
}

fn plain(name: &str, win_desc: u8, cks: bool, blocks: Vec<Blk>) -> FrameSpec {
    FrameSpec { name: name.into(), win_desc: Some(win_desc), cks, dict_id: None, fcs: None, blocks, dict: vec![], rep: [1, 4, 8] }
}

/// treeless literals (type 3) in the first compressed block: must fail on a decoder without a Huffman table
fn probe_treeless() -> Blk {
    let mut body = literals_header(3, 4, Some(2), false, Some(0));
    body.extend_from_slice(&[0x55, 0x01]);
    body.push(0); // no sequences
    Blk::Verbatim { ty: 2, size_field: body.len() as u32, body, regen: None }
}

/// one sequence with the given mode byte and no table bytes: repeat mode without a previous table must fail
fn probe_repeat(mode_byte: u8) -> Blk {
    let mut body = literals_header(0, 0, None, false, None);
    body.push(1);
    body.push(mode_byte);
    body.extend_from_slice(&[0xFF, 0xFF, 0xFF, 0x01]);
    Blk::Verbatim { ty: 2, size_field: body.len() as u32, body, regen: None }
}

pub fn frame_set(name: &str) -> Vec<FrameSpec> {
    let mut v = vec![];
    let core = |v: &mut Vec<FrameSpec>| {
        v.push(plain("rle3_cks", 0x00, true, vec![Blk::Rle(17, 1023), Blk::Raw(fresh(2, 1)), Blk::Rle(34, 1024)]));
        v.push(plain("empty_last", 0x00, false, vec![Blk::Rle(51, 1024), Blk::Rle(52, 1024), Blk::Raw(fresh(1, 2)), Blk::Raw(vec![])]));
        v.push(plain("w1280", 0x02, true, vec![Blk::Rle(1, 1024), Blk::Rle(2, 1024), Blk::Rle(3, 1024)]));
        // a match that reaches exactly one window back after more than a window was produced
        v.push(plain(
            "reach",
            0x00,
            true,
            vec![
                Blk::Raw(fresh(700, 3)),
                Blk::Raw(fresh(500, 4)),
                Blk::Comp { lits: Lits::Raw(fresh(3, 5)), seqs: vec![(0, 1024 + 3, 40)], modes: rle_modes(0, 1024 + 3, 40) },
                Blk::Comp { lits: Lits::Raw(fresh(2, 6)), seqs: vec![(2, 1, 5)], modes: rle_modes(2, 1, 5) },
            ],
        ));
    };
    let small = |v: &mut Vec<FrameSpec>| {
        v.push(FrameSpec { name: "single5".into(), win_desc: None, cks: false, dict_id: None, fcs: Some(5), blocks: vec![Blk::Raw(fresh(5, 7))], dict: vec![], rep: [1, 4, 8] });
        v.push(FrameSpec {
            name: "single40".into(),
            win_desc: None,
            cks: true,
            dict_id: None,
            fcs: Some(40),
            blocks: vec![
                Blk::Raw(fresh(20, 8)),
                Blk::Comp { lits: Lits::Raw(fresh(4, 9)), seqs: vec![(4, 24 + 3, 16)], modes: rle_modes(4, 24 + 3, 16) },
            ],
            dict: vec![],
            rep: [1, 4, 8],
        });
        // repeat offsets right at the start of a frame: content depends on the initial history (1, 4, 8)
        v.push(plain(
            "rep_start",
            0x00,
            false,
            vec![
                Blk::Raw(fresh(20, 10)),
                Blk::Comp { lits: Lits::Raw(fresh(3, 11)), seqs: vec![(1, 1, 4), (1, 2, 3), (0, 3, 5), (1, 3, 3)], modes: (SeqMode::Predef, SeqMode::Predef, SeqMode::Predef) },
            ],
        ));
    };
    let probes = |v: &mut Vec<FrameSpec>| {
        v.push(plain("probe_treeless", 0x00, false, vec![Blk::Raw(fresh(10, 12)), probe_treeless(), Blk::Raw(vec![])]));
        v.push(plain("probe_rep_ll", 0x00, true, vec![Blk::Raw(fresh(10, 13)), probe_repeat(0xC0), Blk::Raw(vec![])]));
        v.push(plain("probe_rep_of", 0x00, false, vec![Blk::Raw(fresh(10, 14)), probe_repeat(0x30), Blk::Raw(vec![])]));
        v.push(plain("probe_rep_ml", 0x00, false, vec![Blk::Raw(fresh(10, 15)), probe_repeat(0x0C), Blk::Raw(vec![])]));
    };
    // frames that leave as much per-frame state behind as possible
    let dirty = |v: &mut Vec<FrameSpec>| {
        v.push(plain(
            "dirty_rle_modes",
            0x00,
            true,
            vec![
                Blk::Raw(fresh(50, 16)),
                Blk::Comp { lits: Lits::Raw(fresh(6, 17)), seqs: vec![(3, 7 + 3, 5), (3, 9 + 3, 5)], modes: (SeqMode::Rle(3), SeqMode::Rle(3), SeqMode::Rle(2)) },
                Blk::Comp { lits: Lits::Raw(fresh(3, 18)), seqs: vec![(3, 11, 5)], modes: (SeqMode::Repeat, SeqMode::Repeat, SeqMode::Repeat) },
            ],
        ));
    };
    match name {
        "core" => {
            core(&mut v);
        }
        "quick" => {
            core(&mut v);
            small(&mut v);
            probes(&mut v);
            dirty(&mut v);
        }
        _ => {
            core(&mut v);
            small(&mut v);
            probes(&mut v);
            dirty(&mut v);
        }
    }
    v
}

/// fdframes <set> <out.json>: build the set, cross-check every valid frame with libzstd.
pub fn fdframes(args: &[String]) {
    let set = frame_set(&args[0]);
    let mut out = vec![];
    let mut tool_errors = vec![];
    for s in &set {
        let b = build(s);
        let r = zstd::decode_all(&b.bytes[..]);
        match (&r, b.valid) {
            (Ok(v), true) if *v == b.content => {}
            (Err(_), false) => {}
            (other, valid) => tool_errors.push(format!("{}: serializer/oracle disagrees with libzstd (valid={valid}): {:?}", b.name, other.as_ref().map(|v| v.len()).map_err(|e| e.to_string()))),
        }
        out.push(b.to_json());
    }
    write_json(&args[1], &json!({"frames": out, "tool_errors": tool_errors}));
}

pub fn err_class(e: &FrameDecoderError) -> String {
    match e {
        FrameDecoderError::ReadFrameHeaderError(_) | FrameDecoderError::FrameHeaderError(_) | FrameDecoderError::FailedToInitialize(_) => "hdr".into(),
        FrameDecoderError::FailedToReadBlockHeader(_) => "blockhdr".into(),
        FrameDecoderError::FailedToReadBlockBody(_) => "body".into(),
        FrameDecoderError::FailedToReadChecksum(_) => "cksum".into(),
        FrameDecoderError::WindowSizeTooBig { .. } => "window".into(),
        FrameDecoderError::DictNotProvided { .. } => "dict".into(),
        FrameDecoderError::TargetTooSmall => "target".into(),
        FrameDecoderError::FailedToSkipFrame => "skip".into(),
        FrameDecoderError::NotYetInitialized => "uninit".into(),
        other => format!("other:{other:?}"),
    }
}

/// A source over a byte vector with an explicit position and optional fragmentation (at most `chunk` bytes per read).
pub struct Src {
    pub data: Vec<u8>,
    pub pos: usize,
    pub chunk: usize,
}
impl Read for Src {
    fn read(&mut self, buf: &mut [u8]) -> std::io::Result<usize> {
        let mut n = buf.len().min(self.data.len() - self.pos);
        if self.chunk > 0 {
            n = n.min(self.chunk);
        }
        buf[..n].copy_from_slice(&self.data[self.pos..self.pos + n]);
        self.pos += n;
        Ok(n)
    }
}

pub struct FrameInfo {
    pub bytes: Vec<u8>,
    pub content: Vec<u8>,
    pub cks: bool,
    pub win: usize,
    pub len: usize,
}

pub fn load_frames(path: &str) -> Vec<FrameInfo> {
    let v: Value = serde_json::from_str(&std::fs::read_to_string(path).unwrap()).unwrap();
    v["frames"]
        .as_array()
        .unwrap()
        .iter()
        .map(|f| FrameInfo {
            bytes: unhex(f["hex"].as_str().unwrap()),
            content: unhex(f["content_hex"].as_str().unwrap()),
            cks: f["cks"].as_bool().unwrap(),
            win: f["win"].as_u64().unwrap() as usize,
            len: f["len"].as_u64().unwrap() as usize,
        })
        .collect()
}

type SD<'a> = StreamingDecoder<Src, &'a mut FrameDecoder>;

/// Run one program. mode: 0 = plain FrameDecoder, 1 = decoder owned by a StreamingDecoder; chunk = source fragmentation.
fn run_program(prog: &[Value], frames: &[FrameInfo], mode: u8, chunk: usize) -> Result<usize, (usize, Vec<String>)> {
    let decp: *mut FrameDecoder = Box::into_raw(Box::new(FrameDecoder::new()));
    // SAFETY (harness only): `decp` is used either directly or through the StreamingDecoder `sd`, never both at once.
    let mut sd: Option<SD<'static>> = None;
    let mut src = Src { data: vec![], pos: 0, chunk };
    let mut fi = 0usize;
    let mut delivered: Vec<u8> = vec![];
    let mut result = Ok(prog.len());
    for (si, s) in prog.iter().enumerate() {
        let op = s["op"].as_str().unwrap();
        let args = s["args"].as_array().unwrap();
        let exp = &s["exp"];
        let au = |i: usize| args[i].as_u64().unwrap() as usize;
        let mut ret: Vec<Value> = vec![];
        let r = std::panic::catch_unwind(std::panic::AssertUnwindSafe(|| {
            macro_rules! dec {
                () => {
                    match sd.as_mut() {
                        Some(x) => &mut *x.decoder,
                        None => unsafe { &mut *decp },
                    }
                };
            }
            match op {
                "Reset" => {
                    let i = au(0) - 1;
                    let cutv = au(1);
                    // take the decoder back out of a streaming decoder
                    if let Some(x) = sd.take() {
                        let (s_old, _d) = x.into_parts();
                        src = s_old;
                    }
                    let newsrc = Src { data: frames[i].bytes[..cutv.min(frames[i].bytes.len())].to_vec(), pos: 0, chunk };
                    if mode == 1 {
                        match StreamingDecoder::new_with_decoder(newsrc, unsafe { &mut *decp }) {
                            Ok(x) => {
                                sd = Some(x);
                                fi = i;
                                delivered.clear();
                                ret.push(json!("ok"));
                            }
                            Err(e) => {
                                ret.push(json!("err"));
                                ret.push(json!(err_class(&e)));
                            }
                        }
                    } else {
                        let mut ns = newsrc;
                        match unsafe { &mut *decp }.reset(&mut ns) {
                            Ok(()) => {
                                src = ns;
                                fi = i;
                                delivered.clear();
                                ret.push(json!("ok"));
                            }
                            Err(e) => {
                                ret.push(json!("err"));
                                ret.push(json!(err_class(&e)));
                            }
                        }
                    }
                }
                "Decode" => {
                    let kind = args[0].as_str().unwrap();
                    let b = au(1);
                    let strat = match kind {
                        "all" => BlockDecodingStrategy::All,
                        "blocks" => BlockDecodingStrategy::UptoBlocks(b),
                        _ => BlockDecodingStrategy::UptoBytes(b),
                    };
                    let r = match sd.as_mut() {
                        Some(x) => {
                            let xp: *mut SD<'static> = x;
                            // decoder and source are disjoint parts of the streaming decoder
                            unsafe { (*xp).decoder.decode_blocks((*xp).get_mut(), strat) }
                        }
                        None => unsafe { &mut *decp }.decode_blocks(&mut src, strat),
                    };
                    match r {
                        Ok(f) => ret.push(json!(f)),
                        Err(e) => {
                            ret.push(json!("err"));
                            ret.push(json!(err_class(&e)));
                        }
                    }
                }
                "Collect" => {
                    let v = dec!().collect().unwrap_or_default();
                    ret.push(json!(v.len()));
                    delivered.extend(v);
                }
                "Read" => {
                    let mut buf = vec![0u8; au(0)];
                    let n = Read::read(dec!(), &mut buf[..]).unwrap();
                    ret.push(json!(n));
                    delivered.extend_from_slice(&buf[..n]);
                }
                "CollectTo" => {
                    let script: Vec<i64> = args[0].as_array().unwrap().iter().map(|x| x.as_i64().unwrap()).collect();
                    let mut sink = Sink { script, got: vec![] };
                    let r = dec!().collect_to_writer(&mut sink);
                    ret.push(json!(if r.is_ok() { "ok" } else { "err" }));
                    ret.push(json!(sink.got.len()));
                    if let Ok(n) = r {
                        if n != sink.got.len() {
                            ret.push(json!(format!("returned {n}")));
                        }
                    }
                    delivered.extend(sink.got);
                }
                "FromTo" => {
                    let i = au(0) - 1;
                    let a = au(1);
                    let t = au(2);
                    let fresh = si == 0 || prog[si - 1]["exp"]["st"] == "none";
                    if fresh {
                        fi = i;
                        delivered.clear();
                        if let Some(x) = sd.as_mut() {
                            x.get_mut().data = frames[i].bytes.clone();
                            x.get_mut().pos = 0;
                        } else {
                            src = Src { data: frames[i].bytes.clone(), pos: 0, chunk };
                        }
                    }
                    let mut tgt = vec![0u8; t];
                    let (data, pos): (Vec<u8>, usize) = match sd.as_mut() {
                        Some(x) => (x.get_ref().data.clone(), x.get_ref().pos),
                        None => (src.data.clone(), src.pos),
                    };
                    let end = (pos + a).min(data.len());
                    match dec!().decode_from_to(&data[pos..end], &mut tgt) {
                        Err(e) => {
                            ret.push(json!("err"));
                            ret.push(json!(err_class(&e)));
                        }
                        Ok((rd, wr)) => {
                            ret.push(json!(rd));
                            ret.push(json!(wr));
                            // the caller advances by what the call says it consumed
                            match sd.as_mut() {
                                Some(x) => x.get_mut().pos = (pos + rd).min(data.len()),
                                None => src.pos = (pos + rd).min(data.len()),
                            }
                            delivered.extend_from_slice(&tgt[..wr.min(t)]);
                        }
                    }
                }
                "SRead" => {
                    let n = au(0);
                    let mut buf = vec![0u8; n];
                    match sd.as_mut() {
                        None => ret.push(json!("not-streaming")),
                        Some(x) => match x.read(&mut buf) {
                            Ok(k) => {
                                ret.push(json!(k));
                                delivered.extend_from_slice(&buf[..k.min(n)]);
                            }
                            Err(e) => {
                                ret.push(json!("err"));
                                let cls = e.get_ref().and_then(|r| r.downcast_ref::<FrameDecoderError>()).map(err_class).unwrap_or_else(|| "io".into());
                                ret.push(json!(cls));
                            }
                        },
                    }
                }
                _ => panic!("op {op}"),
            }
        }));
        let mut errs = vec![];
        if let Err(p) = r {
            errs.push(format!("panic: {}", panic_msg(p)));
        } else {
            let dec: &FrameDecoder = match sd.as_ref() {
                Some(x) => &*x.decoder,
                None => unsafe { &*decp },
            };
            let exp_ret = exp["ret"].as_array().unwrap();
            if &ret != exp_ret {
                errs.push(format!("returned {:?}, specified {:?}", ret, exp_ret));
            }
            let st = exp["st"].as_str().unwrap();
            if st != "none" {
                let p = exp["P"].as_u64().unwrap() as usize;
                let d = exp["D"].as_u64().unwrap() as usize;
                let ffin = exp["ffin"].as_bool().unwrap();
                let ck = exp["ck"].as_bool().unwrap();
                let efi = exp["fi"].as_u64().unwrap() as usize - 1;
                let fr = &frames[efi];
                let isfin = ffin && (!fr.cks || ck);
                let can = if isfin { p - d } else { (p - d).saturating_sub(fr.win) };
                if st == "active" {
                    // after a failure only what the properties state is compared (delivered prefix, not finished)
                    if dec.bytes_read_from_source() != exp["consumed"].as_u64().unwrap() {
                        errs.push(format!("bytes_read_from_source {} specified {}", dec.bytes_read_from_source(), exp["consumed"]));
                    }
                    if dec.blocks_decoded() != exp["nb"].as_u64().unwrap() as usize {
                        errs.push(format!("blocks_decoded {} specified {}", dec.blocks_decoded(), exp["nb"]));
                    }
                }
                if dec.is_finished() != isfin {
                    errs.push(format!("is_finished {} specified {}", dec.is_finished(), isfin));
                }
                if dec.can_collect() != can {
                    errs.push(format!("can_collect {} specified {}", dec.can_collect(), can));
                }
                if delivered.len() != d {
                    errs.push(format!("delivered {} bytes, specified {}", delivered.len(), d));
                }
                if !fr.content.starts_with(&delivered) {
                    errs.push("delivered bytes are not a prefix of the frame content".into());
                }
                if st == "active" && isfin && p == d {
                    if delivered != fr.content {
                        errs.push("finished and drained, but the delivered bytes are not the frame content".into());
                    }
                    let want = xxh64(&delivered, 0) as u32;
                    if dec.get_calculated_checksum() != Some(want) {
                        errs.push(format!("calculated checksum {:?} != XXH64 of the delivered bytes {:08x}", dec.get_calculated_checksum(), want));
                    }
                    if fr.cks && dec.get_checksum_from_data() != Some(want) {
                        errs.push(format!("stored checksum {:?} != XXH64 of the delivered bytes", dec.get_checksum_from_data()));
                    }
                }
            }
        }
        if !errs.is_empty() {
            result = Err((si, errs));
            break;
        }
    }
    drop(sd);
    unsafe { drop(Box::from_raw(decp)) };
    let _ = fi;
    result
}

/// fdexec <frames.json> <programs.ndjson> <report.json>
pub fn fdexec(args: &[String]) {
    quiet_panics();
    let frames = load_frames(&args[0]);
    let f = std::io::BufReader::new(std::fs::File::open(&args[1]).unwrap());
    let (mut nprog, mut nstep, mut bad, mut runs) = (0u64, 0u64, 0u64, 0u64);
    let mut mism: Vec<Value> = vec![];
    let mut kinds = std::collections::BTreeMap::<String, u64>::new();
    let mut sigs = std::collections::BTreeMap::<String, u64>::new();
    for (li, line) in f.lines().enumerate() {
        let prog: Vec<Value> = serde_json::from_str(&line.unwrap()).unwrap();
        nprog += 1;
        nstep += prog.len() as u64;
        for s in &prog {
            *kinds.entry(s["op"].as_str().unwrap().to_string()).or_insert(0) += 1;
        }
        let has_sread = prog.iter().any(|s| s["op"] == "SRead");
        let mut variants: Vec<(u8, usize)> = vec![(1, 0)];
        if !has_sread {
            variants.push((0, 0));
            variants.push((0, if li % 2 == 0 { 1 } else { 7 }));
        } else {
            variants.push((1, if li % 2 == 0 { 1 } else { 5 }));
        }
        for (mode, chunk) in variants {
            runs += 1;
            if let Err((si, errs)) = run_program(&prog, &frames, mode, chunk) {
                bad += 1;
                let s = &prog[si];
                let sig = format!("{}|{}", s["op"].as_str().unwrap(), errs[0].split(' ').next().unwrap_or(""));
                *sigs.entry(sig).or_insert(0) += 1;
                if mism.len() < 20 {
                    mism.push(json!({"program": li, "mode": mode, "chunk": chunk, "step": si, "op": s["op"], "args": s["args"], "errors": errs,
                        "state_before": if si > 0 { prog[si - 1]["exp"].clone() } else { json!("init") }, "prefix": prog[..=si].to_vec()}));
                }
                break;
            }
        }
    }
    write_json(&args[2], &json!({"programs": nprog, "steps": nstep, "runs": runs, "mismatches": bad, "first": mism, "ops": kinds, "signatures": sigs}));
}
