//! FrameDecoder layer: frame sets for the protocol model and the executor that replays TLC-derived programs
//! (one per transition of the FrameDecoder state graph) on the real FrameDecoder / StreamingDecoder.
use crate::frames::*;
use crate::ring::Sink;
use crate::util::*;
use ruzstd::decoding::errors::FrameDecoderError;
use ruzstd::decoding::{BlockDecodingStrategy, FrameDecoder, StreamingDecoder};
use serde_json::{json, Value};
use std::io::{BufRead, Read};

fn fresh(n: usize, seed: u32) -> Vec<u8> {
    let mut c = seed.wrapping_mul(2654435761).wrapping_add(17);
    (0..n)
        .map(|_| {
            c = c.wrapping_mul(1103515245).wrapping_add(12345);
            (c >> 16) as u8
        })
        .collect()
}

fn rle_modes(ll: u32, ofv: u32, ml: u32) -> (SeqMode, SeqMode, SeqMode) {
    (SeqMode::Rle(ll_code(ll).0), SeqMode::Rle(of_code(ofv).0), SeqMode::Rle(ml_code(ml).0))
}

fn plain(name: &str, win_desc: u8, cks: bool, blocks: Vec<Blk>) -> FrameSpec {
    FrameSpec { name: name.into(), win_desc: Some(win_desc), cks, dict_id: None, fcs: None, blocks, dict: vec![], rep: [1, 4, 8], fcs_width: None, dict_tables: None }
}

/// treeless literals (type 3) in the first compressed block: must fail on a decoder without a Huffman table
fn probe_treeless() -> Blk {
    let mut body = literals_header(3, 4, Some(2), false, Some(0));
    body.extend_from_slice(&[0x55, 0x01]);
    body.push(0); // no sequences
    Blk::Verbatim { ty: 2, size_field: body.len() as u32, body, regen: None }
}

/// one sequence with the given mode byte and no table bytes: repeat mode without a previous table must fail
fn probe_repeat(mode_byte: u8) -> Blk {
    let mut body = literals_header(0, 0, None, false, None);
    body.push(1);
    body.push(mode_byte);
    body.extend_from_slice(&[0xFF, 0xFF, 0xFF, 0x01]);
    Blk::Verbatim { ty: 2, size_field: body.len() as u32, body, regen: None }
}

pub struct DictSpec {
    pub id: u32,
    pub content: Vec<u8>,
    pub rep: [u32; 3],
    pub tables: DictTables,
}

/// Two synthetic dictionaries with entropy tables that differ from the predefined ones.
pub fn dict_specs() -> (DictSpec, DictSpec) {
    // symbols 0..3 (the literal alphabet of the spec-generated frames) and 'a'..'g' explicit, implied weight 2 for 'h'
    let mut huf = vec![3u8, 2, 1, 1];
    huf.resize(97, 0);
    huf.extend_from_slice(&[4, 3, 3, 2, 2, 1, 1]);
    let mut of = crate::fsecodec::OF_DEF.to_vec();
    of.swap(0, 6);
    let mut ml = crate::fsecodec::ML_DEF.to_vec();
    ml.swap(0, 1);
    let mut ll = crate::fsecodec::LL_DEF.to_vec();
    ll.swap(0, 13);
    let tables = DictTables { huf, of: (5, of), ml: (6, ml), ll: (6, ll) };
    let a = DictSpec { id: 0x11, content: fresh(64, 30), rep: [3, 10, 20], tables: tables.clone() };
    let b = DictSpec { id: 0x2233, content: fresh(40, 31), rep: [1, 4, 8], tables };
    (a, b)
}

pub fn frame_set(name: &str) -> Vec<FrameSpec> {
    let mut v = vec![];
    let core = |v: &mut Vec<FrameSpec>| {
        v.push(plain("rle3_cks", 0x00, true, vec![Blk::Rle(17, 1023), Blk::Raw(fresh(2, 1)), Blk::Rle(34, 1024)]));
        v.push(plain("empty_last", 0x00, false, vec![Blk::Rle(51, 1024), Blk::Rle(52, 1024), Blk::Raw(fresh(1, 2)), Blk::Raw(vec![])]));
        v.push(plain("w1280", 0x02, true, vec![Blk::Rle(1, 1024), Blk::Rle(2, 1024), Blk::Rle(3, 1024)]));
        // five window-sized blocks: decode 3, drain to the window, decode 2 -> the data wraps around the ring end
        v.push(plain("wrap5", 0x00, true, vec![Blk::Rle(61, 1024), Blk::Rle(62, 1024), Blk::Rle(63, 1024), Blk::Rle(64, 1024), Blk::Rle(65, 1024)]));
        // a match that reaches exactly one window back after more than a window was produced
        v.push(plain(
            "reach",
            0x00,
            true,
            vec![
                Blk::Raw(fresh(700, 3)),
                Blk::Raw(fresh(500, 4)),
                Blk::Comp { lits: Lits::Raw(fresh(3, 5)), seqs: vec![(0, 1024 + 3, 40)], modes: rle_modes(0, 1024 + 3, 40) },
                Blk::Comp { lits: Lits::Raw(fresh(2, 6)), seqs: vec![(2, 1, 5)], modes: rle_modes(2, 1, 5) },
            ],
        ));
    };
    let small = |v: &mut Vec<FrameSpec>| {
        v.push(FrameSpec { name: "single5".into(), win_desc: None, cks: false, dict_id: None, fcs: Some(5), blocks: vec![Blk::Raw(fresh(5, 7))], dict: vec![], rep: [1, 4, 8], fcs_width: None, dict_tables: None });
        v.push(FrameSpec {
            name: "single40".into(),
            win_desc: None,
            cks: true,
            dict_id: None,
            fcs: Some(40),
            blocks: vec![
                Blk::Raw(fresh(20, 8)),
                Blk::Comp { lits: Lits::Raw(fresh(4, 9)), seqs: vec![(4, 24 + 3, 16)], modes: rle_modes(4, 24 + 3, 16) },
            ],
            dict: vec![],
            rep: [1, 4, 8],
            fcs_width: None,
            dict_tables: None,
        });
        // raw blocks behind a 1 KiB window whose sizes make a later raw block straddle the physical end of the ring after a
        // small early drain (the reader fills the two free segments separately)
        v.push(plain("rawwrap", 0x00, true, vec![Blk::Raw(fresh(1024, 91)), Blk::Raw(fresh(1024, 92)), Blk::Raw(fresh(1024, 93)), Blk::Raw(fresh(525, 94)), Blk::Raw(fresh(560, 95)), Blk::Raw(fresh(10, 96))]));
        // a Dictionary_ID field that is present and zero ("no dictionary", legal): one more header byte to account for
        v.push(FrameSpec { name: "did0".into(), win_desc: Some(0), cks: true, dict_id: Some(0), fcs: None, blocks: vec![Blk::Raw(fresh(9, 26)), Blk::Rle(3, 12)], dict: vec![], rep: [1, 4, 8], fcs_width: None, dict_tables: None });
        // repeat offsets right at the start of a frame: content depends on the initial history (1, 4, 8)
        v.push(plain(
            "rep_start",
            0x00,
            false,
            vec![
                Blk::Raw(fresh(20, 10)),
                Blk::Comp { lits: Lits::Raw(fresh(3, 11)), seqs: vec![(1, 1, 4), (1, 2, 3), (0, 3, 5), (1, 3, 3)], modes: (SeqMode::Predef, SeqMode::Predef, SeqMode::Predef) },
            ],
        ));
    };
    let probes = |v: &mut Vec<FrameSpec>| {
        v.push(plain("probe_treeless", 0x00, false, vec![Blk::Raw(fresh(10, 12)), probe_treeless(), Blk::Raw(vec![])]));
        v.push(plain("probe_rep_ll", 0x00, true, vec![Blk::Raw(fresh(10, 13)), probe_repeat(0xC0), Blk::Raw(vec![])]));
        v.push(plain("probe_rep_of", 0x00, false, vec![Blk::Raw(fresh(10, 14)), probe_repeat(0x30), Blk::Raw(vec![])]));
        v.push(plain("probe_rep_ml", 0x00, false, vec![Blk::Raw(fresh(10, 15)), probe_repeat(0x0C), Blk::Raw(vec![])]));
    };
    // frames that leave as much per-frame state behind as possible
    let dirty = |v: &mut Vec<FrameSpec>| {
        v.push(plain(
            "dirty_rle_modes",
            0x00,
            true,
            vec![
                Blk::Raw(fresh(50, 16)),
                Blk::Comp { lits: Lits::Raw(fresh(6, 17)), seqs: vec![(3, 7 + 3, 5), (3, 9 + 3, 5)], modes: (SeqMode::Rle(3), SeqMode::Rle(3), SeqMode::Rle(2)) },
                Blk::Comp { lits: Lits::Raw(fresh(3, 18)), seqs: vec![(3, 11, 5)], modes: (SeqMode::Repeat, SeqMode::Repeat, SeqMode::Repeat) },
            ],
        ));
    };
    // One (dirty, probe) pair per channel through which sequence-table state could leak from frame to frame: the dirty
    // frame installs the state in its second block and repeats it in its third; the probe is the same frame WITHOUT the
    // second block, so its repeat mode has nothing to repeat and it must fail on every decoder -- but it would decode
    // "successfully" on a decoder that kept the state of the dirty frame.
    let twins = |v: &mut Vec<FrameSpec>| {
        let p = SeqMode::Predef;
        let r = SeqMode::Repeat;
        let channels: Vec<(&str, (SeqMode, SeqMode, SeqMode), (SeqMode, SeqMode, SeqMode))> = vec![
            ("ll_rle", (SeqMode::Rle(2), p.clone(), p.clone()), (r.clone(), p.clone(), p.clone())),
            ("of_rle", (p.clone(), SeqMode::Rle(3), p.clone()), (p.clone(), r.clone(), p.clone())),
            ("ml_rle", (p.clone(), p.clone(), SeqMode::Rle(2)), (p.clone(), p.clone(), r.clone())),
            ("ll_fse", (SeqMode::Fse(5, vec![8, 8, 8, 8]), p.clone(), p.clone()), (r.clone(), p.clone(), p.clone())),
            ("of_fse", (p.clone(), SeqMode::Fse(5, vec![4, 4, 4, 4, 8, 8]), p.clone()), (p.clone(), r.clone(), p.clone())),
            ("ml_fse", (p.clone(), p.clone(), SeqMode::Fse(5, vec![8, 8, 8, 8])), (p.clone(), p.clone(), r.clone())),
        ];
        for (ci, (name, set, rep)) in channels.into_iter().enumerate() {
            let head = Blk::Raw(fresh(50, 60 + ci as u32));
            // literal length 2 (code 2), offset value 8..15 (code 3), match length 5 (code 2): fits every RLE / FSE table above
            let b2 = Blk::Comp { lits: Lits::Raw(fresh(4, 70 + ci as u32)), seqs: vec![(2, 9 + 3, 5), (2, 7 + 3, 5)], modes: set };
            let b3 = Blk::Comp { lits: Lits::Raw(fresh(2, 80 + ci as u32)), seqs: vec![(2, 8 + 3, 5)], modes: rep };
            let full = plain(&format!("dirty_{name}"), 0x00, ci % 2 == 0, vec![head.clone(), b2, b3]);
            let built = build(&full);
            // the serialized third block, verbatim
            let mut at = built.hdr;
            for b in &built.blocks[..2] {
                at += 3 + b.c;
            }
            let body = built.bytes[at + 3..at + 3 + built.blocks[2].c].to_vec();
            v.push(full);
            v.push(plain(&format!("probe_{name}"), 0x00, false, vec![head, Blk::Verbatim { ty: 2, size_field: body.len() as u32, body, regen: None }, Blk::Raw(vec![])]));
        }
    };
    // a plain frame that builds its own Huffman table (other lengths than the dictionaries' table): what it leaves behind
    // must not survive into a dictionary frame that decodes its first literals with the dictionary's table
    let dirty_huf = |v: &mut Vec<FrameSpec>| {
        v.push(plain("dirty_huf", 0x00, false, vec![
            Blk::Raw(fresh(20, 90)),
            Blk::Comp { lits: Lits::Huf(b"aaaaaaaabbbbccdaaaabbbccccddddeeeeffff".to_vec(), false, Some(vec![0; 97].into_iter().chain([1u8, 2, 3, 4, 4, 1]).collect()), None), seqs: vec![(5, 9, 4)], modes: (SeqMode::Predef, SeqMode::Predef, SeqMode::Predef) },
        ]));
    };
    // C05: blocks at and beyond the 128 KiB limit; window 128 KiB (descriptor 0x38)
    let hostile = |v: &mut Vec<FrameSpec>| {
        let big = |name: &str, ml: u32, nseq: usize| {
            plain(
                name,
                0x38,
                false,
                vec![
                    Blk::Raw(fresh(1, 20)),
                    Blk::Comp { lits: Lits::Raw(fresh(3, 21)), seqs: std::iter::once((3u32, 4u32, ml)).chain(std::iter::repeat((0u32, 4u32, ml)).take(nseq - 1)).collect(), modes: rle_modes(if nseq == 1 { 3 } else { 0 }, 4, ml) },
                    Blk::Raw(vec![]),
                ],
            )
        };
        // exactly 128 KiB: 3 literals + one match of 131069
        v.push(big("max_block_exact", 131069, 1));
        // one byte more
        v.push(big("max_block_plus1", 131070, 1));
        // RLE literals of 128 KiB + 1 and no sequences
        v.push(plain("rle_lits_plus1", 0x38, false, vec![Blk::Raw(fresh(1, 22)), Blk::Comp { lits: Lits::Rle(7, 131073), seqs: vec![], modes: (SeqMode::Predef, SeqMode::Predef, SeqMode::Predef) }, Blk::Raw(vec![])]));
        v.push(plain("rle_lits_exact", 0x38, true, vec![Blk::Raw(fresh(1, 22)), Blk::Comp { lits: Lits::Rle(7, 131072), seqs: vec![], modes: (SeqMode::Predef, SeqMode::Predef, SeqMode::Predef) }, Blk::Raw(vec![])]));
        v.push(plain("rle_block_max", 0x38, true, vec![Blk::Rle(9, 131072), Blk::Rle(10, 131072), Blk::Raw(fresh(5, 23))]));
    };
    match name {
        "dict" => {
            let (da, db) = dict_specs();
            let with = |name: &str, d: &DictSpec, cks: bool, blocks: Vec<Blk>| FrameSpec {
                name: name.into(), win_desc: Some(0), cks, dict_id: Some(d.id), fcs: None, blocks, dict: d.content.clone(), rep: d.rep, fcs_width: None, dict_tables: Some(d.tables.clone()),
            };
            let pre = (SeqMode::Predef, SeqMode::Predef, SeqMode::Predef);
            let rep3 = (SeqMode::Repeat, SeqMode::Repeat, SeqMode::Repeat);
            // matches into the dictionary content: inside, the whole dictionary, straddling into the output with overlap
            v.push(with("dA_match", &da, true, vec![Blk::Comp { lits: Lits::Raw(fresh(6, 40)), seqs: vec![(2, 2 + 10 + 3, 8), (2, 4 + 8 + 64 + 3, 90), (1, 1, 4)], modes: pre.clone() }]));
            // the dictionary's entropy tables and repeat offsets are the starting state
            v.push(with("dA_tables", &da, false, vec![
                Blk::Raw(fresh(30, 41)),
                Blk::Comp { lits: Lits::Huf(b"abcdefghabcaab".to_vec(), false, None, None), seqs: vec![(3, 1, 5), (4, 2, 4), (0, 3, 6), (5, 20 + 3, 3)], modes: rep3.clone() },
            ]));
            // the first sequence is "repeat offset 1 minus one" with no literals: depends on the dictionary's first offset alone
            v.push(with("dA_rep3", &da, false, vec![Blk::Comp { lits: Lits::Raw(fresh(2, 45)), seqs: vec![(0, 3, 4)], modes: pre.clone() }]));
            v.push(with("dB_plain", &db, true, vec![Blk::Comp { lits: Lits::Raw(fresh(5, 42)), seqs: vec![(5, 5 + 40 + 3, 12)], modes: pre.clone() }, Blk::Rle(7, 100)]));
            // names a dictionary nobody registered
            let mut missing = with("d_missing", &da, false, vec![Blk::Raw(fresh(4, 43))]);
            missing.dict_id = Some(0x77);
            v.push(missing);
            // a match reaching before the start of a dictionary-less frame: invalid on every decoder
            v.push(plain("probe_reach", 0x00, false, vec![Blk::Raw(fresh(10, 44)), Blk::Comp { lits: Lits::Raw(vec![]), seqs: vec![(0, 30 + 3, 5)], modes: pre.clone() }, Blk::Raw(vec![])]));
            small(&mut v);
            probes(&mut v);
            dirty(&mut v);
            twins(&mut v);
            dirty_huf(&mut v);
            // a frame with a LARGER window than all the others (8 KiB): whoever keeps it across a reset holds bytes of the next
            // frame back that a fresh decoder hands out
            v.push(plain("bigwin", 0x18, false, vec![Blk::Raw(fresh(30, 97)), Blk::Rle(5, 40)]));
        }
        "hostile" => {
            hostile(&mut v);
            // a thousand maximum-length matches in one block (finding F1)
            let ml = 131074u32;
            v.push(plain(
                "f1_1000",
                0x00,
                false,
                vec![Blk::Raw(fresh(1, 24)), Blk::Comp { lits: Lits::Raw(vec![]), seqs: vec![(0, 4, ml); 1000], modes: rle_modes(0, 4, ml) }],
            ));
            v.push(plain(
                "f1_32800",
                0x00,
                false,
                vec![Blk::Raw(fresh(1, 25)), Blk::Comp { lits: Lits::Raw(vec![]), seqs: vec![(0, 4, ml); 32800], modes: rle_modes(0, 4, ml) }],
            ));
            v.push(plain("rle3_cks", 0x00, true, vec![Blk::Rle(17, 1023), Blk::Raw(fresh(2, 1)), Blk::Rle(34, 1024)]));
            // a long frame behind a tiny window: 600 blocks of exactly one window (1 KiB); whoever stops draining holds 600 KiB
            v.push(plain("long_win1k", 0x00, true, (0..600u32).map(|i| Blk::Rle((i % 250) as u8, 1024)).chain(std::iter::once(Blk::Raw(fresh(5, 25)))).collect()));
            // a block as large as the (256 KiB) window, after the window has been filled: more than 128 KiB, so it must be refused
            let ml2 = 131072u32;
            v.push(plain(
                "bomb_window_256k",
                0x40,
                false,
                vec![Blk::Rle(1, 131072), Blk::Rle(2, 131072), Blk::Comp { lits: Lits::Raw(vec![]), seqs: vec![(0, 4, ml2); 2], modes: rle_modes(0, 4, ml2) }, Blk::Raw(vec![])],
            ));
            // 8 MiB window filled, then one block of 8 MiB
            v.push(plain(
                "bomb_window_8m",
                0x68,
                false,
                std::iter::repeat(Blk::Rle(3, 131072)).take(64).chain(std::iter::once(Blk::Comp { lits: Lits::Raw(vec![]), seqs: vec![(0, 4, ml2); 64], modes: rle_modes(0, 4, ml2) })).chain(std::iter::once(Blk::Raw(vec![]))).collect(),
            ));
        }
        "core" => {
            core(&mut v);
        }
        "quick" => {
            core(&mut v);
            small(&mut v);
            probes(&mut v);
            dirty(&mut v);
        }
        _ => {
            core(&mut v);
            small(&mut v);
            probes(&mut v);
            dirty(&mut v);
        }
    }
    v
}

/// fdframes <set> <out.json>: build the set, cross-check every valid frame with libzstd.
pub fn fdframes(args: &[String]) {
    let set = frame_set(&args[0]);
    let mut out = vec![];
    let mut tool_errors = vec![];
    let (da, db) = dict_specs();
    let dicts: Vec<(u32, Vec<u8>)> = [&da, &db].iter().map(|d| (d.id, build_dictionary(d.id, &d.tables, d.rep, &d.content))).collect();
    for s in &set {
        let mut b = build(s);
        if let Some(id) = s.dict_id {
            // an id of zero means "no dictionary" (RFC 8878 3.1.1.1.3)
            if id != 0 && !dicts.iter().any(|d| d.0 == id) {
                b.rerr = "dict".into();
                b.valid = false;
            }
        }
        let r = match s.dict_id.and_then(|id| dicts.iter().find(|d| d.0 == id)) {
            Some((_, raw)) => {
                let mut o = Vec::new();
                zstd::stream::read::Decoder::with_dictionary(&b.bytes[..], raw).and_then(|mut d| std::io::Read::read_to_end(&mut d, &mut o)).map(|_| o)
            }
            None => zstd::decode_all(&b.bytes[..]),
        };
        match (&r, b.valid) {
            (Ok(v), true) if *v == b.content => {}
            (Err(_), false) => {}
            (other, valid) => tool_errors.push(format!("{}: serializer/oracle disagrees with libzstd (valid={valid}): {:?}", b.name, other.as_ref().map(|v| v.len()).map_err(|e| e.to_string()))),
        }
        out.push(b.to_json());
    }
    write_json(&args[1], &json!({"frames": out, "tool_errors": tool_errors, "dicts": dicts.iter().map(|d| hex(&d.1)).collect::<Vec<_>>()}));
}

pub fn err_class(e: &FrameDecoderError) -> String {
    match e {
        FrameDecoderError::ReadFrameHeaderError(_) | FrameDecoderError::FrameHeaderError(_) | FrameDecoderError::FailedToInitialize(_) => "hdr".into(),
        FrameDecoderError::FailedToReadBlockHeader(_) => "blockhdr".into(),
        FrameDecoderError::FailedToReadBlockBody(_) => "body".into(),
        FrameDecoderError::FailedToReadChecksum(_) => "cksum".into(),
        FrameDecoderError::WindowSizeTooBig { .. } => "window".into(),
        FrameDecoderError::DictNotProvided { .. } => "dict".into(),
        FrameDecoderError::TargetTooSmall => "target".into(),
        FrameDecoderError::FailedToSkipFrame => "skip".into(),
        FrameDecoderError::NotYetInitialized => "uninit".into(),
        other => format!("other:{other:?}"),
    }
}

/// A source over a byte vector with an explicit position and optional fragmentation (at most `chunk` bytes per read).
pub struct Src {
    pub data: Vec<u8>,
    pub pos: usize,
    pub chunk: usize,
}
impl Read for Src {
    fn read(&mut self, buf: &mut [u8]) -> std::io::Result<usize> {
        let mut n = buf.len().min(self.data.len() - self.pos);
        if self.chunk > 0 {
            n = n.min(self.chunk);
        }
        buf[..n].copy_from_slice(&self.data[self.pos..self.pos + n]);
        self.pos += n;
        Ok(n)
    }
}

thread_local! {
    /// dictionaries registered with every decoder the executor creates
    pub static DICTS: std::cell::RefCell<Vec<Vec<u8>>> = const { std::cell::RefCell::new(Vec::new()) };
}

pub struct FrameInfo {
    pub bytes: Vec<u8>,
    pub content: Vec<u8>,
    pub cks: bool,
    pub win: usize,
    pub len: usize,
    pub valid: bool,
}

pub fn load_frames(path: &str) -> Vec<FrameInfo> {
    let v: Value = serde_json::from_str(&std::fs::read_to_string(path).unwrap()).unwrap();
    if let Some(ds) = v["dicts"].as_array() {
        DICTS.with(|d| *d.borrow_mut() = ds.iter().map(|x| unhex(x.as_str().unwrap())).collect());
    }
    v["frames"]
        .as_array()
        .unwrap()
        .iter()
        .map(|f| FrameInfo {
            bytes: unhex(f["hex"].as_str().unwrap()),
            content: unhex(f["content_hex"].as_str().unwrap()),
            cks: f["cks"].as_bool().unwrap(),
            win: f["win"].as_u64().unwrap() as usize,
            len: f["len"].as_u64().unwrap() as usize,
            valid: f["valid"].as_bool().unwrap(),
        })
        .collect()
}

type SD<'a> = StreamingDecoder<Src, &'a mut FrameDecoder>;

/// What one program run found.
/// `violations`: the property-level observables are wrong (these alone raise an alarm).
/// `drift`: the first step at which an intermediate value (a counter, the amount handed out by one call, the
/// number of blocks decoded by one call) differs from the as-built model although no property-level observable
/// is wrong.  After drift the rest of the program runs without predictions, with the property-level checks only.
#[derive(Default)]
pub struct Outcome {
    pub violations: Vec<(usize, String)>,
    pub drift: Option<(usize, String)>,
    pub steps: usize,
    /// one observation per program step (only when asked for): what the call returned and every accessor afterwards
    pub obs: Vec<Value>,
}

struct Exec<'f> {
    decp: *mut FrameDecoder,
    sd: Option<SD<'static>>,
    src: Src,
    fi: usize,
    cutv: usize,
    frames: &'f [FrameInfo],
    delivered: Vec<u8>,
    chunk: usize,
    mode: u8,
    started: bool,
    failed: bool,      // a call returned an error for the current frame
    saw_last: bool,    // decode_blocks returned true / the decoder reported finished
    used_slice: bool,  // decode_from_to was used on the current frame
    frame_error: Option<String>, // a decode call returned an error for the current frame
}

impl<'f> Exec<'f> {
    fn dec(&mut self) -> &mut FrameDecoder {
        match self.sd.as_mut() {
            Some(x) => &mut *x.decoder,
            // SAFETY (harness only): `decp` is used either directly or through the StreamingDecoder, never both at once.
            None => unsafe { &mut *self.decp },
        }
    }
    fn dec_ref(&self) -> &FrameDecoder {
        match self.sd.as_ref() {
            Some(x) => &*x.decoder,
            None => unsafe { &*self.decp },
        }
    }
    fn source(&mut self) -> &mut Src {
        match self.sd.as_mut() {
            Some(x) => x.get_mut(),
            None => &mut self.src,
        }
    }
    fn reset(&mut self, i: usize, cutv: usize) -> Vec<Value> {
        if let Some(x) = self.sd.take() {
            let (s_old, _d) = x.into_parts();
            self.src = s_old;
        }
        let fr = &self.frames[i];
        let newsrc = Src { data: fr.bytes[..cutv.min(fr.bytes.len())].to_vec(), pos: 0, chunk: self.chunk };
        let r = if self.mode == 1 {
            match StreamingDecoder::new_with_decoder(newsrc, unsafe { &mut *self.decp }) {
                Ok(x) => {
                    self.sd = Some(x);
                    Ok(())
                }
                Err(e) => Err(e),
            }
        } else {
            let mut ns = newsrc;
            let r = unsafe { &mut *self.decp }.reset(&mut ns);
            if r.is_ok() {
                self.src = ns;
            }
            r
        };
        match r {
            Ok(()) => {
                self.fi = i;
                self.cutv = cutv;
                self.delivered.clear();
                self.started = true;
                self.failed = false;
                self.saw_last = false;
                self.used_slice = false;
                self.frame_error = None;
                vec![json!("ok")]
            }
            Err(e) => {
                if self.started {
                    self.failed = true;
                }
                if let FrameDecoderError::DictNotProvided { .. } = e {
                    // the decoder has switched to the new frame before it noticed the missing dictionary
                    self.fi = i;
                    self.cutv = cutv;
                    self.delivered.clear();
                    self.started = true;
                    self.failed = true;
                    self.saw_last = false;
                    self.used_slice = false;
                    self.frame_error = None;
                }
                vec![json!("err"), json!(err_class(&e))]
            }
        }
    }
    fn decode(&mut self, strat: BlockDecodingStrategy) -> Vec<Value> {
        let r = match self.sd.as_mut() {
            Some(x) => {
                let xp: *mut SD<'static> = x;
                // decoder and source are disjoint parts of the streaming decoder
                unsafe { (*xp).decoder.decode_blocks((*xp).get_mut(), strat) }
            }
            None => unsafe { &mut *self.decp }.decode_blocks(&mut self.src, strat),
        };
        match r {
            Ok(f) => {
                if f {
                    self.saw_last = true;
                }
                vec![json!(f)]
            }
            Err(e) => {
                self.failed = true;
                self.frame_error = Some(err_class(&e));
                vec![json!("err"), json!(err_class(&e))]
            }
        }
    }
    fn from_to(&mut self, a: usize, t: usize, viol: &mut Vec<String>) -> Vec<Value> {
        let mut tgt = vec![0u8; t];
        let (data, pos): (Vec<u8>, usize) = {
            let s = self.source();
            (s.data.clone(), s.pos)
        };
        let end = (pos + a).min(data.len());
        let before = if self.started { self.dec_ref().bytes_read_from_source() } else { 0 };
        self.used_slice = true;
        match self.dec().decode_from_to(&data[pos..end], &mut tgt) {
            Err(e) => {
                if self.started {
                    self.failed = true;
                    self.frame_error = Some(err_class(&e));
                }
                vec![json!("err"), json!(err_class(&e))]
            }
            Ok((rd, wr)) => {
                self.started = true;
                if rd > end - pos {
                    viol.push(format!("decode_from_to reports {rd} consumed bytes but was given {}", end - pos));
                }
                let after = self.dec_ref().bytes_read_from_source();
                if after - before != rd as u64 {
                    viol.push(format!("decode_from_to reports {rd} consumed bytes, bytes_read_from_source advanced by {}", after - before));
                }
                if wr > t {
                    viol.push(format!("decode_from_to reports {wr} written bytes into a target of {t}"));
                }
                // the caller advances by what the call says it consumed
                let np = (pos + rd).min(data.len());
                self.source().pos = np;
                self.delivered.extend_from_slice(&tgt[..wr.min(t)]);
                vec![json!(rd), json!(wr)]
            }
        }
    }
    fn sread(&mut self, n: usize) -> Vec<Value> {
        let mut buf = vec![0u8; n];
        match self.sd.as_mut() {
            None => vec![json!("not-streaming")],
            Some(x) => match x.read(&mut buf) {
                Ok(k) => {
                    self.delivered.extend_from_slice(&buf[..k.min(n)]);
                    vec![json!(k)]
                }
                Err(e) => {
                    self.failed = true;
                    self.frame_error = Some("streaming".into());
                    let cls = e.get_ref().and_then(|r| r.downcast_ref::<FrameDecoderError>()).map(err_class).unwrap_or_else(|| "io".into());
                    vec![json!("err"), json!(cls)]
                }
            },
        }
    }
    /// property-level checks that hold after every call, whatever the model predicts
    fn always(&self, viol: &mut Vec<String>) {
        if !self.started {
            return;
        }
        let fr = &self.frames[self.fi];
        if !fr.content.starts_with(&self.delivered) {
            viol.push(format!("the {} bytes handed out are not a prefix of the frame content", self.delivered.len()));
        }
        let d = self.dec_ref();
        if d.is_finished() && (self.cutv < fr.len || !fr.valid) {
            viol.push(if self.cutv < fr.len { format!("finished on a strict prefix ({} of {} bytes) of the frame", self.cutv, fr.len) } else { "finished although a block of the frame is invalid".to_string() });
        }
        if d.is_finished() && d.can_collect() == 0 && !self.failed {
            if self.delivered != fr.content {
                viol.push(format!("finished and drained: {} bytes handed out, content has {}", self.delivered.len(), fr.content.len()));
            }
            if d.bytes_read_from_source() != fr.len as u64 {
                viol.push(format!("finished: bytes_read_from_source {} != frame length {}", d.bytes_read_from_source(), fr.len));
            }
            let want = xxh64(&self.delivered, 0) as u32;
            if d.get_calculated_checksum() != Some(want) {
                viol.push(format!("calculated checksum {:?} != XXH64 of the bytes handed out ({:08x})", d.get_calculated_checksum(), want));
            }
            if fr.cks && d.get_checksum_from_data() != Some(want) {
                viol.push(format!("stored checksum {:?} != XXH64 of the bytes handed out", d.get_checksum_from_data()));
            }
        }
    }
    /// Finish the current frame with a plain legal driver and check the final outcome.
    fn complete(&mut self, viol: &mut Vec<String>) {
        if !self.started {
            return;
        }
        let fr = &self.frames[self.fi];
        let full = self.cutv >= fr.len;
        if let Some(e) = &self.frame_error {
            if full && fr.valid {
                viol.push(format!("a valid, complete frame was refused ({e})"));
            }
        }
        if self.failed {
            return;
        }
        let mut guard = 0;
        let mut err: Option<String> = None;
        if self.used_slice {
            // continue with the slice interface, offering everything that is left
            loop {
                guard += 1;
                if guard > 10000 {
                    viol.push("completion: decode_from_to makes no progress".into());
                    return;
                }
                let left = { let s = self.source(); s.data.len() - s.pos };
                let mut v = vec![];
                let r = self.from_to(left, 1 << 16, &mut v);
                viol.extend(v);
                if r[0] == "err" {
                    err = Some(r[1].as_str().unwrap_or("").to_string());
                    break;
                }
                if r[0] == 0 && r[1] == 0 {
                    break;
                }
            }
        } else {
            if !self.saw_last && !self.dec_ref().is_finished() {
                let r = self.decode(BlockDecodingStrategy::All);
                if r[0] == "err" {
                    err = Some(r[1].as_str().unwrap_or("").to_string());
                }
            }
            if err.is_none() {
                loop {
                    guard += 1;
                    if guard > 10000 {
                        viol.push("completion: draining makes no progress".into());
                        return;
                    }
                    let v = self.dec().collect().unwrap_or_default();
                    if v.is_empty() {
                        break;
                    }
                    self.delivered.extend(v);
                }
            }
        }
        self.always(viol);
        let fin = self.dec_ref().is_finished();
        match (&err, full && fr.valid) {
            (Some(e), true) => viol.push(format!("a valid, complete frame was refused ({e})")),
            (None, true) => {
                if !fin || self.delivered != fr.content {
                    viol.push(format!("valid frame not completed: finished={fin}, {} of {} bytes handed out", self.delivered.len(), fr.content.len()));
                }
            }
            (None, false) => {
                if fin {
                    viol.push("an invalid or truncated frame was decoded to the end".into());
                }
            }
            (Some(_), false) => {}
        }
    }
}

/// Run one program. mode: 0 = plain FrameDecoder, 1 = decoder owned by a StreamingDecoder; chunk = source fragmentation.
fn run_program(prog: &[Value], frames: &[FrameInfo], mode: u8, chunk: usize) -> Outcome {
    run_program_opts(prog, frames, mode, chunk, true, false)
}

thread_local! {
    /// Variant of the replay in which a frame that is abandoned by a Reset is first drained as far as collect() allows and
    /// the bytes checked (they are gone after the Reset anyway): corruption in buffered, not yet delivered data is not lost
    /// with the frame.  Only one variant does it, so that state which a Reset fails to clear still shows in the others.
    static PREDRAIN: std::cell::Cell<bool> = const { std::cell::Cell::new(false) };
}

/// use_pred = false: no predictions at all (only calls that are legal for the real state, property-level checks only);
/// want_obs: record an observation per step and do not complete the frame at the end (differential runs)
fn run_program_opts(prog: &[Value], frames: &[FrameInfo], mode: u8, chunk: usize, use_pred: bool, want_obs: bool) -> Outcome {
    let decp: *mut FrameDecoder = Box::into_raw(Box::new(FrameDecoder::new()));
    DICTS.with(|d| {
        for raw in d.borrow().iter() {
            if let Ok(dict) = ruzstd::decoding::Dictionary::decode_dict(raw) {
                unsafe { &mut *decp }.add_dict(dict).unwrap();
            }
        }
    });
    let mut ex = Exec { decp, sd: None, src: Src { data: vec![], pos: 0, chunk }, fi: 0, cutv: 0, frames, delivered: vec![], chunk, mode,
        started: false, failed: false, saw_last: false, used_slice: false, frame_error: None };
    let mut out = Outcome::default();
    for (si, s) in prog.iter().enumerate() {
        let op = s["op"].as_str().unwrap();
        let args = s["args"].as_array().unwrap();
        let exp = &s["exp"];
        let au = |i: usize| args[i].as_u64().unwrap() as usize;
        let exact = use_pred && out.drift.is_none();
        let mut viol: Vec<String> = vec![];
        let mut ret: Vec<Value> = vec![];
        let mut skipped = false;
        let r = std::panic::catch_unwind(std::panic::AssertUnwindSafe(|| {
            // without predictions only calls that are legal for the real state are made
            let may_decode = exact || (ex.started && !ex.failed && !ex.saw_last && !ex.used_slice && !ex.dec_ref().is_finished());
            match op {
                "Reset" => {
                    if PREDRAIN.with(|p| p.get()) && ex.started && !ex.failed && mode == 0 {
                        let v = ex.dec().collect().unwrap_or_default();
                        ex.delivered.extend(v);
                        let fr = &frames[ex.fi];
                        if !fr.content.starts_with(&ex.delivered) {
                            viol.push(format!("the {} bytes buffered when the frame was abandoned (drained before the Reset) are not a prefix of the frame content", ex.delivered.len()));
                        }
                    }
                    ret = ex.reset(au(0) - 1, au(1))
                }
                "Decode" => {
                    if !may_decode {
                        skipped = true;
                        return;
                    }
                    let b = au(1);
                    let strat = match args[0].as_str().unwrap() {
                        "all" => BlockDecodingStrategy::All,
                        "blocks" => BlockDecodingStrategy::UptoBlocks(b),
                        _ => BlockDecodingStrategy::UptoBytes(b),
                    };
                    ret = ex.decode(strat);
                }
                "Collect" => {
                    let v = ex.dec().collect().unwrap_or_default();
                    ret.push(json!(v.len()));
                    ex.delivered.extend(v);
                }
                "Read" => {
                    let mut buf = vec![0u8; au(0)];
                    let n = Read::read(ex.dec(), &mut buf[..]).unwrap();
                    ret.push(json!(n));
                    ex.delivered.extend_from_slice(&buf[..n]);
                }
                "CollectTo" => {
                    let script: Vec<i64> = args[0].as_array().unwrap().iter().map(|x| x.as_i64().unwrap()).collect();
                    let mut sink = Sink { script, got: vec![], errs: 0 };
                    let r = ex.dec().collect_to_writer(&mut sink);
                    ret.push(json!(if r.is_ok() { "ok" } else { "err" }));
                    ret.push(json!(sink.got.len()));
                    if let Ok(n) = r {
                        if n != sink.got.len() {
                            viol.push(format!("collect_to_writer returned {n} but the sink took {} bytes", sink.got.len()));
                        }
                    } else if sink.errs == 0 {
                        viol.push("collect_to_writer returned an error although the sink never failed".into());
                    }
                    ex.delivered.extend(sink.got);
                }
                "FromTo" => {
                    let i = au(0) - 1;
                    let fresh = if exact { si == 0 || prog[si - 1]["exp"]["st"] == "none" } else { !ex.started };
                    if !exact && (ex.failed || (ex.started && i != ex.fi)) {
                        skipped = true;
                        return;
                    }
                    if fresh {
                        ex.fi = i;
                        ex.cutv = frames[i].len;
                        ex.delivered.clear();
                        ex.failed = false;
                        ex.saw_last = false;
                        ex.frame_error = None;
                        let data = frames[i].bytes.clone();
                        let s = ex.source();
                        s.data = data;
                        s.pos = 0;
                    }
                    ret = ex.from_to(au(1), au(2), &mut viol);
                }
                "SRead" => {
                    if !may_decode && !(ex.started && !ex.failed && ex.dec_ref().is_finished()) {
                        skipped = true;
                        return;
                    }
                    ret = ex.sread(au(0));
                }
                _ => panic!("op {op}"),
            }
        }));
        out.steps += 1;
        if let Err(p) = r {
            out.violations.push((si, format!("panic: {}", panic_msg(p))));
            break;
        }
        if want_obs {
            if skipped {
                out.obs.push(json!({"op": op, "skipped": true}));
            } else {
                let d = ex.dec_ref();
                out.obs.push(json!({"op": op, "ret": ret, "finished": d.is_finished(), "can_collect": d.can_collect(), "consumed": d.bytes_read_from_source(),
                    "blocks": d.blocks_decoded(), "handed_out": ex.delivered.len(), "sum": xxh64(&ex.delivered, 7) as u32}));
            }
        }
        if skipped {
            continue;
        }
        ex.always(&mut viol);
        // an error where the specification (which knows the frame is valid and complete up to here) has none, or vice versa
        if exact {
            let exp_ret = exp["ret"].as_array().unwrap();
            let is_err = |v: &Vec<Value>| v.first().map(|x| x == "err").unwrap_or(false);
            let mut early_or_late: Option<String> = None;
            if is_err(&ret) != is_err(exp_ret) && op != "CollectTo" {
                // Which call of a schedule meets a cut or an invalid block depends on how much one call decodes (as-built
                // budgets).  An error is wrong when nothing justifies it (the frame is valid and the source holds all of it);
                // a success is wrong when the call itself must fail (the header cannot be read, the window is above the
                // limit, the dictionary is unknown).  Everything else -- the failure shows up one call earlier or later than
                // in the as-built model -- is drift; whether an invalid or truncated frame ever ends "finished" is judged
                // after every call and when the frame is completed.
                let cls = exp_ret.get(1).and_then(|x| x.as_str()).unwrap_or("");
                let whole_valid = ex.started && frames[ex.fi].valid && ex.cutv >= frames[ex.fi].len;
                let must_fail_here = is_err(exp_ret) && (op == "Reset" || ["window", "dict", "hdr"].contains(&cls));
                if must_fail_here || (is_err(&ret) && (whole_valid || op == "Reset")) {
                    viol.push(format!("returned {:?} where the specification has {:?}", ret, exp_ret));
                } else {
                    early_or_late = Some(format!("returned {:?}, as-built model {:?} (a failure that is due on this source shows up in a different call)", ret, exp_ret));
                }
            }
            // collect_to_writer: whether the sink's failing answer is reached depends on how many write calls the drain makes
            // (one per physical segment of the ring: as-built layout).  What the property fixes is checked where the call is
            // made: the count is what the sink took, an error is the sink's error, the bytes are the next bytes.
            if viol.is_empty() {
                // exact comparison with the as-built model: differences are drift, not violations
                let mut diffs = vec![];
                if let Some(d) = early_or_late {
                    diffs.push(d);
                } else if &ret != exp_ret {
                    diffs.push(format!("returned {:?}, as-built model {:?}", ret, exp_ret));
                }
                let st = exp["st"].as_str().unwrap();
                if st != "none" {
                    let p = exp["P"].as_u64().unwrap() as usize;
                    let d = exp["D"].as_u64().unwrap() as usize;
                    let ffin = exp["ffin"].as_bool().unwrap();
                    let ck = exp["ck"].as_bool().unwrap();
                    let efi = exp["fi"].as_u64().unwrap() as usize - 1;
                    let fr = &frames[efi];
                    let isfin = ffin && (!fr.cks || ck);
                    let can = if isfin { p - d } else { (p - d).saturating_sub(fr.win) };
                    let dec = ex.dec_ref();
                    if st == "active" {
                        if dec.bytes_read_from_source() != exp["consumed"].as_u64().unwrap() {
                            diffs.push(format!("bytes_read_from_source {} model {}", dec.bytes_read_from_source(), exp["consumed"]));
                        }
                        if dec.blocks_decoded() != exp["nb"].as_u64().unwrap() as usize {
                            diffs.push(format!("blocks_decoded {} model {}", dec.blocks_decoded(), exp["nb"]));
                        }
                    }
                    if dec.is_finished() != isfin {
                        diffs.push(format!("is_finished {} model {}", dec.is_finished(), isfin));
                    }
                    if dec.can_collect() != can {
                        diffs.push(format!("can_collect {} model {}", dec.can_collect(), can));
                    }
                    if ex.delivered.len() != d {
                        diffs.push(format!("handed out {} bytes, model {}", ex.delivered.len(), d));
                    }
                }
                if !diffs.is_empty() {
                    out.drift = Some((si, diffs.join("; ")));
                }
            }
        }
        if !viol.is_empty() {
            out.violations.push((si, viol.join("; ")));
            break;
        }
    }
    if out.violations.is_empty() && !want_obs {
        let mut viol = vec![];
        let r = std::panic::catch_unwind(std::panic::AssertUnwindSafe(|| ex.complete(&mut viol)));
        if let Err(p) = r {
            viol.push(format!("panic while completing the frame: {}", panic_msg(p)));
        }
        if !viol.is_empty() {
            out.violations.push((prog.len(), format!("after the program, completing the frame: {}", viol.join("; "))));
        }
    }
    drop(ex.sd.take());
    unsafe { drop(Box::from_raw(decp)) };
    out
}

/// fddiff <frames.json> <programs.ndjson> <report.json> <stride>
/// C07 as a differential statement: every part of a program that starts with a Reset on a USED decoder is run again on a
/// fresh decoder; what every call returns and every accessor shows afterwards (finished, collectable, consumed, blocks,
/// bytes handed out and their hash) must be the same in both runs.  No prediction of the model is involved, so any
/// refactoring that treats fresh and reused decoders alike passes.
pub fn fddiff(args: &[String]) {
    quiet_panics();
    let frames = load_frames(&args[0]);
    let f = std::io::BufReader::new(std::fs::File::open(&args[1]).unwrap());
    let stride: usize = args.get(3).and_then(|s| s.parse().ok()).unwrap_or(1);
    let (mut nprog, mut nseg, mut bad, mut ncmp) = (0u64, 0u64, 0u64, 0u64);
    let mut mism: Vec<Value> = vec![];
    for (li, line) in f.lines().enumerate() {
        if li % stride != 0 {
            continue;
        }
        let prog: Vec<Value> = serde_json::from_str(&line.unwrap()).unwrap();
        let resets: Vec<usize> = (0..prog.len()).filter(|i| prog[*i]["op"] == "Reset").collect();
        if resets.iter().filter(|i| **i > 0).count() == 0 {
            continue;
        }
        nprog += 1;
        let has_sread = prog.iter().any(|s| s["op"] == "SRead");
        let one_variant = args.get(4).map(|s| s == "1").unwrap_or(false);
        for (vi, (mode, chunk)) in [(if has_sread { 1u8 } else { 0u8 }, 0usize), (1, 3)].into_iter().enumerate() {
            if one_variant && vi == 1 {
                break;
            }
            let whole = run_program_opts(&prog, &frames, mode, chunk, false, true);
            if !whole.violations.is_empty() {
                continue; // reported by the replay itself
            }
            for (k, &r) in resets.iter().enumerate() {
                if r == 0 || r >= whole.obs.len() {
                    continue;
                }
                let end = resets.get(k + 1).cloned().unwrap_or(prog.len()).min(whole.obs.len());
                let seg = &prog[r..end];
                nseg += 1;
                let fresh = run_program_opts(seg, &frames, mode, chunk, false, true);
                let mut n = fresh.obs.len().min(end - r);
                // a Reset that is refused (unreadable header, window, dictionary) leaves a used decoder with what it had and a
                // fresh one with nothing: only the refusal itself is comparable
                let refused = fresh.obs.first().map(|o| o["ret"][0] == "err").unwrap_or(false);
                if refused {
                    n = n.min(1);
                }
                for j in 0..n {
                    ncmp += 1;
                    let same = if refused { fresh.obs[j]["ret"] == whole.obs[r + j]["ret"] } else { fresh.obs[j] == whole.obs[r + j] };
                    if !same {
                        bad += 1;
                        if mism.len() < 12 {
                            mism.push(json!({"program": li, "mode": mode, "chunk": chunk, "history": prog[..r].iter().map(|s| json!([s["op"], s["args"]])).collect::<Vec<_>>(),
                                "segment": seg.iter().map(|s| json!([s["op"], s["args"]])).collect::<Vec<_>>(), "step_in_segment": j,
                                "errors": [format!("after {} {}: a fresh decoder shows {} but the reused one {}", seg[j]["op"].as_str().unwrap(), seg[j]["args"], fresh.obs[j], whole.obs[r + j])]}));
                        }
                        break;
                    }
                }
            }
        }
    }
    write_json(&args[2], &json!({"programs_with_reuse": nprog, "segments_compared": nseg, "observations_compared": ncmp, "mismatches": bad, "first": mism}));
}

/// fdexec <frames.json> <programs.ndjson> <report.json>
pub fn fdexec(args: &[String]) {
    quiet_panics();
    let frames = load_frames(&args[0]);
    let f = std::io::BufReader::new(std::fs::File::open(&args[1]).unwrap());
    let (mut nprog, mut nstep, mut bad, mut runs, mut drifted) = (0u64, 0u64, 0u64, 0u64, 0u64);
    let mut mism: Vec<Value> = vec![];
    let mut drifts: Vec<Value> = vec![];
    let mut kinds = std::collections::BTreeMap::<String, u64>::new();
    let mut sigs = std::collections::BTreeMap::<String, u64>::new();
    let mut dsigs = std::collections::BTreeMap::<String, u64>::new();
    for (li, line) in f.lines().enumerate() {
        let prog: Vec<Value> = serde_json::from_str(&line.unwrap()).unwrap();
        nprog += 1;
        nstep += prog.len() as u64;
        for s in &prog {
            *kinds.entry(s["op"].as_str().unwrap().to_string()).or_insert(0) += 1;
        }
        let has_sread = prog.iter().any(|s| s["op"] == "SRead");
        let mut variants: Vec<(u8, usize)> = vec![(1, 0)];
        if !has_sread {
            variants.push((0, 0));
            variants.push((0, if li % 2 == 0 { 1 } else { 7 }));
        } else {
            variants.push((1, if li % 2 == 0 { 1 } else { 5 }));
        }
        for (mode, chunk) in variants {
            runs += 1;
            PREDRAIN.with(|p| p.set(mode == 0 && chunk == 0));
            let o = run_program(&prog, &frames, mode, chunk);
            PREDRAIN.with(|p| p.set(false));
            if let Some((si, d)) = &o.drift {
                drifted += 1;
                let s = &prog[*si];
                *dsigs.entry(format!("{}|{}", s["op"].as_str().unwrap(), d.split(' ').next().unwrap_or(""))).or_insert(0) += 1;
                if drifts.len() < 5 {
                    drifts.push(json!({"program": li, "mode": mode, "step": si, "op": s["op"], "args": s["args"], "difference": d}));
                }
            }
            if let Some((si, msg)) = o.violations.first() {
                bad += 1;
                let sidx = (*si).min(prog.len() - 1);
                let s = &prog[sidx];
                *sigs.entry(format!("{}|{}", s["op"].as_str().unwrap(), msg.split(' ').take(3).collect::<Vec<_>>().join(" "))).or_insert(0) += 1;
                if mism.len() < 20 {
                    mism.push(json!({"program": li, "mode": mode, "chunk": chunk, "step": si, "op": s["op"], "args": s["args"], "errors": [msg],
                        "state_before": if sidx > 0 { prog[sidx - 1]["exp"].clone() } else { json!("init") }, "prefix": prog[..=sidx].to_vec()}));
                }
                break;
            }
        }
    }
    write_json(&args[2], &json!({"programs": nprog, "steps": nstep, "runs": runs, "mismatches": bad, "first": mism, "ops": kinds, "signatures": sigs,
        "drifted_runs": drifted, "drift_examples": drifts, "drift_signatures": dsigs}));
}

/// fdrand <seed> <schedules per frame> <index.json> <report.json>
/// Random legal driver programs over real frames (corpus / libzstd / ruzstd); oracle = the original bytes.
pub fn fdrand(args: &[String]) {
    use rand::{rngs::SmallRng, Rng, SeedableRng};
    quiet_panics();
    let seed: u64 = args[0].parse().unwrap();
    let per: usize = args[1].parse().unwrap();
    let idx: Value = serde_json::from_str(&std::fs::read_to_string(&args[2]).unwrap()).unwrap();
    let mut rng = SmallRng::seed_from_u64(seed ^ 0xfd);
    let mut dec = FrameDecoder::new();
    dec.set_max_window_size(1 << 31);
    let (mut runs, mut bad, mut calls) = (0u64, 0u64, 0u64);
    let mut mism: Vec<Value> = vec![];
    let mut modes = std::collections::BTreeMap::<String, u64>::new();
    let mut samples: Vec<Value> = vec![];
    for fr in idx["frames"].as_array().unwrap() {
        let frame = std::fs::read(fr["frame"].as_str().unwrap()).unwrap();
        let content = std::fs::read(fr["content"].as_str().unwrap()).unwrap();
        let lay = match walk_frame(&frame) {
            Ok(l) => l,
            Err(_) => continue,
        };
        let flen = lay["len"].as_u64().unwrap() as usize;
        let win = lay["win"].as_u64().unwrap() as usize;
        let cks = lay["cks"].as_bool().unwrap();
        for k in 0..per {
            runs += 1;
            let mode = ["plain", "stream", "slice"][rng.gen_range(0..3)];
            *modes.entry(mode.to_string()).or_insert(0) += 1;
            let chunk = if rng.gen_bool(0.5) { 0 } else { rng.gen_range(1..5000) };
            let abandon = rng.gen_bool(0.1);
            let mut oplog: Vec<Value> = vec![json!({"frame": fr["name"], "mode": mode, "chunk": chunk})];
            let mut delivered: Vec<u8> = Vec::with_capacity(content.len());
            let mut errs: Vec<String> = vec![];
            let mut script = |rng: &mut SmallRng| -> Vec<i64> {
                (0..rng.gen_range(0..4)).map(|_| match rng.gen_range(0..6) { 0 => -1, 1 => 0, 2 => -2, _ => rng.gen_range(1..70000) }).collect()
            };
            let r = std::panic::catch_unwind(std::panic::AssertUnwindSafe(|| -> Result<(), String> {
                let mut drain = |dec: &mut FrameDecoder, rng: &mut SmallRng, delivered: &mut Vec<u8>, oplog: &mut Vec<Value>, calls: &mut u64| -> Result<(), String> {
                    *calls += 1;
                    match rng.gen_range(0..4) {
                        0 => {
                            let before = dec.can_collect();
                            let v = dec.collect().unwrap_or_default();
                            if v.len() != before {
                                return Err(format!("collect gave {} bytes, can_collect said {}", v.len(), before));
                            }
                            oplog.push(json!(["collect", v.len()]));
                            delivered.extend(v);
                        }
                        1 => {
                            let n = [0usize, 1, 7, 1000, 4096, 70000, 1 << 20][rng.gen_range(0..7)];
                            let mut buf = vec![0u8; n];
                            let k = Read::read(dec, &mut buf).map_err(|e| e.to_string())?;
                            oplog.push(json!(["read", n, k]));
                            delivered.extend_from_slice(&buf[..k]);
                        }
                        _ => {
                            let sc = script(rng);
                            let mut sink = Sink { script: sc.clone(), got: vec![], errs: 0 };
                            let r = dec.collect_to_writer(&mut sink);
                            if let Ok(n) = r {
                                if n != sink.got.len() {
                                    return Err(format!("collect_to_writer returned {n}, sink took {}", sink.got.len()));
                                }
                            }
                            oplog.push(json!(["collect_to_writer", sc, sink.got.len()]));
                            delivered.extend(sink.got);
                        }
                    }
                    Ok(())
                };
                match mode {
                    "plain" => {
                        let mut src = Src { data: frame.clone(), pos: 0, chunk };
                        dec.reset(&mut src).map_err(|e| format!("reset: {e}"))?;
                        let mut guard = 0;
                        while !dec.is_finished() {
                            guard += 1;
                            if guard > 200000 {
                                return Err("no progress (hang)".into());
                            }
                            if abandon && dec.blocks_decoded() > 0 && rng.gen_bool(0.3) {
                                return Ok(());
                            }
                            let strat = match rng.gen_range(0..4) {
                                0 => BlockDecodingStrategy::All,
                                1 => BlockDecodingStrategy::UptoBlocks(rng.gen_range(0..4)),
                                _ => BlockDecodingStrategy::UptoBytes([0usize, 1, 1000, 100_000, 1 << 20][rng.gen_range(0..5)]),
                            };
                            calls += 1;
                            let held_before = delivered.len();
                            dec.decode_blocks(&mut src, strat).map_err(|e| format!("decode_blocks: {e}"))?;
                            let _ = held_before;
                            for _ in 0..rng.gen_range(0..3) {
                                drain(&mut dec, &mut rng, &mut delivered, &mut oplog, &mut calls)?;
                            }
                        }
                        let mut guard = 0;
                        while dec.can_collect() > 0 {
                            guard += 1;
                            if guard > 100000 {
                                return Err("drain makes no progress (hang)".into());
                            }
                            drain(&mut dec, &mut rng, &mut delivered, &mut oplog, &mut calls)?;
                        }
                        if src.pos != flen {
                            return Err(format!("source position {} after the frame, frame length {}", src.pos, flen));
                        }
                    }
                    "stream" => {
                        let src = Src { data: frame.clone(), pos: 0, chunk };
                        let mut sd = StreamingDecoder::new_with_decoder(src, &mut dec).map_err(|e| format!("new: {e}"))?;
                        let mut guard = 0;
                        loop {
                            guard += 1;
                            if guard > 2_000_000 {
                                return Err("no progress (hang)".into());
                            }
                            let n = [1usize, 2, 100, 4096, 65536, 200_000][rng.gen_range(0..6)];
                            let mut buf = vec![0u8; n];
                            calls += 1;
                            let k = sd.read(&mut buf).map_err(|e| format!("streaming read: {e}"))?;
                            if k == 0 {
                                break;
                            }
                            delivered.extend_from_slice(&buf[..k]);
                            if abandon && rng.gen_bool(0.01) {
                                return Ok(());
                            }
                        }
                        let pos = sd.get_ref().pos;
                        drop(sd);
                        if pos != flen {
                            return Err(format!("source position {} after the frame, frame length {}", pos, flen));
                        }
                    }
                    _ => {
                        // slice to slice: a fresh decoder state is needed for the first call to initialise the frame
                        dec = { let mut d = FrameDecoder::new(); d.set_max_window_size(1 << 31); d };
                        let mut pos = 0usize;
                        let mut offer = rng.gen_range(18..200_000usize);
                        let mut guard = 0;
                        let mut idle = 0;
                        loop {
                            guard += 1;
                            if guard > 2_000_000 || idle > 200 {
                                return Err("decode_from_to makes no progress (stuck)".into());
                            }
                            let t = [0usize, 1, 100, 4096, 65536, 300_000][rng.gen_range(0..6)];
                            let mut tgt = vec![0u8; t];
                            let end = (pos + offer).min(frame.len());
                            calls += 1;
                            let before = if pos == 0 { 0 } else { dec.bytes_read_from_source() };
                            match dec.decode_from_to(&frame[pos..end], &mut tgt) {
                                Err(e) => {
                                    if pos == 0 && end < frame.len() && end < 18 {
                                        offer += 1;
                                        continue;
                                    }
                                    return Err(format!("decode_from_to: {e}"));
                                }
                                Ok((rd, wr)) => {
                                    if rd > end - pos {
                                        return Err(format!("decode_from_to reports {rd} consumed bytes, was given {}", end - pos));
                                    }
                                    if dec.bytes_read_from_source() - before != rd as u64 {
                                        return Err(format!("decode_from_to reports {rd} consumed bytes, counter advanced by {}", dec.bytes_read_from_source() - before));
                                    }
                                    pos += rd;
                                    delivered.extend_from_slice(&tgt[..wr]);
                                    if rd == 0 && wr == 0 {
                                        idle += 1;
                                        if dec.is_finished() && dec.can_collect() == 0 && t > 0 {
                                            break;
                                        }
                                        // no progress: offer more input (a whole block must be visible) and a real target
                                        offer = (offer * 2).min(140_000).max(offer + 1);
                                    } else {
                                        idle = 0;
                                        if rng.gen_bool(0.3) {
                                            offer = rng.gen_range(1..200_000usize);
                                        }
                                    }
                                }
                            }
                            if abandon && rng.gen_bool(0.02) {
                                return Ok(());
                            }
                        }
                        if pos != flen {
                            return Err(format!("consumed {} bytes in total, frame length {}", pos, flen));
                        }
                    }
                }
                // final checks (frame completed)
                if !dec.is_finished() {
                    return Err("not finished at the end".into());
                }
                if dec.bytes_read_from_source() != flen as u64 {
                    return Err(format!("bytes_read_from_source {} != frame length {}", dec.bytes_read_from_source(), flen));
                }
                if delivered != content {
                    let p = delivered.iter().zip(content.iter()).position(|(a, b)| a != b).unwrap_or(delivered.len().min(content.len()));
                    return Err(format!("delivered {} bytes, content {} bytes, first difference at {}", delivered.len(), content.len(), p));
                }
                let want = xxh64(&delivered, 0) as u32;
                if dec.get_calculated_checksum() != Some(want) {
                    return Err(format!("calculated checksum {:?} != XXH64 of the delivered bytes {:08x}", dec.get_calculated_checksum(), want));
                }
                if cks && dec.get_checksum_from_data() != Some(want) {
                    return Err("stored checksum differs from XXH64 of the delivered bytes".into());
                }
                if lay["fcs_present"].as_bool().unwrap() && dec.content_size() != content.len() as u64 {
                    return Err(format!("content_size() {} != {}", dec.content_size(), content.len()));
                }
                Ok(())
            }));
            match r {
                Err(p) => errs.push(format!("panic: {}", panic_msg(p))),
                Ok(Err(e)) => errs.push(e),
                Ok(Ok(())) => {}
            }
            if errs.is_empty() && !content.starts_with(&delivered) {
                errs.push("delivered bytes are not a prefix of the content".into());
            }
            if !errs.is_empty() {
                bad += 1;
                if mism.len() < 10 {
                    let n = oplog.len();
                    mism.push(json!({"frame": fr["name"], "frame_path": fr["frame"], "mode": mode, "chunk": chunk, "win": win, "schedule": k, "errors": errs, "last_ops": oplog[n.saturating_sub(12)..].to_vec()}));
                }
                // a failed decoder is reset by the next schedule (C03/C07: reuse after failure)
            } else if samples.len() < 3 && oplog.len() > 2 {
                samples.push(json!(oplog[..oplog.len().min(10)].to_vec()));
            }
        }
    }
    write_json(&args[3], &json!({"frames": idx["frames"].as_array().unwrap().len(), "runs": runs, "calls": calls, "mismatches": bad, "first": mism, "modes": modes, "samples": samples}));
}

/// fdtrace <seed> <per> <index.json> <trace.ndjson> <frames.json> <report.json>
/// Random legal schedules on real frames, recorded as one event per public call (parameters, result, observable state
/// afterwards) for Trace_FrameDecoder.tla; the abstract frames (walker + regenerated block sizes) go to <frames.json>.
pub fn fdtrace(args: &[String]) {
    use rand::{rngs::SmallRng, Rng, SeedableRng};
    use ruzstd::verif;
    use std::io::{BufWriter, Write};
    quiet_panics();
    let seed: u64 = args[0].parse().unwrap();
    let per: usize = args[1].parse().unwrap();
    let idx: Value = serde_json::from_str(&std::fs::read_to_string(&args[2]).unwrap()).unwrap();
    let mut tw = BufWriter::new(std::fs::File::create(&args[3]).unwrap());
    let mut rng = SmallRng::seed_from_u64(seed ^ 0xfd7);
    let mut frames_out: Vec<Value> = vec![];
    let (mut runs, mut nev, mut skipped, mut truncated_runs, mut reused) = (0u64, 0u64, 0u64, 0u64, 0u64);
    let mut modes = std::collections::BTreeMap::<String, u64>::new();
    let mut problems: Vec<Value> = vec![];
    let mut dec = FrameDecoder::new();
    dec.set_max_window_size(1 << 31);
    let mut fresh = true; // the decoder has not been used since it was created (a "new" event was written)
    let mut emit = |tw: &mut BufWriter<std::fs::File>, v: Value, nev: &mut u64| {
        serde_json::to_writer(&mut *tw, &v).unwrap();
        tw.write_all(b"\n").unwrap();
        *nev += 1;
    };
    emit(&mut tw, json!({"ev": "new"}), &mut nev);
    for fr in idx["frames"].as_array().unwrap() {
        let frame = std::fs::read(fr["frame"].as_str().unwrap()).unwrap();
        let content = std::fs::read(fr["content"].as_str().unwrap()).unwrap();
        let lay = match walk_frame(&frame) {
            Ok(l) => l,
            Err(_) => {
                skipped += 1;
                continue;
            }
        };
        let blocks = lay["blocks"].as_array().unwrap();
        if frame.len() > 3_000_000 || blocks.len() > 60 || lay["dict_id"].as_u64().unwrap() != 0 {
            skipped += 1;
            continue;
        }
        // regenerated size per block from the decoder's block events, constrained by the content length
        verif::take();
        verif::set_mask(verif::DEC);
        let mut o = Vec::with_capacity(content.len() + 16);
        let ok = { let mut d = FrameDecoder::new(); d.set_max_window_size(1 << 31); d.decode_all_to_vec(&frame, &mut o).is_ok() };
        let evs = verif::take();
        verif::set_mask(0);
        let ds: Vec<u64> = evs.iter().filter(|e| e.kind == "block").map(|e| e.args[3]).collect();
        if !ok || ds.len() != blocks.len() || ds.iter().sum::<u64>() != content.len() as u64 || o != content {
            skipped += 1;
            continue;
        }
        let mut consistent = true;
        let abs_blocks: Vec<Value> = blocks.iter().zip(ds.iter()).map(|(b, d)| {
            let ty = b["type"].as_u64().unwrap();
            let size = b["size"].as_u64().unwrap();
            if ty < 2 && size != *d {
                consistent = false; // raw / RLE blocks regenerate exactly their size field
            }
            let kind = ["raw", "rle", "comp"][ty as usize];
            json!({"kind": kind, "c": b["c"], "d": d, "last": b["last"], "ok": true})
        }).collect();
        if !consistent {
            problems.push(json!({"frame": fr["name"], "problem": "a raw / RLE block regenerates a size other than its size field"}));
            continue;
        }
        let flen = lay["len"].as_u64().unwrap() as usize;
        frames_out.push(json!({"name": fr["name"], "hdr": lay["hdr"], "win": lay["win"], "cks": lay["cks"], "len": flen, "blocks": abs_blocks, "rerr": ""}));
        let fidx = frames_out.len();
        for _k in 0..per {
            runs += 1;
            let mode = ["plain", "stream", "slice"][rng.gen_range(0..3)];
            *modes.entry(mode.to_string()).or_insert(0) += 1;
            let chunk = if rng.gen_bool(0.5) { 0 } else { rng.gen_range(1..5000) };
            let cut = if mode != "slice" && rng.gen_bool(0.2) { truncated_runs += 1; rng.gen_range(0..flen) } else { flen };
            // a fresh decoder for slice mode and now and then; otherwise the decoder is reused (reset in any state)
            if mode == "slice" || rng.gen_bool(0.3) {
                if !fresh {
                    dec = FrameDecoder::new();
                    dec.set_max_window_size(1 << 31);
                    emit(&mut tw, json!({"ev": "new"}), &mut nev);
                    fresh = true;
                }
            } else if !fresh {
                reused += 1;
            }
            let mut dcount: usize = 0; // bytes handed out for the current frame
            let r = std::panic::catch_unwind(std::panic::AssertUnwindSafe(|| {
                let post = |dec: &FrameDecoder, dcount: usize| -> Value { json!({"consumed": dec.bytes_read_from_source(), "fin": if dec.is_finished() { "y" } else { "n" }, "can": dec.can_collect(), "delivered": dcount}) };
                let merge = |mut a: Value, b: Value| -> Value {
                    for (k, v) in b.as_object().unwrap() {
                        a[k] = v.clone();
                    }
                    a
                };
                let mut drain = |dec: &mut FrameDecoder, rng: &mut SmallRng, dcount: &mut usize, tw: &mut BufWriter<std::fs::File>, nev: &mut u64| {
                    match rng.gen_range(0..4) {
                        0 => {
                            let v = dec.collect().unwrap_or_default();
                            *dcount += v.len();
                            emit(tw, merge(json!({"ev": "collect", "n": v.len()}), post(dec, *dcount)), nev);
                        }
                        1 => {
                            let n = [0usize, 1, 7, 1000, 4096, 70000, 1 << 20][rng.gen_range(0..7)];
                            let mut buf = vec![0u8; n];
                            let k = Read::read(dec, &mut buf).unwrap_or(0);
                            *dcount += k;
                            emit(tw, merge(json!({"ev": "read", "n": n, "k": k}), post(dec, *dcount)), nev);
                        }
                        _ => {
                            let sc: Vec<i64> = (0..rng.gen_range(0..4)).map(|_| match rng.gen_range(0..6) { 0 => -1, 1 => 0, 2 => -2, _ => rng.gen_range(1..70000) }).collect();
                            let mut sink = Sink { script: sc.clone(), got: vec![], errs: 0 };
                            let r = dec.collect_to_writer(&mut sink);
                            *dcount += sink.got.len();
                            emit(tw, merge(json!({"ev": "collect_to", "script": sc, "n": sink.got.len(), "err": r.is_err()}), post(dec, *dcount)), nev);
                        }
                    }
                };
                match mode {
                    "plain" => {
                        let mut src = Src { data: frame[..cut].to_vec(), pos: 0, chunk };
                        let r = dec.reset(&mut src);
                        fresh = false;
                        if r.is_err() {
                            // nothing else is specified about the decoder after a refused header: start over
                            emit(&mut tw, json!({"ev": "reset", "i": fidx, "cut": cut, "res": "err", "consumed": -1, "fin": "?", "can": -1, "delivered": -1}), &mut nev);
                            return true;
                        }
                        emit(&mut tw, merge(json!({"ev": "reset", "i": fidx, "cut": cut, "res": "ok"}), post(&dec, 0)), &mut nev);
                        let mut guard = 0;
                        while !dec.is_finished() && guard < 5000 {
                            guard += 1;
                            let (kind, budget, strat) = match rng.gen_range(0..4) {
                                0 => ("all", 0usize, BlockDecodingStrategy::All),
                                1 => { let b = rng.gen_range(0..4); ("blocks", b, BlockDecodingStrategy::UptoBlocks(b)) }
                                _ => { let b = [0usize, 1, 1000, 100_000, 1 << 20][rng.gen_range(0..5)]; ("bytes", b, BlockDecodingStrategy::UptoBytes(b)) }
                            };
                            let r = dec.decode_blocks(&mut src, strat);
                            emit(&mut tw, merge(json!({"ev": "decode", "kind": kind, "budget": budget, "res": if r.is_ok() { "ok" } else { "err" }}), post(&dec, dcount)), &mut nev);
                            if r.is_err() {
                                for _ in 0..rng.gen_range(0..3) {
                                    drain(&mut dec, &mut rng, &mut dcount, &mut tw, &mut nev);
                                }
                                return false;
                            }
                            for _ in 0..rng.gen_range(0..3) {
                                drain(&mut dec, &mut rng, &mut dcount, &mut tw, &mut nev);
                            }
                        }
                        let mut guard = 0;
                        while dec.can_collect() > 0 && guard < 1000 {
                            guard += 1;
                            drain(&mut dec, &mut rng, &mut dcount, &mut tw, &mut nev);
                        }
                        false
                    }
                    "stream" => {
                        let src = Src { data: frame[..cut].to_vec(), pos: 0, chunk };
                        fresh = false;
                        let mut sd = match StreamingDecoder::new_with_decoder(src, &mut dec) {
                            Err(_) => {
                                emit(&mut tw, json!({"ev": "reset", "i": fidx, "cut": cut, "res": "err", "consumed": -1, "fin": "?", "can": -1, "delivered": -1}), &mut nev);
                                return true;
                            }
                            Ok(sd) => sd,
                        };
                        emit(&mut tw, merge(json!({"ev": "reset", "i": fidx, "cut": cut, "res": "ok"}), post(&sd.decoder, 0)), &mut nev);
                        for _ in 0..5000 {
                            let n = [1usize, 2, 100, 4096, 65536, 200_000][rng.gen_range(0..6)];
                            let mut buf = vec![0u8; n];
                            match sd.read(&mut buf) {
                                Err(_) => {
                                    emit(&mut tw, merge(json!({"ev": "sread", "n": n, "k": 0, "res": "err"}), post(&sd.decoder, dcount)), &mut nev);
                                    break;
                                }
                                Ok(k) => {
                                    dcount += k;
                                    emit(&mut tw, merge(json!({"ev": "sread", "n": n, "k": k, "res": "ok"}), post(&sd.decoder, dcount)), &mut nev);
                                    if k == 0 {
                                        break;
                                    }
                                }
                            }
                        }
                        false
                    }
                    _ => {
                        let mut pos = 0usize;
                        let mut offer = rng.gen_range(1..200_000usize);
                        let mut idle = 0;
                        fresh = false;
                        for _ in 0..20000 {
                            let t = [0usize, 1, 100, 4096, 65536, 300_000][rng.gen_range(0..6)];
                            let mut tgt = vec![0u8; t];
                            let end = (pos + offer).min(frame.len());
                            match dec.decode_from_to(&frame[pos..end], &mut tgt) {
                                Err(_) => {
                                    emit(&mut tw, json!({"ev": "from_to", "i": fidx, "offer": end - pos, "t": t, "res": "err", "rd": 0, "wr": 0, "consumed": -1, "fin": "?", "can": -1, "delivered": dcount}), &mut nev);
                                    if pos == 0 && end < frame.len() && end < 18 {
                                        offer += 1 + rng.gen_range(0..6);
                                        continue; // the header was not complete: still a fresh decoder
                                    }
                                    return false;
                                }
                                Ok((rd, wr)) => {
                                    pos += rd;
                                    dcount += wr;
                                    emit(&mut tw, merge(json!({"ev": "from_to", "i": fidx, "offer": end - pos + rd, "t": t, "res": "ok", "rd": rd, "wr": wr}), post(&dec, dcount)), &mut nev);
                                    if rd == 0 && wr == 0 {
                                        idle += 1;
                                        if (dec.is_finished() && dec.can_collect() == 0 && t > 0) || idle > 40 {
                                            break;
                                        }
                                        offer = (offer * 2).min(140_000).max(offer + 1);
                                    } else {
                                        idle = 0;
                                        if rng.gen_bool(0.3) {
                                            offer = rng.gen_range(1..200_000usize);
                                        }
                                    }
                                }
                            }
                        }
                        false
                    }
                }
            }));
            match r {
                Err(p) => {
                    problems.push(json!({"frame": fr["name"], "mode": mode, "problem": format!("panic: {}", panic_msg(p))}));
                    dec = FrameDecoder::new();
                    dec.set_max_window_size(1 << 31);
                    emit(&mut tw, json!({"ev": "new"}), &mut nev);
                    fresh = true;
                }
                Ok(start_over) => {
                    if start_over {
                        dec = FrameDecoder::new();
                        dec.set_max_window_size(1 << 31);
                        emit(&mut tw, json!({"ev": "new"}), &mut nev);
                        fresh = true;
                    }
                }
            }
        }
    }
    tw.flush().unwrap();
    write_json(&args[4], &json!({"frames": frames_out, "tool_errors": []}));
    write_json(&args[5], &json!({"frames": frames_out.len(), "skipped_frames": skipped, "runs": runs, "events": nev, "modes": modes, "truncated_runs": truncated_runs,
        "runs_on_a_reused_decoder": reused, "problems": problems}));
}

// ---------------------------------------------------------------------------------------------
// C10: multi-frame calls and the exhaustive truncation sweep
// ---------------------------------------------------------------------------------------------

fn skippable(magic_low: u8, payload: &[u8], declared: u32) -> Vec<u8> {
    let mut v = vec![0x50 + magic_low, 0x2A, 0x4D, 0x18];
    v.extend_from_slice(&declared.to_le_bytes());
    v.extend_from_slice(payload);
    v
}

/// mfitems <out.json>: the item alphabet of MultiFrame.tla with bytes
pub fn mfitems(args: &[String]) {
    let set = frame_set("quick");
    let get = |n: &str| build(set.iter().find(|s| s.name == n).unwrap());
    let mut items: Vec<Value> = vec![];
    let mut push = |name: &str, kind: &str, bytes: Vec<u8>, content: Vec<u8>, err: &str, tail: bool| {
        items.push(json!({"name": name, "kind": kind, "len": bytes.len(), "size": content.len(), "err": err, "tail": tail, "hex": hex(&bytes), "content_hex": hex(&content)}));
    };
    let f1 = get("single5");
    let f2 = get("rle3_cks");
    let f3 = get("empty_last");
    let f4 = get("reach");
    push("single5", "frame", f1.bytes.clone(), f1.content.clone(), "", false);
    push("rle3_cks", "frame", f2.bytes.clone(), f2.content.clone(), "", false);
    push("empty_last", "frame", f3.bytes.clone(), f3.content.clone(), "", false);
    push("reach", "frame", f4.bytes.clone(), f4.content.clone(), "", false);
    push("skip0", "skip", skippable(0, &[], 0), vec![], "", false);
    push("skip7", "skip", skippable(0xF, &[1, 2, 3, 4, 5, 6, 7], 7), vec![], "", false);
    push("skip_trunc", "bad", skippable(3, &[1, 2, 3], 7), vec![], "skip", true);
    push("skip_hdr_trunc", "bad", skippable(3, &[], 7)[..6].to_vec(), vec![], "hdr", true);
    push("garbage2", "bad", vec![0xAA, 0xBB], vec![], "hdr", true);
    push("garbage9", "bad", vec![0xAA, 0xBB, 0xCC, 0xDD, 1, 2, 3, 4, 5], vec![], "hdr", false);
    let ft = f2.bytes[..f2.bytes.len() - 2].to_vec();
    push("frame_trunc_cksum", "bad", ft, vec![], "cksum", true);
    let ft2 = f4.bytes[..f4.bytes.len() - 20].to_vec();
    push("frame_trunc_body", "bad", ft2, vec![], "body", true);
    let fi = get("probe_treeless");
    push("frame_invalid_block", "bad", fi.bytes.clone(), vec![], "body", false);
    write_json(&args[0], &json!({ "items": items }));
}

/// mfexec <items.json> <cases.ndjson> <report.json>
pub fn mfexec(args: &[String]) {
    quiet_panics();
    let items: Value = serde_json::from_str(&std::fs::read_to_string(&args[0]).unwrap()).unwrap();
    let items: Vec<(Vec<u8>, Vec<u8>)> = items["items"].as_array().unwrap().iter().map(|i| (unhex(i["hex"].as_str().unwrap()), unhex(i["content_hex"].as_str().unwrap()))).collect();
    let f = std::io::BufReader::new(std::fs::File::open(&args[1]).unwrap());
    let mut dec = FrameDecoder::new();
    let (mut n, mut bad, mut drift) = (0u64, 0u64, 0u64);
    let mut mism: Vec<Value> = vec![];
    let mut classes = std::collections::BTreeMap::<String, u64>::new();
    let mut samples: Vec<Value> = vec![];
    for line in f.lines() {
        let case: Value = serde_json::from_str(&line.unwrap()).unwrap();
        n += 1;
        let seq: Vec<usize> = case["items"].as_array().unwrap().iter().map(|x| x.as_u64().unwrap() as usize - 1).collect();
        let cap = case["cap"].as_u64().unwrap() as usize;
        let exp_ok = case["result"][0] == "ok";
        let mut input = vec![];
        let mut content = vec![];
        for &i in &seq {
            input.extend_from_slice(&items[i].0);
            content.extend_from_slice(&items[i].1);
        }
        *classes.entry(if exp_ok { "ok".to_string() } else { case["result"][1].as_str().unwrap().to_string() }).or_insert(0) += 1;
        let mut errs: Vec<String> = vec![];
        let mut drifts: Vec<String> = vec![];
        let r = std::panic::catch_unwind(std::panic::AssertUnwindSafe(|| {
            // decode_all into a slice of exactly `cap` bytes, guarded by sentinels on both sides
            let mut buf = vec![0xEEu8; cap + 16];
            let r = dec.decode_all(&input, &mut buf[8..8 + cap]);
            if buf[..8].iter().any(|b| *b != 0xEE) || buf[8 + cap..].iter().any(|b| *b != 0xEE) {
                errs.push("decode_all wrote outside the target".into());
            }
            match (&r, exp_ok) {
                (Ok(w), true) => {
                    if *w != content.len() || buf[8..8 + *w] != content[..] {
                        errs.push(format!("decode_all returned {w}, content has {} bytes (or bytes differ)", content.len()));
                    }
                }
                (Ok(w), false) => errs.push(format!("decode_all returned Ok({w}) where {} is specified", case["result"])),
                (Err(e), true) => errs.push(format!("decode_all failed ({}) on well-formed input that fits", err_class(e))),
                (Err(e), false) => {
                    if err_class(e) != case["result"][1].as_str().unwrap() {
                        drifts.push(format!("error class {} model {}", err_class(e), case["result"][1]));
                    }
                }
            }
            // decode_all_to_vec: extra capacity of exactly cap
            let mut v: Vec<u8> = Vec::with_capacity(3 + cap);
            v.extend_from_slice(&[1, 2, 3]);
            if v.capacity() == 3 + cap {
                let ptr = v.as_ptr();
                let r2 = dec.decode_all_to_vec(&input, &mut v);
                if v.capacity() != 3 + cap || v.as_ptr() != ptr {
                    errs.push("decode_all_to_vec reallocated the vector".into());
                }
                if v[..3] != [1, 2, 3] {
                    errs.push("decode_all_to_vec changed existing elements".into());
                }
                match (&r2, exp_ok) {
                    (Ok(()), true) => {
                        if v[3..] != content[..] {
                            errs.push(format!("decode_all_to_vec: vector has {} new bytes, content {}", v.len() - 3, content.len()));
                        }
                    }
                    (Ok(()), false) => errs.push(format!("decode_all_to_vec returned Ok where {} is specified", case["result"])),
                    (Err(e), true) => errs.push(format!("decode_all_to_vec failed ({}) on well-formed input that fits", err_class(e))),
                    (Err(_), false) => {
                        if v.len() != 3 {
                            errs.push(format!("decode_all_to_vec changed the vector length to {} on failure", v.len()));
                        }
                    }
                }
            }
        }));
        if let Err(p) = r {
            errs.push(format!("panic: {}", panic_msg(p)));
            dec = FrameDecoder::new();
        }
        if !drifts.is_empty() {
            drift += 1;
        }
        if !errs.is_empty() {
            bad += 1;
            if mism.len() < 15 {
                mism.push(json!({"case": case, "errors": errs, "input_hex": hex(&input)}));
            }
        }
        if samples.len() < 3 && seq.len() == 3 {
            samples.push(case.clone());
        }
    }
    write_json(&args[2], &json!({"cases": n, "mismatches": bad, "first": mism, "drifted": drift, "classes": classes, "samples": samples}));
}

/// truncsweep <frames.json> <rows.ndjson> <report.json>: every source length 0..=len of every frame through four entry points
pub fn truncsweep(args: &[String]) {
    use std::io::Write;
    quiet_panics();
    let frames = load_frames(&args[0]);
    let mut w = std::io::BufWriter::new(std::fs::File::create(&args[1]).unwrap());
    let mut n = 0u64;
    let mut panics: Vec<Value> = vec![];
    let mut dec = FrameDecoder::new();
    for (fi, fr) in frames.iter().enumerate() {
        for cut in 0..=fr.len {
            let data = &fr.bytes[..cut];
            for entry in ["blocks", "stream", "slice", "all"] {
                n += 1;
                let r = std::panic::catch_unwind(std::panic::AssertUnwindSafe(|| -> (String, String, bool, Vec<u8>, u64) {
                    let mut delivered: Vec<u8> = vec![];
                    match entry {
                        "blocks" => {
                            let mut src = Src { data: data.to_vec(), pos: 0, chunk: 0 };
                            if let Err(e) = dec.reset(&mut src) {
                                return ("err".into(), err_class(&e), false, delivered, 0);
                            }
                            let r = dec.decode_blocks(&mut src, BlockDecodingStrategy::All);
                            delivered.extend(dec.collect().unwrap_or_default());
                            match r {
                                Ok(_) => ("ok".into(), "".into(), dec.is_finished(), delivered, dec.bytes_read_from_source()),
                                Err(e) => ("err".into(), err_class(&e), dec.is_finished(), delivered, dec.bytes_read_from_source()),
                            }
                        }
                        "stream" => {
                            let src = Src { data: data.to_vec(), pos: 0, chunk: 3 };
                            let mut sd = match StreamingDecoder::new_with_decoder(src, &mut dec) {
                                Ok(x) => x,
                                Err(e) => return ("err".into(), err_class(&e), false, delivered, 0),
                            };
                            let mut buf = [0u8; 700];
                            loop {
                                match sd.read(&mut buf) {
                                    Ok(0) => break,
                                    Ok(k) => delivered.extend_from_slice(&buf[..k]),
                                    Err(e) => {
                                        let cls = e.get_ref().and_then(|r| r.downcast_ref::<FrameDecoderError>()).map(err_class).unwrap_or_else(|| "io".into());
                                        let fin = sd.decoder.is_finished();
                                        let c = sd.decoder.bytes_read_from_source();
                                        return ("err".into(), cls, fin, delivered, c);
                                    }
                                }
                            }
                            let fin = sd.decoder.is_finished();
                            let c = sd.decoder.bytes_read_from_source();
                            ("ok".into(), "".into(), fin, delivered, c)
                        }
                        "slice" => {
                            let mut d2 = FrameDecoder::new();
                            let mut pos = 0usize;
                            let mut tgt = vec![0u8; 4096];
                            let mut idle = 0;
                            loop {
                                match d2.decode_from_to(&data[pos..], &mut tgt) {
                                    Err(e) => return ("err".into(), err_class(&e), d2.is_finished() && pos > 0, delivered, pos as u64),
                                    Ok((rd, wr)) => {
                                        pos = (pos + rd).min(data.len());
                                        delivered.extend_from_slice(&tgt[..wr]);
                                        if rd == 0 && wr == 0 {
                                            idle += 1;
                                            if idle > 2 {
                                                break;
                                            }
                                        }
                                    }
                                }
                            }
                            ("ok".into(), "".into(), d2.is_finished(), delivered, d2.bytes_read_from_source())
                        }
                        _ => {
                            let mut out = vec![0u8; fr.content.len() + 10];
                            match dec.decode_all(data, &mut out) {
                                Ok(wn) => ("ok".into(), "".into(), wn > 0 || data.is_empty() || dec.is_finished(), out[..wn].to_vec(), 0),
                                Err(e) => ("err".into(), err_class(&e), false, vec![], 0),
                            }
                        }
                    }
                }));
                match r {
                    Err(p) => {
                        panics.push(json!({"frame": fi + 1, "cut": cut, "entry": entry, "panic": panic_msg(p)}));
                        dec = FrameDecoder::new();
                        serde_json::to_writer(&mut w, &json!({"f": fi + 1, "cut": cut, "entry": entry, "res": "panic", "cls": "", "fin": false, "delivered": 0, "prefix": true, "whole": false, "consumed": 0})).unwrap();
                    }
                    Ok((res, cls, fin, delivered, consumed)) => {
                        serde_json::to_writer(&mut w, &json!({"f": fi + 1, "cut": cut, "entry": entry, "res": res, "cls": cls, "fin": fin, "delivered": delivered.len(),
                            "prefix": fr.content.starts_with(&delivered), "whole": delivered == fr.content, "consumed": consumed})).unwrap();
                    }
                }
                w.write_all(b"\n").unwrap();
            }
        }
    }
    w.flush().unwrap();
    write_json(&args[2], &json!({"rows": n, "panics": panics}));
}

/// realtrunc <index.json> <max frame len> <report.json>: every strict prefix of every small real frame, four entry points,
/// judged at property level: an error (or no progress for the slice interface), never finished, delivered bytes a prefix.
pub fn realtrunc(args: &[String]) {
    quiet_panics();
    let idx: Value = serde_json::from_str(&std::fs::read_to_string(&args[0]).unwrap()).unwrap();
    let maxlen: usize = args[1].parse().unwrap();
    let (mut nframes, mut cases, mut bad) = (0u64, 0u64, 0u64);
    let mut mism: Vec<Value> = vec![];
    let mut dec = FrameDecoder::new();
    dec.set_max_window_size(1 << 31);
    for fr in idx["frames"].as_array().unwrap() {
        let frame = std::fs::read(fr["frame"].as_str().unwrap()).unwrap();
        if frame.len() > maxlen {
            continue;
        }
        let content = std::fs::read(fr["content"].as_str().unwrap()).unwrap();
        let flen = match walk_frame(&frame) {
            Ok(l) => l["len"].as_u64().unwrap() as usize,
            Err(_) => continue,
        };
        nframes += 1;
        for cut in 0..flen {
            let data = &frame[..cut];
            for entry in ["blocks", "stream", "slice", "all"] {
                cases += 1;
                let r = std::panic::catch_unwind(std::panic::AssertUnwindSafe(|| -> Result<(), String> {
                    let mut delivered: Vec<u8> = vec![];
                    let (errored, fin) = match entry {
                        "blocks" => {
                            let mut src = Src { data: data.to_vec(), pos: 0, chunk: 0 };
                            match dec.reset(&mut src) {
                                Err(_) => (true, false),
                                Ok(()) => {
                                    let r = dec.decode_blocks(&mut src, BlockDecodingStrategy::UptoBlocks(1));
                                    let r = if r.is_ok() && !dec.is_finished() { dec.decode_blocks(&mut src, BlockDecodingStrategy::All) } else { r };
                                    delivered.extend(dec.collect().unwrap_or_default());
                                    (r.is_err(), dec.is_finished())
                                }
                            }
                        }
                        "stream" => {
                            let src = Src { data: data.to_vec(), pos: 0, chunk: 5 };
                            match StreamingDecoder::new_with_decoder(src, &mut dec) {
                                Err(_) => (true, false),
                                Ok(mut sd) => {
                                    let mut buf = [0u8; 997];
                                    let mut e = false;
                                    loop {
                                        match sd.read(&mut buf) {
                                            Ok(0) => break,
                                            Ok(k) => delivered.extend_from_slice(&buf[..k]),
                                            Err(_) => {
                                                e = true;
                                                break;
                                            }
                                        }
                                    }
                                    (e, sd.decoder.is_finished())
                                }
                            }
                        }
                        "slice" => {
                            let mut d2 = FrameDecoder::new();
                            d2.set_max_window_size(1 << 31);
                            let mut pos = 0usize;
                            let mut tgt = vec![0u8; 8192];
                            let mut idle = 0;
                            let mut e = false;
                            let mut started = false;
                            loop {
                                match d2.decode_from_to(&data[pos..], &mut tgt) {
                                    Err(_) => {
                                        e = true;
                                        break;
                                    }
                                    Ok((rd, wr)) => {
                                        started = true;
                                        if rd > data.len() - pos {
                                            return Err(format!("decode_from_to reports {rd} consumed of {} given", data.len() - pos));
                                        }
                                        pos += rd;
                                        delivered.extend_from_slice(&tgt[..wr]);
                                        if rd == 0 && wr == 0 {
                                            idle += 1;
                                            if idle > 2 {
                                                break;
                                            }
                                        }
                                    }
                                }
                            }
                            // the slice interface reports truncation as "no progress", not as an error
                            (true || e, started && d2.is_finished())
                        }
                        _ => {
                            let mut out = vec![0u8; content.len() + 10];
                            match dec.decode_all(data, &mut out) {
                                Ok(w) => {
                                    if cut > 0 {
                                        return Err(format!("decode_all returned Ok({w}) on a strict prefix"));
                                    }
                                    (true, false)
                                }
                                Err(_) => (true, false),
                            }
                        }
                    };
                    if !errored {
                        return Err("no error on a strict prefix".into());
                    }
                    if fin {
                        return Err("finished on a strict prefix".into());
                    }
                    if !content.starts_with(&delivered) {
                        return Err("delivered bytes are not a prefix of the content".into());
                    }
                    Ok(())
                }));
                let e = match r {
                    Err(p) => {
                        dec = FrameDecoder::new();
                        dec.set_max_window_size(1 << 31);
                        Some(format!("panic: {}", panic_msg(p)))
                    }
                    Ok(Err(e)) => Some(e),
                    Ok(Ok(())) => None,
                };
                if let Some(e) = e {
                    bad += 1;
                    if mism.len() < 10 {
                        mism.push(json!({"frame": fr["name"], "frame_path": fr["frame"], "cut": cut, "entry": entry, "error": e}));
                    }
                }
            }
        }
    }
    write_json(&args[2], &json!({"frames": nframes, "cases": cases, "mismatches": bad, "first": mism}));
}

// ---------------------------------------------------------------------------------------------
// C05: held data and heap peaks under hostile frames
// ---------------------------------------------------------------------------------------------

/// c05exec <frames.json> <report.json>: every frame through every strategy / front end, each case in a child process
/// (c05case) with a heap cap and a deadline, so that a decoder that expands a few kilobytes into gigabytes is a recorded
/// observation and not the end of the run.
pub fn c05exec(args: &[String]) {
    let frames = load_frames(&args[0]);
    const MB: usize = 128 * 1024;
    let exe = std::env::current_exe().unwrap();
    let mut rows: Vec<Value> = vec![];
    let mut bad: Vec<Value> = vec![];
    let mut n = 0u64;
    for (fi, fr) in frames.iter().enumerate() {
        // every strategy on a fresh decoder; the incremental ones again on a decoder that has just finished a frame with an
        // 8 MiB window (the bound is about THIS frame's window, whatever the decoder saw before)
        let plan: Vec<(&str, bool)> = STRATS.iter().map(|s| (*s, false)).chain(["blocks1", "bytes1", "bytes1m"].iter().map(|s| (*s, true))).collect();
        for (strat, warm) in plan {
            n += 1;
            let requested: usize = requested_of(strat);
            let slack = fr.bytes.len() * 2 + fr.content.len().min(1 << 22) + (4 << 20);
            let allowed_heap = 2 * (fr.win + requested + MB) + slack;
            let allowed_held = if strat == "all" || strat == "decode_all" || strat == "slice" { usize::MAX } else { requested + MB };
            let cap = (allowed_heap * 4).max(256 << 20);
            let mut child = std::process::Command::new(&exe)
                .args(["c05case", &args[0], &fi.to_string(), strat, if warm { "warm" } else { "fresh" }])
                .env("VH_HEAP_CAP", cap.to_string())
                .stdout(std::process::Stdio::piped())
                .stderr(std::process::Stdio::null())
                .spawn()
                .unwrap();
            let t0 = std::time::Instant::now();
            // 60 s of the child's own CPU time (wall time only as a distant fallback: a starved child is not a hanging one)
            let deadline = std::time::Duration::from_secs(1200);
            let status = loop {
                match child.try_wait().unwrap() {
                    Some(s) => break Some(s),
                    None => {
                        if cpu_ticks(Some(child.id())) > 6000 || t0.elapsed() > deadline {
                            let _ = child.kill();
                            let _ = child.wait();
                            break None;
                        }
                        std::thread::sleep(std::time::Duration::from_millis(5));
                    }
                }
            };
            let mut out = String::new();
            if let Some(mut so) = child.stdout.take() {
                let _ = so.read_to_string(&mut out);
            }
            let mut why = vec![];
            let row = match (status, serde_json::from_str::<Value>(out.trim())) {
                (None, _) => {
                    why.push("no result within 60 s of CPU time (hang or unbounded expansion)".to_string());
                    json!({"frame": fi + 1, "strategy": strat, "reused": warm, "err": "deadline", "finished": false, "held_beyond_window": 0, "heap_peak": 0, "win": fr.win, "valid": fr.valid})
                }
                (Some(st), Ok(mut row)) if st.success() => {
                    row["allowed_heap"] = json!(allowed_heap);
                    row
                }
                (Some(st), _) => {
                    why.push(format!("the decoding process died ({st}): heap cap of {cap} bytes exceeded or crash"));
                    json!({"frame": fi + 1, "strategy": strat, "reused": warm, "err": "died", "finished": false, "held_beyond_window": 0, "heap_peak": cap, "win": fr.win, "valid": fr.valid})
                }
            };
            let err = row["err"].as_str().unwrap_or("").to_string();
            let held = row["held_beyond_window"].as_u64().unwrap_or(0) as usize;
            let peak = row["heap_peak"].as_u64().unwrap_or(0) as usize;
            let fin = row["finished"].as_bool().unwrap_or(false);
            if err.starts_with("panic") {
                why.push(err.clone());
            }
            if held > allowed_held {
                why.push(format!("decoder held {held} bytes beyond the window, allowed are requested + one block = {allowed_held}"));
            }
            // what one collect() hands out was held by the decoder: never more than window + requested + one block
            let drain = row["max_drain"].as_u64().unwrap_or(0) as usize;
            if allowed_held != usize::MAX && drain > fr.win + allowed_held {
                why.push(format!(
                    "one collect() handed out {drain} bytes{}: the decoder held more than window + requested + one block = {}",
                    if warm { " (decoder reused after a frame with an 8 MiB window)" } else { "" },
                    fr.win + allowed_held
                ));
            }
            if peak > allowed_heap && err != "died" {
                why.push(format!("heap peak {peak} exceeds 2 * (window + requested + 128 KiB) + slack = {allowed_heap}"));
            }
            if fr.valid && !err.is_empty() && err != "died" && err != "deadline" {
                why.push(format!("valid frame refused ({err})"));
            }
            if !fr.valid && err.is_empty() && fin {
                why.push("a frame with an oversized or invalid block was decoded to the end".into());
            }
            if !why.is_empty() && bad.len() < 20 {
                bad.push(json!({"row": row.clone(), "errors": why}));
            }
            rows.push(row);
        }
    }
    write_json(&args[1], &json!({"cases": n, "violations": bad.len(), "first": bad, "rows": rows}));
}

const STRATS: [&str; 8] = ["all", "blocks1", "bytes1", "bytes1m", "stream1", "stream64k", "slice", "decode_all"];
fn requested_of(strat: &str) -> usize {
    match strat {
        "bytes1m" => 1 << 20,
        "stream64k" => 1 << 16,
        "decode_all" => 1 << 20,
        "slice" => 1 << 16,
        _ => 1,
    }
}

/// c05case <frames.json> <frame index> <strategy>: one case, prints one JSON row
pub fn c05case(args: &[String]) {
    quiet_panics();
    let frames = load_frames(&args[0]);
    let fi: usize = args[1].parse().unwrap();
    let fr = &frames[fi];
    let strat = &args[2].as_str();
    let warm = args.get(3).map(|s| s == "warm").unwrap_or(false);
    {
        {
            let mut dec = FrameDecoder::new();
            if warm {
                // a complete one-byte frame declaring an 8 MiB window (descriptor 0x68), decoded and drained
                let w: Vec<u8> = vec![0x28, 0xB5, 0x2F, 0xFD, 0x00, 0x68, 0x09, 0x00, 0x00, 0x5A];
                let mut src = Src { data: w, pos: 0, chunk: 0 };
                dec.reset(&mut src).expect("warm-up frame header");
                dec.decode_blocks(&mut src, BlockDecodingStrategy::All).expect("warm-up frame block");
                assert_eq!(dec.collect().unwrap_or_default(), vec![0x5A]);
            }
            let max_drain = std::cell::Cell::new(0usize);
            let base = crate::alloc_now();
            crate::alloc_reset_peak();
            let r = std::panic::catch_unwind(std::panic::AssertUnwindSafe(|| -> (String, usize, bool) {
                let mut max_held = 0usize; // bytes held beyond the window
                let mut err = String::new();
                let mut hold = |d: &FrameDecoder, max_held: &mut usize| {
                    let c = d.can_collect();
                    let beyond = if d.is_finished() { c.saturating_sub(fr.win) } else { c };
                    *max_held = (*max_held).max(beyond);
                };
                match *strat {
                    "all" | "blocks1" | "bytes1" | "bytes1m" => {
                        let mut src = Src { data: fr.bytes.clone(), pos: 0, chunk: 0 };
                        if let Err(e) = dec.reset(&mut src) {
                            return (err_class(&e), 0, false);
                        }
                        let mut guard = 0;
                        while !dec.is_finished() && guard < 100000 {
                            guard += 1;
                            let s = match *strat {
                                "all" => BlockDecodingStrategy::All,
                                "blocks1" => BlockDecodingStrategy::UptoBlocks(1),
                                "bytes1" => BlockDecodingStrategy::UptoBytes(1),
                                _ => BlockDecodingStrategy::UptoBytes(1 << 20),
                            };
                            if let Err(e) = dec.decode_blocks(&mut src, s) {
                                err = err_class(&e);
                                hold(&dec, &mut max_held);
                                break;
                            }
                            if *strat != "all" {
                                hold(&dec, &mut max_held);
                            }
                            let got = dec.collect().map(|v| v.len()).unwrap_or(0);
                            max_drain.set(max_drain.get().max(got));
                        }
                    }
                    "stream1" | "stream64k" => {
                        let src = Src { data: fr.bytes.clone(), pos: 0, chunk: 0 };
                        match StreamingDecoder::new_with_decoder(src, &mut dec) {
                            Err(e) => return (err_class(&e), 0, false),
                            Ok(mut sd) => {
                                let mut buf = vec![0u8; if *strat == "stream1" { 1 } else { 1 << 16 }];
                                let mut guard = 0u64;
                                loop {
                                    guard += 1;
                                    match sd.read(&mut buf) {
                                        Ok(0) => break,
                                        Ok(_) => {}
                                        Err(_) => {
                                            err = "streaming".into();
                                            break;
                                        }
                                    }
                                    hold(&*sd.decoder, &mut max_held);
                                    if guard > 3_000_000 {
                                        break;
                                    }
                                }
                            }
                        }
                    }
                    "slice" => {
                        let mut pos = 0;
                        let mut tgt = vec![0u8; 1 << 16];
                        let mut idle = 0;
                        loop {
                            match dec.decode_from_to(&fr.bytes[pos..], &mut tgt) {
                                Err(e) => {
                                    err = err_class(&e);
                                    break;
                                }
                                Ok((rd, wr)) => {
                                    pos += rd;
                                    if rd == 0 && wr == 0 {
                                        idle += 1;
                                        if idle > 2 {
                                            break;
                                        }
                                    }
                                }
                            }
                        }
                    }
                    _ => {
                        let mut out = vec![0u8; fr.content.len() + 64];
                        if let Err(e) = dec.decode_all(&fr.bytes, &mut out) {
                            err = err_class(&e);
                        }
                    }
                }
                (err, max_held, dec.is_finished())
            }));
            let peak = crate::alloc_peak().saturating_sub(base);
            let (err, held, fin) = match r {
                Ok(x) => x,
                Err(p) => (format!("panic: {}", panic_msg(p)), 0, false),
            };
            println!(
                "{}",
                json!({"frame": fi + 1, "strategy": strat, "reused": warm, "err": err, "finished": fin, "held_beyond_window": held, "max_drain": max_drain.get(), "heap_peak": peak, "win": fr.win, "valid": fr.valid})
            );
        }
    }
}

// ---------------------------------------------------------------------------------------------
// C11: window limits
// ---------------------------------------------------------------------------------------------

fn rank_to_u64(r: &Value) -> u64 {
    let d = r[0].as_i64().unwrap();
    let delta = r[1].as_i64().unwrap();
    if d < 0 {
        return delta as u64;
    }
    let s = window_size(d as u8);
    match delta {
        2 => u64::MAX,
        k => (s as i128 + k as i128) as u64,
    }
}

/// c11exec <cases.ndjson> <report.json>
pub fn c11exec(args: &[String]) {
    quiet_panics();
    let f = std::io::BufReader::new(std::fs::File::open(&args[0]).unwrap());
    let (mut n, mut bad, mut skipped) = (0u64, 0u64, 0u64);
    let mut mism: Vec<Value> = vec![];
    let mut classes = std::collections::BTreeMap::<String, u64>::new();
    let mut samples: Vec<Value> = vec![];
    let good = build(&frame_set("core")[0]).bytes;
    for line in f.lines() {
        let c: Value = serde_json::from_str(&line.unwrap()).unwrap();
        n += 1;
        let single = c["single"].as_bool().unwrap();
        let requested = rank_to_u64(&c["requested"]);
        let limit = rank_to_u64(&c["limit"]);
        let exp_accept = c["expect"]["accept"].as_bool().unwrap();
        let exp_max = rank_to_u64(&c["expect"]["max"]);
        let front = c["front"].as_str().unwrap();
        let hist = c["history"].as_str().unwrap();
        // the frame: header + one empty raw last block
        let mut fr = vec![0x28, 0xB5, 0x2F, 0xFD];
        if single {
            fr.push(0xE0); // FCS 8 bytes, single segment
            fr.extend_from_slice(&requested.to_le_bytes());
        } else if c["fcs"] == "zero" {
            fr.push(0x80); // window descriptor and a 4-byte content size field (0: the frame is empty)
            fr.push(c["desc"].as_u64().unwrap() as u8);
            fr.extend_from_slice(&[0, 0, 0, 0]);
        } else {
            fr.push(0x00);
            fr.push(c["desc"].as_u64().unwrap() as u8);
        }
        fr.extend_from_slice(&[0x01, 0x00, 0x00]);
        // accepting a window pre-allocates it when the decoder was used before: only affordable for moderate sizes
        let reuse = hist != "first" && front != "stream_new" && front != "stream_new_limit";
        if exp_accept && reuse && requested > (64 << 20) {
            skipped += 1;
            continue;
        }
        if front == "from_to" && hist != "first" {
            // decode_from_to initialises a frame only on an unused decoder
            skipped += 1;
            continue;
        }
        *classes.entry(format!("{}:{}", front, if exp_accept { "accept" } else { "reject" })).or_insert(0) += 1;
        let r = std::panic::catch_unwind(std::panic::AssertUnwindSafe(|| -> Result<(), String> {
            let mut dec = FrameDecoder::new();
            if front != "stream_new" && front != "stream_new_limit" {
                match hist {
                    "after_ok" => {
                        let mut o = vec![0u8; 4096];
                        dec.decode_all(&good, &mut o).map_err(|e| format!("history frame failed: {e}"))?;
                    }
                    "after_fail" => {
                        let mut o = vec![0u8; 4096];
                        let _ = dec.decode_all(&good[..good.len() - 3], &mut o);
                    }
                    _ => {}
                }
                // the limit under test is configured after the history (which needs an ordinary limit)
                dec.set_max_window_size(limit);
                if dec.max_window_size() != exp_max {
                    return Err(format!("max_window_size() is {} after set_max_window_size({limit}), specified {exp_max}", dec.max_window_size()));
                }
            }
            crate::alloc_reset_peak();
            let res: Result<(), FrameDecoderError> = match front {
                "reset" => dec.reset(&fr[..]),
                "init" => dec.init(&fr[..]),
                "decode_all" => {
                    let mut o = vec![0u8; 16];
                    crate::alloc_reset_peak();
                    dec.decode_all(&fr, &mut o).map(|_| ())
                }
                "from_to" => {
                    let mut o = vec![0u8; 16];
                    crate::alloc_reset_peak();
                    dec.decode_from_to(&fr, &mut o).map(|_| ())
                }
                "stream_new" => StreamingDecoder::new(&fr[..]).map(|_| ()),
                "stream_new_limit" => StreamingDecoder::new_with_max_window_size(&fr[..], limit).map(|_| ()),
                "stream_with_decoder" => StreamingDecoder::new_with_decoder(&fr[..], &mut dec).map(|_| ()),
                other => return Err(format!("unknown front end {other}")),
            };
            let biggest = crate::alloc_biggest() as u64;
            match (res, exp_accept) {
                (Ok(()), true) => Ok(()),
                (Ok(()), false) => Err(format!("accepted a frame declaring {requested} bytes with limit {limit}")),
                (Err(FrameDecoderError::WindowSizeTooBig { requested: rq, max }), false) => {
                    if rq != requested || max != exp_max {
                        return Err(format!("WindowSizeTooBig reports requested {rq} max {max}, specified requested {requested} max {exp_max}"));
                    }
                    if biggest >= requested.min(64 * 1024).max(1024) {
                        return Err(format!("an allocation of {biggest} bytes happened before the frame was refused"));
                    }
                    Ok(())
                }
                (Err(e), false) => {
                    // a window outside the legal range may be refused by the header check instead
                    match e {
                        FrameDecoderError::FrameHeaderError(_) | FrameDecoderError::FailedToInitialize(_) => Ok(()),
                        other => Err(format!("refused with {other:?} instead of WindowSizeTooBig")),
                    }
                }
                (Err(e), true) => Err(format!("refused ({e}) a frame declaring {requested} bytes with limit {limit}")),
            }
        }));
        let e = match r {
            Err(p) => Some(format!("panic: {}", panic_msg(p))),
            Ok(Err(e)) => Some(e),
            Ok(Ok(())) => None,
        };
        if let Some(e) = e {
            bad += 1;
            if mism.len() < 15 {
                mism.push(json!({"case": c, "requested": requested, "limit": limit, "frame_hex": hex(&fr), "error": e}));
            }
        }
        if samples.len() < 3 && n % 977 == 1 {
            samples.push(c.clone());
        }
    }
    write_json(&args[1], &json!({"cases": n, "skipped": skipped, "mismatches": bad, "first": mism, "classes": classes, "samples": samples}));
}
