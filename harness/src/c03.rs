//! C03: hostile input. Cases are enumerated deterministically and numbered, so that a panic, a hang (watchdog) or a
//! runaway allocation (allocator cap) can name the case and `--only N` replays it.
//!  kinds: single-byte faults at every position of every spec-generated / model frame (x fault values), seeded
//!  multi-byte mutations of real frames, the saved fuzz artefacts, faults in dictionaries; each through every entry
//!  point, followed by reset-and-reuse of the same decoder on a good frame.
use crate::fd::{dict_specs, frame_set, Src};
use crate::frames::*;
use crate::ring::ring_trace;
use crate::util::*;
use rand::{rngs::SmallRng, Rng, SeedableRng};
use ruzstd::decoding::{BlockDecodingStrategy, Dictionary, FrameDecoder, StreamingDecoder};
use ruzstd::verif;
use serde_json::{json, Value};
use std::io::{BufRead, Read, Write};
use std::sync::atomic::{AtomicU64, Ordering};

pub static CURRENT_CASE: AtomicU64 = AtomicU64::new(u64::MAX);
static HEARTBEAT: AtomicU64 = AtomicU64::new(0);

const FAULTS: [u8; 7] = [0x00, 0xFF, 0x01, 0x80, 0x7F, 0xFE, 0x55];

/// what the property allows after decoding arbitrary bytes: a value or an error, and a decoder that can be reused
fn run_entry(dec: &mut FrameDecoder, data: &[u8], entry: usize) -> Result<usize, String> {
    match entry {
        0 => {
            let mut o = Vec::with_capacity(1 << 16);
            dec.decode_all_to_vec(data, &mut o).map(|_| o.len()).map_err(|e| e.to_string())
        }
        1 => {
            let mut sd = StreamingDecoder::new_with_decoder(Src { data: data.to_vec(), pos: 0, chunk: 5 }, dec).map_err(|e| e.to_string())?;
            let mut buf = [0u8; 4096];
            let mut n = 0;
            loop {
                match sd.read(&mut buf) {
                    Ok(0) => break,
                    Ok(k) => n += k,
                    Err(e) => return Err(e.to_string()),
                }
                if n > (1 << 26) {
                    break;
                }
            }
            Ok(n)
        }
        2 => {
            let mut src = Src { data: data.to_vec(), pos: 0, chunk: 0 };
            dec.reset(&mut src).map_err(|e| e.to_string())?;
            let mut n = 0;
            let mut guard = 0;
            while !dec.is_finished() {
                guard += 1;
                if guard > 1_000_000 {
                    return Err("no progress".into());
                }
                dec.decode_blocks(&mut src, if guard % 2 == 0 { BlockDecodingStrategy::UptoBlocks(1) } else { BlockDecodingStrategy::UptoBytes(100) }).map_err(|e| e.to_string())?;
                n += dec.collect().map(|v| v.len()).unwrap_or(0);
            }
            // legal after the end: drain and query
            n += dec.collect().map(|v| v.len()).unwrap_or(0);
            let _ = (dec.get_checksum_from_data(), dec.get_calculated_checksum(), dec.bytes_read_from_source(), dec.blocks_decoded(), dec.content_size());
            Ok(n)
        }
        _ => {
            let mut d2 = FrameDecoder::new();
            let mut pos = 0;
            let mut tgt = vec![0u8; 1 << 12];
            let mut n = 0;
            let mut idle = 0;
            let mut offer = 7usize;
            loop {
                let end = (pos + offer).min(data.len());
                match d2.decode_from_to(&data[pos..end], &mut tgt) {
                    Err(e) => {
                        if pos == 0 && end < data.len() && offer < 32 {
                            offer += 5;
                            continue;
                        }
                        return Err(e.to_string());
                    }
                    Ok((rd, wr)) => {
                        pos = (pos + rd).min(data.len());
                        n += wr;
                        if rd == 0 && wr == 0 {
                            idle += 1;
                            offer = (offer * 2).min(1 << 18);
                            if idle > 24 || (d2.is_finished() && d2.can_collect() == 0) {
                                break;
                            }
                        } else {
                            idle = 0;
                        }
                    }
                }
            }
            Ok(n)
        }
    }
}

struct Ctx {
    good: Vec<u8>,
    good_content: Vec<u8>,
    dec: FrameDecoder,
    bad: Vec<Value>,
    outcomes: std::collections::BTreeMap<String, u64>,
    ring_out: Option<std::io::BufWriter<std::fs::File>>,
    ring_sample: u64,
    ring_events: u64,
    ring_traces: u64,
}

impl Ctx {
    fn case(&mut self, idx: u64, what: &dyn Fn() -> Value, data: &[u8], dicts: &[Vec<u8>]) {
        CURRENT_CASE.store(idx, Ordering::Relaxed);
        HEARTBEAT.fetch_add(1, Ordering::Relaxed);
        let trace_this = self.ring_out.is_some() && idx % self.ring_sample == 0;
        for entry in 0..4usize {
            let tracing = trace_this && entry < 3;
            if tracing {
                // a fresh decoder, so that the recorded ring starts from its initial state
                self.dec = FrameDecoder::new();
                verif::take();
                verif::set_mask(verif::RING | verif::COPY);
            }
            let dec = &mut self.dec;
            let r = std::panic::catch_unwind(std::panic::AssertUnwindSafe(|| {
                if !dicts.is_empty() {
                    *dec = FrameDecoder::new();
                    for raw in dicts {
                        if let Ok(d) = Dictionary::decode_dict(raw) {
                            let _ = dec.add_dict(d);
                        }
                    }
                }
                run_entry(dec, data, entry)
            }));
            let class = match &r {
                Ok(Ok(_)) => "ok",
                Ok(Err(_)) => "err",
                Err(_) => "panic",
            };
            *self.outcomes.entry(class.into()).or_insert(0) += 1;
            let mut errs = vec![];
            if let Err(p) = r {
                errs.push(format!("entry point {entry} panicked: {}", panic_msg(p)));
                self.dec = FrameDecoder::new();
            } else {
                // after an error (or success) the same decoder must be usable again
                let good = &self.good;
                let want = &self.good_content;
                let dec = &mut self.dec;
                let r2 = std::panic::catch_unwind(std::panic::AssertUnwindSafe(|| {
                    let mut o = Vec::with_capacity(want.len() + 16);
                    dec.decode_all_to_vec(good, &mut o).map(|_| o).map_err(|e| e.to_string())
                }));
                match r2 {
                    Err(p) => {
                        errs.push(format!("reuse after entry point {entry} panicked: {}", panic_msg(p)));
                        self.dec = FrameDecoder::new();
                    }
                    Ok(Err(e)) => errs.push(format!("the decoder cannot be reused after entry point {entry}: {e}")),
                    Ok(Ok(o)) => {
                        if o != *want {
                            errs.push(format!("the reused decoder decodes a good frame wrongly after entry point {entry}"));
                        }
                    }
                }
            }
            if tracing {
                let evs = verif::take();
                verif::set_mask(0);
                if let Some(w) = self.ring_out.as_mut() {
                    let mut recs = vec![crate::ring::reset_record()];
                    ring_trace(&evs, &mut recs);
                    if recs.len() > 1 {
                        self.ring_traces += 1;
                    }
                    for r in &recs {
                        serde_json::to_writer(&mut *w, r).unwrap();
                        w.write_all(b"\n").unwrap();
                        self.ring_events += 1;
                    }
                }
            }
            if !errs.is_empty() && self.bad.len() < 25 {
                self.bad.push(json!({"case": idx, "what": what(), "data_hex": hex(&data[..data.len().min(4096)]), "errors": errs}));
            }
        }
    }
}

/// c03exec <seed> <quick|thorough> <zf_cases.ndjson> <corpus index.json> <report.json> <ring trace.ndjson> [--only N]
pub fn c03exec(args: &[String]) {
    quiet_panics();
    let seed: u64 = args[0].parse().unwrap();
    let quick = args[1] == "quick";
    let only: Option<u64> = arg_after(args, "--only").map(|s| s.parse().unwrap());
    // watchdog: a case that makes no progress for 30 s ends the run, naming the case
    std::thread::spawn(|| {
        let mut last = HEARTBEAT.load(Ordering::Relaxed);
        let mut since = std::time::Instant::now();
        let mut since_cpu = cpu_ticks(None);
        loop {
            std::thread::sleep(std::time::Duration::from_millis(500));
            let now = HEARTBEAT.load(Ordering::Relaxed);
            if now != last {
                last = now;
                since = std::time::Instant::now();
                since_cpu = cpu_ticks(None);
            } else if cpu_ticks(None) - since_cpu > 3000 || since.elapsed().as_secs() > 1200 {
                // 30 s of CPU time (or 20 min of wall time) without a step forward
                println!("{}", json!({"hang": CURRENT_CASE.load(Ordering::Relaxed)}));
                std::process::exit(3);
            }
        }
    });
    let good = build(&frame_set("core")[3]);
    let mut cx = Ctx {
        good: good.bytes.clone(),
        good_content: good.content.clone(),
        dec: FrameDecoder::new(),
        bad: vec![],
        outcomes: Default::default(),
        ring_out: if only.is_none() { Some(std::io::BufWriter::new(std::fs::File::create(&args[5]).unwrap())) } else { None },
        ring_sample: if quick { 211 } else { 101 },
        ring_events: 0,
        ring_traces: 0,
    };
    let mut idx: u64 = 0;
    let mut kinds = std::collections::BTreeMap::<String, u64>::new();
    let mut want = |i: u64| only.map(|o| o == i).unwrap_or(true);
    // ---- 1. single-byte faults over the spec-generated frames and the model frame sets ----
    let mut frames: Vec<(String, Vec<u8>, Vec<Vec<u8>>)> = vec![];
    for set in ["quick", "hostile"] {
        for s in frame_set(set) {
            if s.name.starts_with("f1_") || s.name.starts_with("bomb_window_8m") {
                continue;
            }
            frames.push((format!("{set}:{}", s.name), build(&s).bytes, vec![]));
        }
    }
    // tables with the largest accuracy logs (reads of up to 10 bits at every alignment in the table descriptions)
    {
        use crate::frames::{Lits, SeqMode};
        // many probabilities of 1 first: the remaining mass stays above 255, so value after value is read with 9 or 10 bits
        let mut ll = vec![1i32; 12];
        ll.extend_from_slice(&[250, 150, 100]);
        let mut of = vec![0i32; 20];
        for (i, p) in [120, 60, 40, 20, 8, 4, 2, 1, 1].iter().enumerate() {
            of[2 + i * 2] = *p;
        }
        let mut ml = vec![1i32; 21];
        ml.push(491);
        let seqs = vec![(0u32, 4u32, 3u32), (3, 7, 8), (6, 20, 13), (9, 70, 18), (0, 300, 3), (12, 1100, 23)];
        let spec = FrameSpec { name: "fse_al9".into(), win_desc: Some(0x10), cks: false, dict_id: None, fcs: None,
            blocks: vec![Blk::Raw((0..1200u32).map(|i| (i * 7) as u8).collect()), Blk::Comp { lits: Lits::Raw((0..40u8).collect()), seqs, modes: (SeqMode::Fse(9, ll), SeqMode::Fse(8, of), SeqMode::Fse(9, ml)) }],
            dict: vec![], rep: [1, 4, 8], fcs_width: None, dict_tables: None };
        let b = build(&spec);
        if zstd::decode_all(&b.bytes[..]).map(|o| o == b.content).unwrap_or(false) {
            frames.push(("extra:fse_al9".into(), b.bytes, vec![]));
        } else {
            eprintln!("fse_al9 frame not confirmed by libzstd");
            std::process::exit(2);
        }
    }
    let (da, db) = dict_specs();
    let draw: Vec<Vec<u8>> = vec![build_dictionary(da.id, &da.tables, da.rep, &da.content), build_dictionary(db.id, &db.tables, db.rep, &db.content)];
    for s in frame_set("dict") {
        if s.dict_id.is_some() {
            frames.push((format!("dict:{}", s.name), build(&s).bytes, draw.clone()));
        }
    }
    let zf = std::io::BufReader::new(std::fs::File::open(&args[2]).unwrap());
    for (li, line) in zf.lines().enumerate() {
        if li % (if quick { 9 } else { 2 }) != 0 {
            continue;
        }
        let c: Value = serde_json::from_str(&line.unwrap()).unwrap();
        let fr = &c["frame"];
        let blocks: Vec<Blk> = fr["blocks"].as_array().unwrap().iter().map(crate::zf::block_from_json).collect();
        let spec = FrameSpec { name: format!("zf{li}"), win_desc: Some(0), cks: li % 2 == 0, dict_id: None, fcs: None, blocks, dict: vec![], rep: [1, 4, 8], fcs_width: None, dict_tables: None };
        if let Ok(b) = std::panic::catch_unwind(std::panic::AssertUnwindSafe(|| build(&spec))) {
            frames.push((format!("zf:{li}"), b.bytes, vec![]));
        }
    }
    for (name, bytes, dicts) in &frames {
        for pos in 0..bytes.len() {
            for (fi, f) in FAULTS.iter().enumerate() {
                let nv = match fi {
                    0 | 1 => *f,
                    2 => bytes[pos] ^ 0x01,
                    3 => bytes[pos] ^ 0x80,
                    4 => bytes[pos].wrapping_add(1),
                    5 => bytes[pos].wrapping_sub(1),
                    _ => bytes[pos] ^ 0x10,
                };
                if nv == bytes[pos] {
                    continue;
                }
                if want(idx) {
                    let mut m = bytes.clone();
                    m[pos] = nv;
                    *kinds.entry("byte_fault".into()).or_insert(0) += 1;
                    cx.case(idx, &|| json!({"kind": "byte_fault", "frame": name, "position": pos, "value": nv}), &m, dicts);
                }
                idx += 1;
            }
        }
        // every block cut short CONSISTENTLY: its header says k bytes and is flagged last, k bytes of its body follow and the
        // frame ends there (no checksum flag) -- so each section parser meets the exact end of its input at every offset
        if let Ok(lay) = crate::frames::walk_frame(bytes) {
            let hdr = lay["hdr"].as_u64().unwrap() as usize;
            for b in lay["blocks"].as_array().unwrap() {
                let (at, c, ty) = (b["at"].as_u64().unwrap() as usize, b["c"].as_u64().unwrap() as usize, b["type"].as_u64().unwrap() as u32);
                if ty != 2 || c > 400 {
                    continue;
                }
                for k in 0..c {
                    if want(idx) {
                        let mut m = bytes[..at].to_vec();
                        m[4] &= !0x04; // no content checksum
                        let _ = hdr;
                        let h = ((k as u32) << 3) | (ty << 1) | 1;
                        m.extend_from_slice(&h.to_le_bytes()[..3]);
                        m.extend_from_slice(&bytes[at + 3..at + 3 + k]);
                        *kinds.entry("block_cut".into()).or_insert(0) += 1;
                        cx.case(idx, &|| json!({"kind": "block_cut", "frame": name, "block_at": at, "length": k}), &m, dicts);
                    }
                    idx += 1;
                }
            }
        }
        // Huffman-coded literals cut short CONSISTENTLY: the literals header says k compressed bytes, k bytes of table
        // description + streams follow, then the rest of the block -- the weight / stream readers meet the end of their input
        // at every offset
        if let Ok(lay) = crate::frames::walk_frame(bytes) {
            for b in lay["blocks"].as_array().unwrap() {
                let (at, c, ty) = (b["at"].as_u64().unwrap() as usize, b["c"].as_u64().unwrap() as usize, b["type"].as_u64().unwrap() as u32);
                if ty != 2 || c > 400 || c < 4 {
                    continue;
                }
                let body = &bytes[at + 3..at + 3 + c];
                let (lt, sf) = (body[0] & 3, (body[0] >> 2) & 3);
                if lt < 2 {
                    continue;
                }
                let v = |n: usize| -> u64 { (0..n).fold(0u64, |x, i| x | ((body[i] as u64) << (8 * i))) };
                let (hl, regen, comp, four) = match sf {
                    0 | 1 => (3usize, ((v(3) >> 4) & 0x3FF) as usize, ((v(3) >> 14) & 0x3FF) as usize, sf == 1),
                    2 => (4, ((v(4) >> 4) & 0x3FFF) as usize, ((v(4) >> 18) & 0x3FFF) as usize, true),
                    _ => (5, ((v(5) >> 4) & 0x3FFFF) as usize, ((v(5) >> 22) & 0x3FFFF) as usize, true),
                };
                if hl + comp > c {
                    continue;
                }
                for k in 0..comp {
                    if want(idx) {
                        let mut nb = literals_header(lt, regen, Some(k), four, Some(if four { sf.max(1) } else { 0 }));
                        nb.extend_from_slice(&body[hl..hl + k]);
                        nb.extend_from_slice(&body[hl + comp..]);
                        let mut m = bytes[..at].to_vec();
                        m[4] &= !0x04;
                        let h = ((nb.len() as u32) << 3) | (ty << 1) | 1;
                        m.extend_from_slice(&h.to_le_bytes()[..3]);
                        m.extend_from_slice(&nb);
                        *kinds.entry("literals_cut".into()).or_insert(0) += 1;
                        cx.case(idx, &|| json!({"kind": "literals_cut", "frame": name, "block_at": at, "compressed_size": k}), &m, dicts);
                    }
                    idx += 1;
                }
            }
        }
        // insertion / deletion of a byte at a few positions
        for pos in [0usize, 4, 5, 6, 9, bytes.len() / 2, bytes.len().saturating_sub(1)] {
            if pos < bytes.len() {
                if want(idx) {
                    let mut m = bytes.clone();
                    m.remove(pos);
                    *kinds.entry("byte_deleted".into()).or_insert(0) += 1;
                    cx.case(idx, &|| json!({"kind": "byte_deleted", "frame": name, "position": pos}), &m, dicts);
                }
                idx += 1;
                if want(idx) {
                    let mut m = bytes.clone();
                    m.insert(pos, 0xFF);
                    *kinds.entry("byte_inserted".into()).or_insert(0) += 1;
                    cx.case(idx, &|| json!({"kind": "byte_inserted", "frame": name, "position": pos}), &m, dicts);
                }
                idx += 1;
            }
        }
    }
    // ---- 2. faults in the dictionaries themselves (parse, then decode with whatever was accepted) ----
    let dict_frames: Vec<Vec<u8>> = frame_set("dict").iter().filter(|f| f.name == "dA_tables" || f.name == "dA_rep3" || f.name == "dB_plain").map(|f| build(f).bytes).collect();
    for (di, raw) in draw.iter().enumerate() {
        for pos in 0..raw.len().min(if quick { 140 } else { raw.len() }) {
            for f in [0x00u8, 0xFF, raw[pos] ^ 1, raw[pos] ^ 0x80, raw[pos].wrapping_add(1)] {
                if f == raw[pos] {
                    continue;
                }
                if want(idx) {
                    let mut m = raw.clone();
                    m[pos] = f;
                    *kinds.entry("dictionary_fault".into()).or_insert(0) += 1;
                    CURRENT_CASE.store(idx, Ordering::Relaxed);
                    let r = std::panic::catch_unwind(|| Dictionary::decode_dict(&m).is_ok());
                    if let Err(p) = r {
                        cx.bad.push(json!({"case": idx, "what": {"kind": "dictionary_fault", "dictionary": di, "position": pos, "value": f}, "errors": [format!("decode_dict panicked: {}", panic_msg(p))]}));
                    }
                    for df in &dict_frames {
                        cx.case(idx, &|| json!({"kind": "dictionary_fault", "dictionary": di, "position": pos, "value": f}), df, &[m.clone()]);
                    }
                }
                idx += 1;
            }
        }
        for cut in 0..raw.len().min(200) {
            if want(idx) {
                *kinds.entry("dictionary_truncated".into()).or_insert(0) += 1;
                CURRENT_CASE.store(idx, Ordering::Relaxed);
                let m = raw[..cut].to_vec();
                if let Err(p) = std::panic::catch_unwind(|| Dictionary::decode_dict(&m).is_ok()) {
                    cx.bad.push(json!({"case": idx, "what": {"kind": "dictionary_truncated", "dictionary": di, "length": cut}, "errors": [format!("decode_dict panicked: {}", panic_msg(p))]}));
                }
            }
            idx += 1;
        }
    }
    // ---- 3. seeded mutations of real frames and the saved fuzz artefacts ----
    let corpus: Value = serde_json::from_str(&std::fs::read_to_string(&args[3]).unwrap()).unwrap();
    let mut rng = SmallRng::seed_from_u64(seed ^ 0x03);
    for fr in corpus["frames"].as_array().unwrap() {
        let frame = std::fs::read(fr["frame"].as_str().unwrap()).unwrap();
        if frame.len() > 300_000 || frame.is_empty() {
            continue;
        }
        for k in 0..(if quick { 25 } else { 300 }) {
            // the random choices are made whether or not the case runs, so that numbering is stable
            let mut m = frame.clone();
            let nmut = rng.gen_range(1..4);
            for _ in 0..nmut {
                let pos = if rng.gen_bool(0.5) { rng.gen_range(0..m.len().min(64)) } else { rng.gen_range(0..m.len()) };
                match rng.gen_range(0..4) {
                    0 => m[pos] = rng.gen(),
                    1 => m[pos] ^= 1 << rng.gen_range(0..8),
                    2 => m[pos] = [0u8, 0xFF, 0x80, 0x7F][rng.gen_range(0..4)],
                    _ => {
                        let e = (pos + rng.gen_range(1..9)).min(m.len());
                        m.drain(pos..e);
                        if m.is_empty() {
                            m.push(0);
                        }
                    }
                }
            }
            if want(idx) {
                *kinds.entry("mutated_real_frame".into()).or_insert(0) += 1;
                let name = fr["name"].as_str().unwrap().to_string();
                cx.case(idx, &|| json!({"kind": "mutated_real_frame", "frame": name, "mutation": k}), &m, &[]);
            }
            idx += 1;
        }
    }
    for dir in ["/repo/ruzstd/fuzz/artifacts/decode", "/repo/ruzstd/fuzz/artifacts/interop", "/repo/ruzstd/fuzz/artifacts/fse", "/repo/ruzstd/fuzz/artifacts/huff0", "/repo/ruzstd/fuzz/artifacts/encode"] {
        let mut names: Vec<_> = std::fs::read_dir(dir).map(|d| d.filter_map(|e| e.ok()).map(|e| e.path()).collect::<Vec<_>>()).unwrap_or_default();
        names.sort();
        for p in names {
            if let Ok(data) = std::fs::read(&p) {
                if want(idx) {
                    *kinds.entry("fuzz_artefact".into()).or_insert(0) += 1;
                    let pn = p.display().to_string();
                    cx.case(idx, &|| json!({"kind": "fuzz_artefact", "file": pn}), &data, &[]);
                }
                idx += 1;
            }
        }
    }
    if let Some(mut w) = cx.ring_out.take() {
        w.flush().unwrap();
    }
    write_json(&args[4], &json!({"cases": idx, "executed": kinds, "outcomes": cx.outcomes, "violations": cx.bad.len(), "first": cx.bad, "frames_faulted": frames.len(),
        "ring_events": cx.ring_events, "ring_traces": cx.ring_traces}));
}
