#!/usr/bin/env python3
"""tools/seed_matrix.py [seed-id ...]  -- for every seeded change in seeded/plan.json: apply it to /repo (git apply), run the listed
checks' quick tier, undo it (git checkout -- .), and write seeded/<id>/meta.json with the outcome.  /repo must be clean."""
import json, os, subprocess, sys
ROOT = os.path.dirname(os.path.dirname(os.path.abspath(__file__)))
plan = json.load(open(os.path.join(ROOT, "seeded", "plan.json")))
meta_only = "--meta-only" in sys.argv      # refresh the confirmation fields of existing meta.json files, run nothing
only = [a for a in sys.argv[1:] if not a.startswith("--")]
if subprocess.run(["git", "-C", "/repo", "status", "--porcelain", "--untracked-files=no"], capture_output=True, text=True).stdout.strip():
    sys.exit("/repo has local changes")
summary = {}
for sid, p in plan.items():
    if only and sid not in only:
        continue
    d = os.path.join(ROOT, "seeded", sid)
    results = {}
    mp = os.path.join(d, "meta.json")
    if meta_only:
        if not os.path.exists(mp):
            continue
        results = json.load(open(mp))["checks"]
    for chk in ([] if meta_only else p["checks"]):
        r = subprocess.run([os.path.join(ROOT, "tools", "try_patch.sh"), os.path.join(d, "patch.diff"), chk], capture_output=True, text=True)
        lines = [l for l in r.stdout.splitlines() if l.startswith(("VIOLATION", "TOOL-ERROR"))]
        results[chk] = {"quick_exit": r.returncode, "detected": r.returncode == 1, "first_line": lines[0] if lines else ""}
        print(sid, chk, r.returncode, flush=True)
    conf = open(os.path.join(d, "confirm.txt")).read() if os.path.exists(os.path.join(d, "confirm.txt")) else ""
    meta = {"id": sid, "breaks_property": p["property"], "needs_to_manifest": p["needs"],
            "origin": "independent sub-agent given only the property text and a scratch worktree of /repo",
            "confirmed": "CONFIRMED" in conf and "NOT-CONFIRMED" not in conf, "confirmation": conf.strip().splitlines(),
            "what_was_run": ["tools/confirm_seed.sh <worktree> %s  (existing suite with the change; demonstration with the change; demonstration without it)" % sid,
                             "tools/seed_matrix.py %s  (git -C /repo apply patch.diff; ./check <id> --tier quick; git -C /repo checkout -- .)" % sid],
            "checks": results}
    json.dump(meta, open(os.path.join(d, "meta.json"), "w"), indent=1)
    summary[sid] = {c: v["detected"] for c, v in results.items()}
print(json.dumps(summary, indent=1))
