#!/bin/bash
# tools/mirror.sh  -- a second, independent universe for trying patches while long runs use /repo:
#   /tmp/repo2  = worktree of /repo HEAD,  /tmp/verif2 = copy of the committed+working /verif with every /repo path rewritten.
# Only for development (seed testing); registered checks always use /verif and /repo.
set -e
rm -rf /tmp/verif2
git -C /repo worktree remove --force /tmp/repo2 2>/dev/null || true
git -C /repo worktree prune
git -C /repo worktree add -q --detach /tmp/repo2 HEAD
mkdir -p /tmp/verif2
rsync -a --exclude out --exclude 'harness/target' --exclude 'harness_f/target_*' --exclude .git /verif/ /tmp/verif2/
grep -rl '/repo' /tmp/verif2 --include='*.rs' --include='*.py' --include='*.toml' --include='*.sh' | xargs sed -i 's#/repo#/tmp/repo2#g'
sed -i 's#/verif/out/cli_target#/tmp/verif2/out/cli_target#' /tmp/verif2/tools/setup.sh
cp /repo/Cargo.lock /tmp/repo2/Cargo.lock
cp /tmp/repo2/Cargo.lock /tmp/verif2/harness/Cargo.lock
cp /tmp/repo2/Cargo.lock /tmp/verif2/harness_f/Cargo.lock
(cd /tmp/verif2 && ./tools/setup.sh)
cat > /tmp/verif2/try.sh <<'EOT'
#!/bin/bash
# /tmp/verif2/try.sh <patch.diff> <Cxx> [tier]
P="$1"; ID="$2"; TIER="${3:-quick}"
git -C /tmp/repo2 apply "$P" || { echo "patch does not apply"; exit 3; }
trap 'git -C /tmp/repo2 checkout -- . 2>/dev/null' EXIT INT TERM
cd /tmp/verif2 && ./check "$ID" --tier "$TIER" > /tmp/verif2/out/try_$ID.log 2>&1; RC=$?
grep -E '^(VIOLATION|KNOWN-FINDING|TOOL-ERROR)' /tmp/verif2/out/try_$ID.log | head -4
echo "exit=$RC"
exit $RC
EOT
chmod +x /tmp/verif2/try.sh
echo mirror ready
