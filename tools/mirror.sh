#!/bin/bash
# tools/mirror.sh [N]  -- another, independent universe for trying patches while long runs use /repo:
#   /tmp/repoN  = worktree of /repo HEAD,  /tmp/verifN = copy of the committed+working /verif with every /repo path rewritten.
# Only for development (seed testing, mutation runs); registered checks always use /verif and /repo.  Default N = 2.
set -e
N="${1:-2}"
R=/tmp/repo$N; V=/tmp/verif$N
rm -rf $V
git -C /repo worktree remove --force $R 2>/dev/null || true
git -C /repo worktree prune
git -C /repo worktree add -q --detach $R HEAD
mkdir -p $V
rsync -a --exclude out --exclude 'harness/target' --exclude 'harness_f/target_*' --exclude .git /verif/ $V/
grep -rl '/repo' $V --include='*.rs' --include='*.py' --include='*.toml' --include='*.sh' | grep -v 'tools/mirror' | xargs sed -i "s#/repo#$R#g"
grep -rl '/verif' $V --include='*.py' --include='*.sh' --include='*.toml' | grep -v 'tools/mirror' | xargs -r sed -i "s#/verif/#$V/#g"
cp /repo/Cargo.lock $R/Cargo.lock
cp $R/Cargo.lock $V/harness/Cargo.lock
cp $R/Cargo.lock $V/harness_f/Cargo.lock
(cd $V && ./tools/setup.sh)
cat > $V/try.sh <<EOT
#!/bin/bash
# $V/try.sh <patch.diff> <Cxx> [tier]
P="\$1"; ID="\$2"; TIER="\${3:-quick}"
git -C $R apply "\$P" || { echo "patch does not apply"; exit 3; }
trap 'git -C $R checkout -- . 2>/dev/null' EXIT INT TERM
cd $V && ./check "\$ID" --tier "\$TIER" > $V/out/try_\$ID.log 2>&1; RC=\$?
grep -E '^(VIOLATION|KNOWN-FINDING|TOOL-ERROR)' $V/out/try_\$ID.log | head -4
echo "exit=\$RC"
exit \$RC
EOT
chmod +x $V/try.sh
echo mirror $N ready
