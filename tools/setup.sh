#!/bin/sh
# Build the conformance harnesses once (offline) so that the checks only need incremental rebuilds.
set -e
cd "$(dirname "$0")/.."
mkdir -p out evidence
[ -f harness/Cargo.lock ] || cp /repo/Cargo.lock harness/Cargo.lock
[ -f harness_f/Cargo.lock ] || cp /repo/Cargo.lock harness_f/Cargo.lock
export CARGO_NET_OFFLINE=true
(cd harness && cargo build --release --offline --quiet && cargo build --profile dbg --offline --quiet)
(cd harness_f && cargo build --release --offline --quiet --target-dir target_std_hash --features std,hash \
  && cargo build --release --offline --quiet --target-dir target_nostd_hash --features hash \
  && cargo build --release --offline --quiet --target-dir target_std_nohash --features std \
  && cargo build --release --offline --quiet --target-dir target_nostd_nohash --features "")
(cd /repo && cargo build --release --offline --quiet -p ruzstd-cli --target-dir /verif/out/cli_target)
echo setup ok
