#!/bin/sh
# Build the conformance harness once (offline) so that the checks only need incremental rebuilds.
set -e
cd "$(dirname "$0")/.."
mkdir -p out evidence
[ -f harness/Cargo.lock ] || cp /repo/Cargo.lock harness/Cargo.lock
(cd harness && CARGO_NET_OFFLINE=true cargo build --release --offline --quiet)
echo setup ok
