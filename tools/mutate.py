#!/usr/bin/env python3
"""tools/mutate.py list | patch <k> <repo-root>  -- boundary mutants of the library: every comparison operator with spaces around it in the
decoder / encoder / entropy sources is flipped (< <-> <=, > <-> >=), one mutant per site.  `list` prints k, file, line, the
line, and the checks mapped to the file; `patch k root` rewrites the file under <root> (undo with git checkout)."""
import re, sys, os, glob, json
FILES = ["ruzstd/src/bit_io/bit_reader.rs", "ruzstd/src/bit_io/bit_reader_reverse.rs", "ruzstd/src/bit_io/bit_writer.rs",
         "ruzstd/src/blocks/literals_section.rs", "ruzstd/src/blocks/sequence_section.rs",
         "ruzstd/src/decoding/block_decoder.rs", "ruzstd/src/decoding/decode_buffer.rs", "ruzstd/src/decoding/dictionary.rs",
         "ruzstd/src/decoding/frame.rs", "ruzstd/src/decoding/frame_decoder.rs", "ruzstd/src/decoding/literals_section_decoder.rs",
         "ruzstd/src/decoding/ringbuffer.rs", "ruzstd/src/decoding/sequence_execution.rs", "ruzstd/src/decoding/sequence_section_decoder.rs",
         "ruzstd/src/decoding/streaming_decoder.rs", "ruzstd/src/encoding/blocks/compressed.rs", "ruzstd/src/encoding/frame_compressor.rs",
         "ruzstd/src/encoding/frame_header.rs", "ruzstd/src/encoding/levels/fastest.rs", "ruzstd/src/encoding/match_generator.rs",
         "ruzstd/src/fse/fse_decoder.rs", "ruzstd/src/fse/fse_encoder.rs", "ruzstd/src/huff0/huff0_decoder.rs", "ruzstd/src/huff0/huff0_encoder.rs"]
CHECKS = {"bit_reader.rs": ["C01", "C03"], "bit_reader_reverse.rs": ["C01", "C13", "C03"], "bit_writer.rs": ["C14", "C13", "C02"],
          "literals_section.rs": ["C14", "C01"], "sequence_section.rs": ["C14", "C01"], "block_decoder.rs": ["C14", "C01", "C05"],
          "decode_buffer.rs": ["C09", "C06", "C04"], "dictionary.rs": ["C09", "C03"], "frame.rs": ["C14", "C11", "C01"],
          "frame_decoder.rs": ["C10", "C11", "C06"], "literals_section_decoder.rs": ["C01", "C14", "C13"], "ringbuffer.rs": ["C04", "C06"],
          "sequence_execution.rs": ["C01", "C14", "C05"], "sequence_section_decoder.rs": ["C01", "C14"], "streaming_decoder.rs": ["C06", "C05"],
          "compressed.rs": ["C14", "C16", "C02"], "frame_compressor.rs": ["C02", "C15"], "frame_header.rs": ["C14", "C15"], "fastest.rs": ["C02", "C16"],
          "match_generator.rs": ["C17", "C02"], "fse_decoder.rs": ["C01", "C12"], "fse_encoder.rs": ["C16", "C12"],
          "huff0_decoder.rs": ["C13", "C01"], "huff0_encoder.rs": ["C13", "C02"]}
FAMILY = os.environ.get("MUT_FAMILY", "cmp")
SKIP = re.compile(r"^\s*//|///|assert|killingspark|#\[" if FAMILY == "pm1" else r"^\s*//|///|assert|->|=>|<<|>>|killingspark|#\[|\bfn |\bimpl\b|\bwhere |Vec<|Option<|Result<|&mut |for .* in ")
if FAMILY == "pm1":
    # second family: an added or subtracted 1 is dropped
    OP = re.compile(r" ([+-] 1)\b")
    FLIP = {"+ 1": "+ 0", "- 1": "- 0"}
else:
    OP = re.compile(r" (<=|>=|<|>) ")
    FLIP = {"<": "<=", "<=": "<", ">": ">=", ">=": ">"}


def sites(root="/repo"):
    out = []
    for f in FILES:
        lines = open(os.path.join(root, f)).read().split("\n")
        in_tests = False
        for i, l in enumerate(lines):
            if "#[cfg(test)]" in l or "mod tests" in l:
                in_tests = True
            if in_tests or SKIP.search(l):
                continue
            for m in OP.finditer(l):
                out.append((f, i, m.start(1), m.group(1), l.strip()))
    return out


if __name__ == "__main__":
    s = sites(sys.argv[2] if sys.argv[1] == "list" and len(sys.argv) > 2 else sys.argv[3] if sys.argv[1] == "patch" else "/repo")
    if sys.argv[1] == "list":
        for k, (f, i, c, op, l) in enumerate(s):
            print(json.dumps({"k": k, "file": f, "line": i + 1, "op": op, "to": FLIP[op], "code": l[:140], "checks": CHECKS[os.path.basename(f)]}))
    else:
        k, root = int(sys.argv[2]), sys.argv[3]
        f, i, c, op, l = s[k]
        p = os.path.join(root, f)
        lines = open(p).read().split("\n")
        assert lines[i][c:c + len(op)] == op
        lines[i] = lines[i][:c] + FLIP[op] + lines[i][c + len(op):]
        open(p, "w").write("\n".join(lines))
        print(f, i + 1, op, "->", FLIP[op])
