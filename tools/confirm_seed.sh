#!/bin/bash
# tools/confirm_seed.sh <worktree> <seed-id>  -- independently confirm a seeded change produced by a sub-agent:
#  suite passes with the change, demo fails with it, demo passes without it. Copies the artefacts to seeded/<id>/.
#  DEMO_ARGS="--no-default-features --features std" adds cargo arguments for the demo; a seeded_demo.sh is run with bash.
WT="$1"; ID="$2"
set -u
cd "$WT" || exit 3
OUT=/verif/seeded/$ID
mkdir -p "$OUT"
cp seeded/patch.diff "$OUT/patch.diff" || exit 3
cp seeded/seeded_demo.rs "$OUT/seeded_demo.rs" 2>/dev/null
cp seeded/seeded_demo.sh "$OUT/seeded_demo.sh" 2>/dev/null
cp seeded/notes.md "$OUT/notes.md" 2>/dev/null
DEMO=ruzstd/tests/seeded_demo.rs
if [ -f seeded/seeded_demo.sh ]; then
  if grep -q 'BASH_SOURCE.*/\.\./\.\.' seeded/seeded_demo.sh; then
    # the script locates the worktree two levels above itself (it was written as ruzstd/tests/seeded_demo.sh)
    mkdir -p ruzstd/tests; [ -f ruzstd/tests/seeded_demo.sh ] || cp seeded/seeded_demo.sh ruzstd/tests/seeded_demo.sh
    rundemo() { bash ruzstd/tests/seeded_demo.sh; }
  else
    rundemo() { bash seeded/seeded_demo.sh; }
  fi
else
  [ -f "$DEMO" ] || cp seeded/seeded_demo.rs "$DEMO"
  rundemo() { cargo test -p ruzstd --offline ${DEMO_ARGS:-} --test seeded_demo; }
fi
# the worktree must contain exactly the change of patch.diff
git diff -- . ':!seeded' > /tmp/_cur_$ID.diff
if ! diff -q <(grep -v '^index ' /tmp/_cur_$ID.diff) <(grep -v '^index ' seeded/patch.diff) > /dev/null; then
  git checkout -q -- . ; git apply seeded/patch.diff || { echo "patch.diff does not apply"; exit 3; }
fi
# 1. suite with the change (demo moved aside)
[ -f "$DEMO" ] && mv "$DEMO" /tmp/_demo_$ID.rs
cargo test --workspace --offline > /tmp/_suite_$ID.log 2>&1; SUITE=$?
[ -f /tmp/_demo_$ID.rs ] && mv /tmp/_demo_$ID.rs "$DEMO"
# 2. demo with the change
rundemo > /tmp/_demo_with_$ID.log 2>&1; WITH=$?
# 3. demo without the change
git apply -R seeded/patch.diff
rundemo > /tmp/_demo_without_$ID.log 2>&1; WITHOUT=$?
git apply seeded/patch.diff
echo "suite_with_change_exit=$SUITE demo_with_change_exit=$WITH demo_without_change_exit=$WITHOUT demo_args='${DEMO_ARGS:-}'" | tee "$OUT/confirm.txt"
grep -E "^test result" /tmp/_suite_$ID.log | tr '\n' ' ' >> "$OUT/confirm.txt"
if [ $SUITE -eq 0 ] && [ $WITH -ne 0 ] && [ $WITHOUT -eq 0 ]; then echo CONFIRMED | tee -a "$OUT/confirm.txt"; else echo NOT-CONFIRMED | tee -a "$OUT/confirm.txt"; fi
