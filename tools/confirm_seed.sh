#!/bin/bash
# tools/confirm_seed.sh <worktree> <seed-id>  -- independently confirm a seeded change produced by a sub-agent:
#  suite passes with the change, demo fails with it, demo passes without it. Copies the artefacts to seeded/<id>/.
WT="$1"; ID="$2"
set -u
cd "$WT" || exit 3
OUT=/verif/seeded/$ID
mkdir -p "$OUT"
cp seeded/patch.diff "$OUT/patch.diff" || exit 3
cp seeded/seeded_demo.rs "$OUT/seeded_demo.rs" 2>/dev/null
cp seeded/notes.md "$OUT/notes.md" 2>/dev/null
DEMO=ruzstd/tests/seeded_demo.rs
[ -f "$DEMO" ] || cp seeded/seeded_demo.rs "$DEMO"
# 1. suite with the change (demo moved aside)
mv "$DEMO" /tmp/_demo_$ID.rs
cargo test --workspace --offline > /tmp/_suite_$ID.log 2>&1; SUITE=$?
mv /tmp/_demo_$ID.rs "$DEMO"
# 2. demo with the change
cargo test -p ruzstd --offline --test seeded_demo > /tmp/_demo_with_$ID.log 2>&1; WITH=$?
# 3. demo without the change
git stash -q
cargo test -p ruzstd --offline --test seeded_demo > /tmp/_demo_without_$ID.log 2>&1; WITHOUT=$?
git stash pop -q
echo "suite_with_change_exit=$SUITE demo_with_change_exit=$WITH demo_without_change_exit=$WITHOUT" | tee "$OUT/confirm.txt"
grep -E "^test result" /tmp/_suite_$ID.log | tr '\n' ' ' >> "$OUT/confirm.txt"
if [ $SUITE -eq 0 ] && [ $WITH -ne 0 ] && [ $WITHOUT -eq 0 ]; then echo CONFIRMED | tee -a "$OUT/confirm.txt"; else echo NOT-CONFIRMED | tee -a "$OUT/confirm.txt"; fi
