#!/bin/bash
# tools/run_all.sh <tier>  -- run every check of the given tier in this checkout, one summary line per check
TIER="${1:-quick}"
cd "$(dirname "$0")/.."
./tools/setup.sh > /dev/null 2>&1
mkdir -p out
: > out/summary_$TIER.txt
for i in 09 16 19 18 01 17 20 14 13 11 02 15 05 07 10 08 03 12 06 04; do
  s=$(date +%s)
  ./check C$i --tier $TIER > out/run_${TIER}_C$i.log 2>&1; rc=$?
  e=$(date +%s)
  echo "C$i exit=$rc $((e-s))s $(grep -E 'violation|TOOL-ERROR' out/run_${TIER}_C$i.log | tail -1 | cut -c1-200)" | tee -a out/summary_$TIER.txt
done
echo DONE | tee -a out/summary_$TIER.txt
