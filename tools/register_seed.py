#!/usr/bin/env python3
"""tools/register_seed.py <seed-id> <property> <needs...>  -- writes seeded/<id>/meta.json after confirm_seed.sh and the check runs."""
import json, os, sys, subprocess
ROOT = os.path.dirname(os.path.dirname(os.path.abspath(__file__)))
sid, prop = sys.argv[1], sys.argv[2]
needs = sys.argv[3]
d = os.path.join(ROOT, "seeded", sid)
conf = open(os.path.join(d, "confirm.txt")).read() if os.path.exists(os.path.join(d, "confirm.txt")) else ""
results = {}
for chk in sys.argv[4:]:
    # chk = Cxx:exit
    c, rc = chk.split(":")
    results[c] = {"quick_exit": int(rc), "detected": int(rc) == 1}
meta = {"id": sid, "breaks_property": prop, "needs_to_manifest": needs, "origin": "independent sub-agent given only the property text and a scratch worktree",
        "confirmed": "CONFIRMED" in conf and "NOT-CONFIRMED" not in conf, "confirmation": conf.strip().splitlines(),
        "what_was_run": ["tools/confirm_seed.sh <worktree> %s  (suite with change; demo with change; demo without change)" % sid,
                         "tools/try_patch.sh seeded/%s/patch.diff <check>  (git -C /repo apply; ./check <id> --tier quick; git -C /repo checkout -- .)" % sid],
        "checks": results}
json.dump(meta, open(os.path.join(d, "meta.json"), "w"), indent=1)
print(json.dumps(meta["checks"]))
