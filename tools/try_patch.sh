#!/bin/sh
# tools/try_patch.sh <patch.diff> <Cxx> [tier]  -- apply a patch to /repo, run one check, always undo the patch.
P="$1"; ID="$2"; TIER="${3:-quick}"
git -C /repo apply "$P" || { echo "patch does not apply"; exit 3; }
trap 'git -C /repo checkout -- . 2>/dev/null' EXIT INT TERM
cd /verif && ./check "$ID" --tier "$TIER" > /verif/out/try_$ID.log 2>&1; RC=$?
git -C /repo checkout -- . 
grep -E '^(VIOLATION|KNOWN-FINDING|TOOL-ERROR)' /verif/out/try_$ID.log | head -5
echo "exit=$RC"
exit $RC
