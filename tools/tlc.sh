#!/bin/sh
# TLC started directly (not through the `tlc` shim) so that the thread stack size is honoured:
# with JAVA_TOOL_OPTIONS the -Xss setting was flaky on this image (see DESIGN.md section 2).
# TLC_HEAP    e.g. -Xmx8g           (default -Xmx6g)
# TLC_DEQUE=1 depth-first state queue (trace validation)
OPTS=""
if [ -n "$TLC_DEQUE" ]; then OPTS="-Dtlc2.tool.queue.IStateQueue=StateDeque"; fi
LIB=""
if [ -n "$TLA_LIB" ]; then LIB="-DTLA-Library=$TLA_LIB"; fi
exec java $LIB -Xss1g -XX:+UseParallelGC ${TLC_HEAP:--Xmx6g} $OPTS \
  -cp /opt/veriftools/tla/tla2tools.jar:/opt/veriftools/tla/CommunityModules-deps.jar tlc2.TLC "$@"
