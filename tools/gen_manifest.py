#!/usr/bin/env python3
"""Regenerates MANIFEST.json from the table below (single place to edit)."""
import json, os
ROOT = os.path.dirname(os.path.dirname(os.path.abspath(__file__)))
HOOK_COMMITS = []
try:
    import subprocess
    out = subprocess.run(["git", "-C", "/repo", "log", "--format=%h %s"], capture_output=True, text=True).stdout
    HOOK_COMMITS = [l.split()[0] for l in out.splitlines() if l.split(" ", 1)[1].startswith("verif hook")]
except Exception:
    pass

MC = "model_checking"
CHECKS = {
 "C04": dict(level=MC, design="5/C04",
   text="TLC explores the cell-level ring buffer model exhaustively (every reachable (cap, head, tail, written-set) x every operation x operand menu, chunked over-copy K=16, invariants Safe/TypeOK/Accounting/WrittenPrefix); every transition of that graph is replayed on the real RingBuffer (indices, len, free, contents against a byte queue); seeded random RingBuffer and DecodeBuffer operation sequences are recorded through hooks (operations and the extents the raw copies actually touched) and validated against the trace specification, so over-reads that never change contents are detected. Exhaustive within the bounds, sampled beyond them.",
   note="compiler and allocator trusted; bounds cap<=33 (quick) / <=65 (thorough), larger capacities only through random traces (cap<=129); K=8 path on the specification only",
   technique="TLA+ model checking (TLC) + transition-cover replay + trace validation of hook events"),
}
NOT_YET = {}

def main():
    props = [json.loads(l) for l in open(os.path.join(ROOT, "properties.jsonl"))]
    checks = []
    na = []
    for p in props:
        pid = p["id"]
        if pid in CHECKS:
            c = CHECKS[pid]
            checks.append({
                "property_id": pid,
                "quick_cmd": "./check %s --tier quick" % pid,
                "thorough_cmd": "./check %s --tier thorough" % pid,
                "evidence_file": "/verif/evidence/%s.json" % pid,
                "replay_cmd_template": "./check %s --replay {path}" % pid,
                "engine": "tlc+vh",
                "level_claimed": {"category": c["level"], "text": c["text"], "design_ref": "DESIGN.md section " + c["design"]},
                "level_note": c["note"],
                "technique": c["technique"],
            })
        else:
            na.append({"property_id": pid, "reason": NOT_YET.get(pid, "check under construction in this build round; not claimed yet")})
    m = {
        "version": 1,
        "setup_cmd": "./tools/setup.sh",
        "hooks": {
            "guard": "--cfg killingspark_zstd_rs_verif",
            "enable": "harness/.cargo/config.toml sets rustflags = [\"--cfg\", \"killingspark_zstd_rs_verif\"]; every check rebuilds the harness (path dependency on /repo/ruzstd) with cargo build --release --offline",
            "baseline_off_cmd": "cd /repo && cargo test --workspace --no-fail-fast --offline",
            "source_commits": HOOK_COMMITS,
            "add_only": True,
        },
        "engines": [
            {"name": "tlc+vh", "path": "/verif/check", "serves_properties": sorted(CHECKS.keys()),
             "kind_free_text": "Python driver: TLC (tools/tlc.sh) on spec/*.tla, state-graph walker (vlib/walk.py), Rust conformance harness (harness/, binary vh) replaying TLC behaviours on the real code and recording traces that TLC validates"},
        ],
        "checks": checks,
        "not_applicable": na,
        "notes": "Exit codes: 0 held, 1 VIOLATION line(s), 2 tool error. Known findings: known_findings.json.",
    }
    with open(os.path.join(ROOT, "MANIFEST.json"), "w") as f:
        json.dump(m, f, indent=1)
        f.write("\n")

main()
