#!/usr/bin/env python3
"""Regenerates MANIFEST.json from the table below (single place to edit)."""
import json, os
ROOT = os.path.dirname(os.path.dirname(os.path.abspath(__file__)))
HOOK_COMMITS = []
try:
    import subprocess
    out = subprocess.run(["git", "-C", "/repo", "log", "--format=%h %s"], capture_output=True, text=True).stdout
    HOOK_COMMITS = [l.split()[0] for l in out.splitlines() if l.split(" ", 1)[1].startswith("verif hook")]
except Exception:
    pass

MC = "model_checking"
TECH = "explicit TLA+ specification model-checked with TLC; transition-cover replay of TLC behaviours on the real code; trace / row validation of recorded events against the specification"
CHECKS = {
 "C02": dict(level=MC, design="5/C02",
   text="FrameCompressor.tla (frame loop, block decision, literals decision composed with a shadow decoder) is explored exhaustively with invariants SyncNow / BeliefSound / OneLast / Structure / FreshFrame; every transition of its graph becomes an input program (content class per block, level, read fragmentation, up to 2 frames on one reused compressor) run on the real compressor; every emitted frame is decoded by ruzstd and libzstd and compared with the input; the recorded block decisions are validated against Trace_FrameCompressor. Seeded random programs over boundary lengths extend this. Exhaustive over the abstract decision graph, sampled over byte contents.",
   note="libzstd 1.5.7 is the reference decoder; inputs sampled per content class; bounds MaxFrames=2, MaxBlocks=2/3", technique=TECH),
 "C04": dict(level=MC, design="5/C04",
   text="TLC explores the cell-level ring buffer model exhaustively (every reachable (cap, head, tail, written-set) x every operation x operand menu, chunked over-copy K=16, invariants Safe/TypeOK/Accounting/WrittenPrefix); every transition of that graph is replayed on the real RingBuffer (contents against a byte queue, len, free, position invariants); seeded random RingBuffer and DecodeBuffer operation sequences are recorded through hooks (operations and the extents the raw copies actually touched) and validated against the trace specification, so over-reads that never change contents are detected. Exhaustive within the bounds, sampled beyond them.",
   note="compiler and allocator trusted; bounds cap<=33 (quick) / <=65 (thorough), larger capacities only through random traces (cap<=129); K=8 path on the specification only", technique=TECH),
 "C05": dict(level=MC, design="5/C05",
   text="FrameDecoder.tla has no successful transition for a block regenerating more than 128 KiB (invariant Bounded05); explored over hostile frames (blocks at exactly 128 KiB and one byte more by sequences and by RLE literals, 1000 / 32800 maximum-length matches, a window-sized block after the window was filled) x all strategies, every transition replayed on the real decoder; every frame x strategy x front end additionally runs in a child process under a counting allocator with heap cap and deadline: bytes held beyond the window and heap peak must stay within window + requested + 128 KiB.",
   note="heap bound 2*(window+requested+128 KiB) + slack; bombs via sequences and RLE literals", technique=TECH),
 "C06": dict(level=MC, design="5/C06",
   text="FrameDecoder.tla (decode_blocks with all strategies, collect, read, collect_to_writer over scripted sinks and the physical two-segment ring arithmetic, decode_from_to, StreamingDecoder read) is explored exhaustively up to a call bound per frame over materialised frames; every transition is replayed on the real FrameDecoder/StreamingDecoder with slice and fragmenting sources; delivered bytes, errors, final checksums, consumed counts and the decode_from_to contract are the violation criteria, exact intermediate values are conformance (drift) only; random legal schedules over decodecorpus / libzstd / ruzstd frames add real sizes.",
   note="schedule space exhaustive up to MaxSteps calls per frame over the listed menus; frame contents sampled; serializer cross-checked by libzstd", technique=TECH),
 "C07": dict(level=MC, design="5/C07",
   text="In FrameDecoder.tla Reset re-initialises every per-frame variable; TLC explores all histories (frame, progress, ending: completed / abandoned / failed at header, block header, body, checksum, missing dictionary, invalid block) with Reset enabled in every state over plain, dictionary, probe and dirty frames; every transition is replayed on one real decoder, whose behaviour after Reset must be that of a fresh decoder; probe frames (treeless / repeat-mode without previous table, match before frame start, repeat offsets at frame start) make leaked internal state observable.",
   note="leaks are detected when they change an observable of a frame in the set; two synthetic dictionaries cross-checked with libzstd", technique=TECH),
 "C08": dict(level=MC, design="5/C08",
   text="Decoder side: the FrameDecoder model drives all five drain paths in wrapped and unwrapped ring states over checksummed frames; after every program the calculated and stored checksums are compared with an independent XXH64 of exactly the bytes handed out. Encoder side: every frame produced by the FrameCompressor model programs and random programs (1-3 frames on a reused compressor, both levels, empty input) must end with the low 32 bits of XXH64(input).",
   note="independent XXH64 implementation in the harness", technique=TECH),
 "C10": dict(level=MC, design="5/C10",
   text="FrameDecoder.tla with a truncated source: every cut point at and around every structural boundary x decode/drain/streaming/slice calls, invariants NoFinishOnPrefix and ConsumedOK, every transition replayed; an exhaustive sweep of every source length of every model frame through four entry points is judged row by row by TLC with the specification's operators (TruncPropOk); MultiFrame.tla enumerates all item sequences (frames, skippable frames, truncated/garbage/invalid items) up to 2/3 items x boundary target capacities and the real decode_all / decode_all_to_vec are run on every case; every strict prefix of small real frames at property level.",
   note="13 item kinds; truncated items only at the end of the input; regenerated sizes of compressed blocks of real frames not modelled", technique=TECH),
 "C15": dict(level=MC, design="5/C02",
   text="Same pipeline as C02: every emitted frame is walked by an independent block-level walker (magic, header fields, block types and sizes, exactly one last block at the end, nothing after it but the checksum, block count for the input length), regenerated block sizes and every match offset (<= window and <= data produced so far) are read from the decoder's block/sequence events, and the frame size is compared with input + framing overhead; invariants OneLast / Structure of FrameCompressor.tla on every validated trace.",
   note="offsets and regenerated sizes come from decoder events (hook H3), the decode result is independently confirmed by libzstd", technique=TECH),
}
NOT_YET = {}

def main():
    props = [json.loads(l) for l in open(os.path.join(ROOT, "properties.jsonl"))]
    checks = []
    na = []
    for p in props:
        pid = p["id"]
        if pid in CHECKS:
            c = CHECKS[pid]
            checks.append({
                "property_id": pid,
                "quick_cmd": "./check %s --tier quick" % pid,
                "thorough_cmd": "./check %s --tier thorough" % pid,
                "evidence_file": "/verif/evidence/%s.json" % pid,
                "replay_cmd_template": "./check %s --replay {path}" % pid,
                "engine": "tlc+vh",
                "level_claimed": {"category": c["level"], "text": c["text"], "design_ref": "DESIGN.md section " + c["design"]},
                "level_note": c["note"],
                "technique": c["technique"],
            })
        else:
            na.append({"property_id": pid, "reason": NOT_YET.get(pid, "check under construction in this build round; not claimed yet")})
    m = {
        "version": 1,
        "setup_cmd": "./tools/setup.sh",
        "hooks": {
            "guard": "--cfg killingspark_zstd_rs_verif",
            "enable": "harness/.cargo/config.toml sets rustflags = [\"--cfg\", \"killingspark_zstd_rs_verif\"]; every check rebuilds the harness (path dependency on /repo/ruzstd) with cargo build --release --offline",
            "baseline_off_cmd": "cd /repo && cargo test --workspace --no-fail-fast --offline",
            "source_commits": HOOK_COMMITS,
            "add_only": True,
        },
        "engines": [
            {"name": "tlc+vh", "path": "/verif/check", "serves_properties": sorted(CHECKS.keys()),
             "kind_free_text": "Python driver: TLC (tools/tlc.sh) on spec/*.tla, state-graph walker (vlib/walk.py), Rust conformance harness (harness/, binary vh) replaying TLC behaviours on the real code and recording traces that TLC validates"},
        ],
        "checks": checks,
        "not_applicable": na,
        "notes": "Exit codes: 0 held, 1 VIOLATION line(s), 2 tool error. Known findings: known_findings.json.",
    }
    with open(os.path.join(ROOT, "MANIFEST.json"), "w") as f:
        json.dump(m, f, indent=1)
        f.write("\n")

main()
