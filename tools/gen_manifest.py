#!/usr/bin/env python3
"""Regenerates MANIFEST.json from the table below (single place to edit)."""
import json, os
ROOT = os.path.dirname(os.path.dirname(os.path.abspath(__file__)))
HOOK_COMMITS = []
try:
    import subprocess
    out = subprocess.run(["git", "-C", "/repo", "log", "--format=%h %s"], capture_output=True, text=True).stdout
    HOOK_COMMITS = [l.split()[0] for l in out.splitlines() if l.split(" ", 1)[1].startswith("verif hook")]
except Exception:
    pass

MC = "model_checking"
TECH = "explicit TLA+ specification model-checked with TLC; transition-cover replay of TLC behaviours on the real code; trace / row validation of recorded events against the specification"
CHECKS = {
 "C02": dict(level=MC, design="5/C02",
   text="FrameCompressor.tla (frame loop, block decision, literals decision composed with a shadow decoder) is explored exhaustively with invariants SyncNow / BeliefSound / OneLast / Structure / FreshFrame; every transition of its graph becomes an input program (content class per block, level, read fragmentation, up to 2 frames on one reused compressor) run on the real compressor; every emitted frame is decoded by ruzstd and libzstd and compared with the input; the recorded block decisions are validated against Trace_FrameCompressor. Seeded random programs over boundary lengths extend this. Exhaustive over the abstract decision graph, sampled over byte contents. The code-histogram classes of ParseClasses.tla planted in the data (long matches, spaced literals) and compressed by the built-in match finder, so that the table builder meets its accuracy-log clamps from compress_to_vec as well; both decoders.",
   note="libzstd 1.5.7 is the reference decoder; inputs sampled per content class; bounds MaxFrames=2, MaxBlocks=2/3", technique=TECH),
 "C04": dict(level=MC, design="5/C04",
   text="TLC explores the cell-level ring buffer model exhaustively (every reachable (cap, head, tail, written-set) x every operation x operand menu, chunked over-copy K=16, invariants Safe/TypeOK/Accounting/WrittenPrefix); every transition of that graph is replayed on the real RingBuffer (contents against a byte queue, len, free, position invariants); seeded random RingBuffer and DecodeBuffer operation sequences are recorded through hooks (operations and the extents the raw copies actually touched) and validated against the trace specification, so over-reads that never change contents are detected. Exhaustive within the bounds, sampled beyond them; the index arithmetic alone (RingArith.tla: extend with and without growth, drop, clear) is proved for arbitrary capacities: Apalache discharges Init => IndInv and IndInv /\\ Next => IndInv' symbolically, TLAPS proves Spec => [](IndInv /\\ Safe) (RingArithProof.tla, 44 obligations, with a deviating self-test), TLC bridges its modulo-free wrap to the % form of the code.",
   note="compiler and allocator trusted; bounds cap<=33 (quick) / <=65 (thorough), larger capacities only through random traces (cap<=129); K=8 path on the specification only", technique=TECH),
 "C05": dict(level=MC, design="5/C05",
   text="FrameDecoder.tla has no successful transition for a block regenerating more than 128 KiB (invariant Bounded05); explored over hostile frames (blocks at exactly 128 KiB and one byte more by sequences and by RLE literals, 1000 / 32800 maximum-length matches, a window-sized block after the window was filled) x all strategies, every transition replayed on the real decoder; every frame x strategy x front end additionally runs in a child process under a counting allocator with heap cap and deadline: bytes held beyond the window and heap peak must stay within window + requested + 128 KiB; the incremental strategies run again on a decoder that has just finished a frame with an 8 MiB window, and what one collect() hands out must stay within this frame's window + requested + 128 KiB.",
   note="heap bound 2*(window+requested+128 KiB) + slack; bombs via sequences and RLE literals", technique=TECH),
 "C06": dict(level=MC, design="5/C06",
   text="FrameDecoder.tla (decode_blocks with all strategies, collect, read, collect_to_writer over scripted sinks and the physical two-segment ring arithmetic, decode_from_to, StreamingDecoder read) is explored exhaustively up to a call bound per frame over materialised frames; every transition is replayed on the real FrameDecoder/StreamingDecoder with slice and fragmenting sources; delivered bytes, errors, final checksums, consumed counts and the decode_from_to contract are the violation criteria, exact intermediate values are conformance (drift) only; random legal schedules over decodecorpus / libzstd / ruzstd frames add real sizes. Frames incl. raw blocks straddling the ring end (rawwrap) and a zero dictionary id field; in one replay variant the buffered bytes of a frame that a Reset abandons are drained and checked first. Recorded schedules on real frames are validated against Trace_FrameDecoder.tla.",
   note="schedule space exhaustive up to MaxSteps calls per frame over the listed menus; frame contents sampled; serializer cross-checked by libzstd", technique=TECH),
 "C07": dict(level=MC, design="5/C07",
   text="In FrameDecoder.tla Reset re-initialises every per-frame variable; TLC explores all histories (frame, progress, ending: completed / abandoned / failed at header, block header, body, checksum, missing dictionary, invalid block) with Reset enabled in every state over plain, dictionary, probe and dirty frames; every transition is replayed on one real decoder, whose behaviour after Reset must be that of a fresh decoder; probe frames (treeless / repeat-mode without previous table, match before frame start, repeat offsets at frame start) make leaked internal state observable. Six twin (dirty, probe) frame pairs, one per leak channel of the sequence tables, and a Huffman dirty frame; the same programs run differentially (fddiff): every part starting with a Reset on a used decoder is repeated on a fresh decoder and every return value and accessor compared call by call, without model predictions.",
   note="leaks are detected when they change an observable of a frame in the set; two synthetic dictionaries cross-checked with libzstd", technique=TECH),
 "C08": dict(level=MC, design="5/C08",
   text="Decoder side: the FrameDecoder model drives all five drain paths in wrapped and unwrapped ring states over checksummed frames; after every program the calculated and stored checksums are compared with an independent XXH64 of exactly the bytes handed out. Encoder side: every frame produced by the FrameCompressor model programs and random programs (1-3 frames on a reused compressor, both levels, empty input) must end with the low 32 bits of XXH64(input). FrameCompressor.tla models the hasher (hashClean) and frames that continue the installed source without set_source (Dev_HashOnSetSource must violate Structure).",
   note="independent XXH64 implementation in the harness", technique=TECH),
 "C10": dict(level=MC, design="5/C10",
   text="FrameDecoder.tla with a truncated source: every cut point at and around every structural boundary x decode/drain/streaming/slice calls, invariants NoFinishOnPrefix and ConsumedOK, every transition replayed; an exhaustive sweep of every source length of every model frame through four entry points is judged row by row by TLC with the specification's operators (TruncPropOk); MultiFrame.tla enumerates all item sequences (frames, skippable frames, truncated/garbage/invalid items) up to 2/3 items x boundary target capacities and the real decode_all / decode_all_to_vec are run on every case; every strict prefix of small real frames at property level.",
   note="13 item kinds; truncated items only at the end of the input; regenerated sizes of compressed blocks of real frames not modelled", technique=TECH),
 "C15": dict(level=MC, design="5/C02",
   text="Same pipeline as C02: every emitted frame is walked by an independent block-level walker (magic, header fields, block types and sizes, exactly one last block at the end, nothing after it but the checksum, block count for the input length), regenerated block sizes and every match offset (<= window and <= data produced so far) are read from the decoder's block/sequence events, and the frame size is compared with input + framing overhead; invariants OneLast / Structure of FrameCompressor.tla on every validated trace. Other matcher geometries (windows that are not powers of two, matches just inside the window) behind a wrapper that reports its window only after reset. The code-histogram classes of ParseClasses.tla planted in the data (long matches, spaced literals) and compressed by the built-in match finder, so that the table builder meets its accuracy-log clamps from compress_to_vec as well; both decoders.",
   note="offsets and regenerated sizes come from decoder events (hook H3), the decode result is independently confirmed by libzstd", technique=TECH),

 "C01": dict(level=MC, design="5/C01",
   text="ZstdFrames.tla is the format as abstract syntax with its meaning (Exec over literals and sequences, repeat-offset rule, per-frame format state); TLC enumerates frames built from a default compressed block by one or two deviations per block (all literal kinds and size formats, 0..3 sequences, all mode triples incl. repeat modes, repeat-offset codes with and without literals, overlapping copies, raw/RLE/empty blocks, header variants) with the specified content (deep tier: full products, upper code ranges, chains of three dependent blocks: 20 108 frames); SeqStream.tla specifies the sequences bitstream bit by bit and TLC decodes every distinct block stream of those frames, comparing with the sequences meant and with the real decoder's sequence events; the harness serialises each with its own bit packers (accepted only where libzstd agrees with the specification) and decodes it through four entry points; random legal schedules over decodecorpus / libzstd (levels -5..22, window logs, long-distance mode, flags, flush patterns) / ruzstd frames with the original bytes as oracle; repeat-offset events of those decodes are row-checked against RepStep.",
   note="exhaustive over the abstract feature graph with small sizes; byte contents and large sizes sampled; serializer trusted only where libzstd confirms", technique=TECH),
 "C03": dict(level="fault_enumeration", design="5/C03",
   text="Fault enumeration driven by the specifications: every valid frame enumerated by ZstdFrames.tla and every frame of the protocol model's sets is faulted at every byte position with seven fault values plus insertion/deletion, both synthetic dictionaries at every position and truncation length, seeded multi-byte mutations of real frames, the saved fuzz artefacts; each case through four entry points in a release build and a debug-assertion build, only Ok/Err allowed, then reset-and-reuse on a good frame; watchdog and allocator cap name the case on hang / runaway allocation; the ring-buffer operations and raw copies recorded during a sample of the cases are validated against RingIdx.tla (enabledness = preconditions of the unsafe methods, copies inside the allocation, reads of written cells only, no write into live data). Structured faults: every block cut short consistently to every length (block_cut), Huffman literals cut to every compressed size (literals_cut), frames with accuracy-log-9 tables; an executor brought down by the decoder (heap corruption, segmentation fault, abort) is a violation.",
   note="not exhaustive over byte strings; UB outside ringbuffer.rs out of scope; hang = no progress for 30 s", technique="model-driven fault enumeration + TLA+ trace validation of ring events (TLC)"),
 "C09": dict(level=MC, design="5/C09",
   text="ZstdFrames.tla with a dictionary (entropy tables, repeat offsets and content as the starting state): TLC enumerates every (literals before, offset, length) around the dictionary/output boundary and frames whose first block uses the dictionary state, with the specified content or 'invalid'; each is serialised against a synthetic Zstandard-format dictionary (cross-checked with libzstd) and decoded through four entry points; the FrameDecoder model over the dictionary frame set covers a missing dictionary, two dictionaries and histories mixing dictionary and plain frames; libzstd-trained dictionaries with inputs compressed at many levels, with and without dictionary id, oracle = input.",
   note="exhaustive around the boundary for one 64-byte dictionary; trained dictionaries sampled", technique=TECH),
 "C11": dict(level=MC, design="5/C11",
   text="WindowLimit.tla is the accept/reject decision over size ranks (clamp to the format maximum); TLC checks its soundness properties and enumerates descriptors x boundary limits (requested-1/0/+1, 0, around the default, around the format maximum, 2^64-1) x window / single-segment declaration x decoder history x seven front ends with the specified outcome; every case is materialised and run on the real front end under the counting allocator: accept/reject, reported requested/max values, largest allocation before a rejection. Cases incl. a window descriptor next to a content size field (the decision is about the declared window).",
   note="20 descriptors in the quick tier, all 256 in the thorough tier; acceptance of windows above 64 MiB only on paths that do not pre-allocate", technique=TECH),
 "C12": dict(level=MC, design="5/C12",
   text="FSE.tla is RFC 8878 4.1. Decoder: FSECases.tla enumerates normalised distributions (less-than-one entries, zero runs), proves ReadDesc/DescBytes inversion and state partition on each and writes description + specified table; the real build_decoder must produce exactly that table. Encoder: normalisation under production parameters, every encoder state, the written description and short 1-/2-state streams are dumped as rows and judged by FSERows.Ok; predefined tables of both sides equal Table(6|6|5, RFC distribution). What the compressor really writes: ParseClasses.tla (HistRows) models the accuracy-log choice of the table builder and enumerates code histograms reaching every regime incl. the clamp of each field; a valid parse with exactly that histogram is compressed through the public Matcher trait, the frame must decode with both decoders, and the table descriptions found in the block are read by TLC with ReadDesc (limits 9/8/9, normalised, every used code encodable). Decoder cases also run on long-lived table objects (reset + rebuild, reinit_from) and against reader limits (accuracy log, symbol count: accepted exactly within them).",
   note="decoder accuracy log 5 (6 in thorough) over a value menu; encoder tables up to log 9; streams of 4..9 symbols", technique=TECH),
 "C13": dict(level=MC, design="5/C13",
   text="Huffman.tla is RFC 8878 4.2. Decoder: HufCases.tla enumerates all explicit weight vectors up to a bound, classifies them and writes description, literals using every symbol and the bit stream; the real decoder must decode valid ones to exactly those literals and refuse incomplete ones. Encoder: for alphabet sizes 2..256 x rank orders x placements of unused symbols the code lengths, code values, the written description (direct / FSE compressed < 128 bytes) and 1-/4-stream encodings are judged by HufRows.Ok; boundary-length literals round-trip through both real decoders. Chains of three literals sections threaded the way compress_block threads them (6^3 class triples: skewed, nearly incompressible with raw fallback, reshuffles of the same ranking): a table is remembered exactly when its description was written, and the three-block frame decodes to the three literal strings in ruzstd and libzstd.",
   note="decoder vectors up to 4 (5) entries over weights 0..4; complete-but-not-minimal descriptions unconstrained", technique=TECH),
 "C14": dict(level=MC, design="5/C14",
   text="ZstdFormat.tla holds the RFC tables and header layouts (FormatTheorems: contiguous code ranges, count codec inversion); the implementation's function tables of both sides are dumped through pass-through hooks (every literal/match length, offsets at all code boundaries and random 32-bit values, repeat-offset function, every sequence count through writer and parser, all literals-header patterns, block headers incl. all 2^24 as per-class summaries, every frame descriptor x window byte, the compressor's header writers) and TLC judges every row with FormatRows.Ok; whole frames built around one header value (raw / RLE blocks, raw / RLE / Huffman literals, literals plus a match, sequence counts) at every size-format boundary and at the 128 KiB limit are decoded through four entry points: decodable iff stored and regenerated size <= 128 KiB, content exact. Frames with a match 128 MiB back (27 + 16 + 15 extra bits in one sequence) at all eight bit alignments; sequence headers on sources of exactly 1..4 bytes.",
   note="quick tier strides literal/match lengths and counts (every 5th value + all boundaries); thorough: every value", technique="TLA+ specification + row validation by TLC of dumped implementation tables"),
 "C16": dict(level=MC, design="5/C16",
   text="ParseClasses.tla enumerates the classes of valid parses the block encoder distinguishes (sequence-count forms and boundaries, code-set shapes for the FSE builder, literals decisions, and code histograms that drive the table builder into every accuracy-log regime incl. its clamps); each class is materialised as a concrete valid parse (data synthesised from the plan) and driven through the public Matcher trait; ALL valid parses of all binary blocks of 3..7 bytes after histories of 0/3/5 bytes, a sample confirmed valid by TLC with Matcher!SeqsOk; seeded random valid parses of full blocks; outcome: no panic, decode by ruzstd and libzstd = input. Chains of three dependent blocks through a user matcher (new / treeless / discarded Huffman tables in every order); the scripted matcher configures its window in reset and every executed offset is checked against the declared window.",
   note="quick tier runs every 4th tiny parse; large parses sampled", technique=TECH),
 "C17": dict(level=MC, design="5/C17",
   text="Matcher.tla: the window bookkeeping of the built-in driver explored exhaustively (window bounded, base offsets are true distances; off-by-one variant must be found), and the contract SeqsOk; the real MatchGeneratorDriver (hook: arbitrary slice size / slices per window) is driven over all binary strings for a set of block-length tuples (ternary for shorter ones), 1..3 slices, match/skip per block, reset-and-reuse; block lengths incl. tuples where one block pushes out two entries at once; every run reporting a match is a row judged by MatcherRows.Ok (true match, distance within the advertised window and the committed data, tiling; deviation from the as-built eviction Matcher!Evict is drift only); full-size seeded runs with mixed block lengths and recycled buffers checked with the same rule. Full-size class 'doubled': 128 KiB blocks whose second half repeats the first (matches of 65 536 bytes, the longest a block can hold).",
   note="slices of 5..8 bytes exhaustively; full-size behaviour sampled", technique=TECH),
 "C18": dict(level=MC, design="5/C18",
   text="IoLayer.tla specifies read_exact, take+read and write_all over scripted readers/writers; TLC enumerates all scripts up to 3 (4) answers x buffer sizes x limits; a second harness crate is built four times (std/no_std x hash/no hash) against the current tree; every IoLayer case is replayed against ruzstd::io of each build; a common program set (decode every model frame three ways, compress one input per content class at both levels with a fresh compressor and with ONE compressor reused over all inputs, each frame decoded back) runs in all four and is compared in lock step under the Features refinement mapping (no-hash frame = hash frame minus checksum flag and trailer). IoLayer.tla also specifies the byte-slice reader and writer (every buffer size incl. one byte at the end).",
   note="program set small; I/O layer exhaustive within bounds", technique=TECH),
 "C19": dict(level=MC, design="5/C19",
   text="Cli.tla maps scenarios (level option, output path, input kind, output location, archive kind, output path free or holding an older shorter / longer file) to specified effects; TLC enumerates all 324 scenarios; each runs against the freshly built ruzstd-cli in a scratch directory: exit status class, no panic, no new file after a failed compress, round trip through the tool and through libzstd on success (the output is exactly the result: nothing of an older file remains).",
   note="non-zero exit without panic counts as reported failure", technique="TLA+ scenario specification enumerated by TLC + replay on the real binary"),
 "C20": dict(level=MC, design="5/C20",
   text="DictBuilder.tla is the control flow and size arithmetic of create_raw_dict_from_source; TLC proves on a 14^3 grid that every step stays inside its precondition and that the output bound is <= requested; the real builder runs on the same grid x source kinds (seeded RNG, watchdog) and every run is a row judged by TLC (no panic, finished, length <= requested and <= structural bound); estimates beyond 32 bits against the documented promise. ReservoirFill.tla is the sampling loop as a state machine over readers that cut their answers: TLC checks termination as a liveness property (the shrink-only variant must be found to loop), every (length, script) it explored is replayed through a scripted reader, and the grid also runs with readers answering 1 / 7 / 100 bytes at a time. Grid incl. estimates whose sample ends in a segment shorter than one k-mer (TailsCovered); watchdogs measure CPU time.",
   note="three source kinds per grid point; as-built output bound is conformance only (drift)", technique=TECH),
}
NOT_YET = {}

def main():
    props = [json.loads(l) for l in open(os.path.join(ROOT, "properties.jsonl"))]
    checks = []
    na = []
    for p in props:
        pid = p["id"]
        if pid in CHECKS:
            c = CHECKS[pid]
            checks.append({
                "property_id": pid,
                "quick_cmd": "./check %s --tier quick" % pid,
                "thorough_cmd": "./check %s --tier thorough" % pid,
                "evidence_file": "/verif/evidence/%s.json" % pid,
                "replay_cmd_template": "./check %s --replay {path}" % pid,
                "engine": "tlc+vh",
                "level_claimed": {"category": c["level"], "text": c["text"], "design_ref": "DESIGN.md section " + c["design"]},
                "level_note": c["note"],
                "technique": c["technique"],
            })
        else:
            na.append({"property_id": pid, "reason": NOT_YET.get(pid, "check under construction in this build round; not claimed yet")})
    m = {
        "version": 1,
        "setup_cmd": "./tools/setup.sh",
        "hooks": {
            "guard": "--cfg killingspark_zstd_rs_verif",
            "enable": "harness/.cargo/config.toml sets rustflags = [\"--cfg\", \"killingspark_zstd_rs_verif\"]; every check rebuilds the harness (path dependency on /repo/ruzstd) with cargo build --release --offline",
            "baseline_off_cmd": "cd /repo && cargo test --workspace --no-fail-fast --offline",
            "source_commits": HOOK_COMMITS,
            "add_only": True,
        },
        "engines": [
            {"name": "tlc+vh", "path": "/verif/check", "serves_properties": sorted(CHECKS.keys()),
             "kind_free_text": "Python driver: TLC (tools/tlc.sh) on spec/*.tla, state-graph walker (vlib/walk.py), Rust conformance harness (harness/, binary vh) replaying TLC behaviours on the real code and recording traces that TLC validates; C04 additionally discharges the inductive invariant of spec/RingArith.tla (ring index arithmetic for arbitrary capacities) with Apalache (apalache-mc) and proves the same theorem deductively with TLAPS (tlapm, spec/RingArithProof.tla)"},
        ],
        "checks": checks,
        "not_applicable": na,
        "notes": "Exit codes: 0 held, 1 VIOLATION line(s), 2 tool error. Known findings: known_findings.json.",
    }
    with open(os.path.join(ROOT, "MANIFEST.json"), "w") as f:
        json.dump(m, f, indent=1)
        f.write("\n")

main()
