#!/bin/bash
# tools/mirror_sync.sh [N] -- refresh /tmp/verifN from /verif after edits (see mirror.sh)
N="${1:-2}"; R=/tmp/repo$N; V=/tmp/verif$N
rsync -a --exclude out --exclude 'harness/target' --exclude 'harness_f/target_*' --exclude .git --exclude try.sh --exclude 'tools/mirror*.sh' /verif/ $V/
grep -rl '/repo' $V --include='*.rs' --include='*.py' --include='*.toml' --include='*.sh' | grep -v 'try.sh\|tools/mirror' | xargs sed -i "s#/repo#$R#g"
grep -rl '/verif/' $V --include='*.py' --include='*.sh' --include='*.toml' | grep -v 'try.sh\|tools/mirror' | xargs -r sed -i "s#/verif/#$V/#g"
