#!/bin/bash
# tools/mirror_sync.sh -- refresh /tmp/verif2 from /verif after edits (see mirror.sh)
rsync -a --exclude out --exclude 'harness/target' --exclude 'harness_f/target_*' --exclude .git --exclude try.sh --exclude 'tools/mirror*.sh' /verif/ /tmp/verif2/
grep -rl '/repo' /tmp/verif2 --include='*.rs' --include='*.py' --include='*.toml' --include='*.sh' | grep -v 'try.sh\|tools/mirror' | xargs sed -i 's#/repo#/tmp/repo2#g'
sed -i 's#/verif/out/cli_target#/tmp/verif2/out/cli_target#' /tmp/verif2/tools/setup.sh
