-------------------------- MODULE FrameCompressor --------------------------
(***************************************************************************)
(* E3/E2 -- the frame loop of FrameCompressor::compress                    *)
(* (encoding/frame_compressor.rs), the block decision of compress_fastest  *)
(* (encoding/levels/fastest.rs) and the literals decision of               *)
(* compress_block (encoding/blocks/compressed.rs), composed with a shadow  *)
(* decoder that remembers which Huffman table a decoder of the emitted     *)
(* frame holds.                                                            *)
(*                                                                         *)
(* Data dependent outcomes are abstracted as constrained nondeterminism:   *)
(* a block of the input belongs to a content class                         *)
(*   "rle"     all bytes equal                      -> RLE block           *)
(*   "fewlits" <= 1024 literal bytes after matching -> raw literals        *)
(*   "huf"     > 1024 literals, Huffman pays off    -> new table, or       *)
(*             treeless when the previous table can encode them cheaply    *)
(*   "nohuf"   > 1024 literals, Huffman does not pay off -> raw literals   *)
(*   "hufraw"  > 1024 literals over nearly all byte values: a table IS     *)
(*             built, but table + payload are not smaller than the         *)
(*             literals -> raw literals, and the table must be forgotten   *)
(*             (the decoder never sees it)                                 *)
(* and independently the compressed form is either smaller than the block  *)
(* (kept) or not (the block is emitted raw: "fallback").                   *)
(*                                                                         *)
(* Variables: the compressor's belief `encHuf` (last_huff_table), the      *)
(* shadow decoder's table `decHuf`, and the frame structure emitted so far.*)
(* Dev_F5 = TRUE is the ordering before the repair of finding F5 (the      *)
(* belief is updated before the raw fallback discards the block).          *)
(* Dev_LitRaw = TRUE keeps the table of a "hufraw" block as the belief     *)
(* (the same mistake one level down, in compress_literals).                *)
(***************************************************************************)
EXTENDS Naturals, Sequences, FiniteSets, TLC

CONSTANTS MaxFrames,    \* frames pushed through one reused compressor
          MaxBlocks,    \* full blocks per frame
          Levels,       \* subset of {"U", "F"}
          Frags,        \* read fragmentations of the source (only recorded in the program)
          Dev_F5,
          Dev_LitRaw,
          Dev_HashOnSetSource   \* the hasher is reset where the source is installed instead of where a frame begins

VARIABLES phase,      \* "idle" | "blocks" | "done"
          level,
          frame,      \* index of the current frame on this compressor
          nfull,      \* full (128 KiB) blocks emitted in this frame
          blocks,     \* emitted blocks: [kind, d, lit, last] plus the content class of the input slice (so that the
                      \* graph distinguishes how a state was reached: one program per pair of consecutive classes)
          encHuf,     \* 0 = none, k > 0 = table built for block k of this frame
          decHuf,     \* the table a decoder of the emitted bytes holds
          trailer,    \* TRUE once the checksum of exactly the input has been appended
          hashClean   \* the hasher held nothing but this frame's input when the frame began
vars == <<phase, level, frame, nfull, blocks, encHuf, decHuf, trailer, hashClean>>

B == 131072
Cont == 99          \* "fragmentation" value that stands for: no new source, the installed one is continued
Classes == {"rle", "fewlits", "huf", "nohuf", "hufraw"}
Tails == {"none", "short"}       \* input ends exactly at a block boundary | with a partial block

Init == /\ phase = "idle" /\ level = "F" /\ frame = 0 /\ nfull = 0 /\ blocks = <<>>
        /\ encHuf = 0 /\ decHuf = 0 /\ trailer = FALSE /\ hashClean = TRUE

\* compress(): reset of the matcher, of the Huffman belief and of the hasher, then the header.
\* The input of the frame comes from a source installed for it (fr in Frags: set_source, with a read fragmentation) or,
\* fr = Cont, from the source that is already there (compress() called again after e.g. Take::set_limit on source_mut()).
BeginFrame(lv, fr) ==
    /\ phase \in {"idle", "done"} /\ frame < MaxFrames
    /\ phase' = "blocks" /\ level' = lv /\ frame' = frame + 1 /\ nfull' = 0 /\ blocks' = <<>>
    /\ encHuf' = 0 /\ decHuf' = 0 /\ trailer' = FALSE
    /\ (fr \in Frags \/ (fr = Cont /\ frame > 0))
    /\ hashClean' = (IF Dev_HashOnSetSource THEN fr # Cont ELSE TRUE)

Emit(b) == blocks' = Append(blocks, b)
BlockNo == Len(blocks) + 1

\* ---- level Uncompressed: one raw block per slice ---------------------------------
RawBlock(last) ==
    /\ phase = "blocks" /\ level = "U"
    /\ (last \/ nfull < MaxBlocks)
    /\ Emit([kind |-> "raw", d |-> IF last THEN 1 ELSE B, lit |-> "none", last |-> last, cls |-> "any"])
    /\ nfull' = IF last THEN nfull ELSE nfull + 1
    /\ phase' = IF last THEN "done" ELSE "blocks"
    /\ trailer' = (last /\ hashClean)
    /\ UNCHANGED <<level, frame, encHuf, decHuf, hashClean>>

\* ---- level Fastest ------------------------------------------------------------------
\* the literals decision of compress_block for content class cls: <<literals type, belief after compress_block>>
LitChoices(cls) ==
    CASE cls = "fewlits" -> {<<"raw", encHuf>>}
      [] cls = "nohuf"   -> {<<"raw", encHuf>>}
      [] cls = "hufraw"  -> {<<"raw", IF Dev_LitRaw THEN BlockNo ELSE encHuf>>}
      [] cls = "huf"     -> {<<"new", BlockNo>>} \cup (IF encHuf # 0 THEN {<<"treeless", encHuf>>} ELSE {})
      [] OTHER           -> {}

FastBlock(cls, choice, fallback, last) ==
    /\ phase = "blocks" /\ level = "F"
    /\ (last \/ nfull < MaxBlocks)
    /\ IF cls = "rle"
       THEN /\ ~fallback /\ choice = <<"none", encHuf>>
            /\ Emit([kind |-> "rle", d |-> IF last THEN 1 ELSE B, lit |-> "none", last |-> last, cls |-> cls])
            /\ UNCHANGED <<encHuf, decHuf>>
       ELSE /\ choice \in LitChoices(cls)
            /\ IF fallback
               THEN \* compressed form not smaller: the block goes out raw and the decoder learns nothing
                    /\ Emit([kind |-> "raw", d |-> IF last THEN 1 ELSE B, lit |-> "none", last |-> last, cls |-> cls])
                    /\ decHuf' = decHuf
                    /\ encHuf' = (IF Dev_F5 THEN choice[2] ELSE 0)
               ELSE /\ Emit([kind |-> "comp", d |-> IF last THEN 1 ELSE B, lit |-> choice[1], last |-> last, cls |-> cls])
                    /\ encHuf' = choice[2]
                    /\ decHuf' = (IF choice[1] = "new" THEN choice[2] ELSE decHuf)
    /\ nfull' = IF last THEN nfull ELSE nfull + 1
    /\ phase' = IF last THEN "done" ELSE "blocks"
    /\ trailer' = (last /\ hashClean)
    /\ UNCHANGED <<level, frame, hashClean>>

\* the source is exhausted exactly at a block boundary (or is empty): an empty raw last block
EmptyLast ==
    /\ phase = "blocks"
    /\ Emit([kind |-> "raw", d |-> 0, lit |-> "none", last |-> TRUE, cls |-> "empty"])
    /\ phase' = "done" /\ trailer' = hashClean
    /\ UNCHANGED <<level, frame, nfull, encHuf, decHuf, hashClean>>

Next == \/ \E lv \in Levels, fr \in Frags \cup {Cont} : BeginFrame(lv, fr)
        \/ \E last \in BOOLEAN : RawBlock(last)
        \/ \E cls \in Classes, lit \in {"none", "raw", "new", "treeless"}, t \in 0..(MaxBlocks + 1),
              fb \in BOOLEAN, last \in BOOLEAN : FastBlock(cls, <<lit, t>>, fb, last)
        \/ EmptyLast

Spec == Init /\ [][Next]_vars

\* ---- invariants: the properties on the design level ------------------------------------
\* C02: a treeless block is only emitted against the table the decoder really holds
SyncNow == (Len(blocks) > 0 /\ blocks[Len(blocks)].kind = "comp" /\ blocks[Len(blocks)].lit = "treeless") => decHuf # 0
\* the belief never runs ahead of the decoder (a stale belief is one step away from a Sync violation)
BeliefSound == encHuf # 0 => decHuf = encHuf
\* C15: exactly one last block, at the end; block count; sizes
OneLast == \A i \in 1..Len(blocks) : blocks[i].last <=> (phase = "done" /\ i = Len(blocks))
Structure == /\ \A i \in 1..Len(blocks) : blocks[i].d <= B /\ (blocks[i].d = B \/ blocks[i].last)
             /\ Len(blocks) <= nfull + 1
             /\ (phase = "done" => Len(blocks) = nfull + 1 /\ trailer)
             /\ (phase = "blocks" => Len(blocks) = nfull /\ ~trailer)
\* C08/C02 reuse: a new frame starts from a clean per-frame state
FreshFrame == (phase = "blocks" /\ blocks = <<>>) => (encHuf = 0 /\ decHuf = 0 /\ ~trailer)
=============================================================================
