SPECIFICATION Spec
CONSTANTS
  K = 16
  MaxCap = 33
  Sizes = {1, 2, 3, 15, 16, 17, 31, 32}
INVARIANTS Safe TypeOK Accounting
CHECK_DEADLOCK FALSE
