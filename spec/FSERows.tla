------------------------------- MODULE FSERows -------------------------------
(***************************************************************************)
(* C12, encoder side and predefined tables: rows dumped from the real      *)
(* encoder (normalised distribution, every encoder state, the description  *)
(* bytes it writes, streams it encodes with one and two states) and from   *)
(* the real decoder's tables, judged with the operators of FSE.            *)
(***************************************************************************)
EXTENDS FSE, Json, IOUtils

Rows == ndJsonDeserialize(IOEnv.ROWS)

\* the encoder's states, given as <<symbol, index, bits, baseline>>, are exactly the specified decoding table
StatesMatch(al, probs, states) ==
    LET t == Table(al, probs)
    IN /\ Len(states) = Size(al)
       /\ \A i \in 1..Len(states) : LET s == states[i] IN
             s[2] \in 0..Size(al) - 1 /\ t[s[2]].sym = s[1] /\ t[s[2]].nb = s[3] /\ t[s[2]].bl = s[4]
       /\ {states[i][2] : i \in 1..Len(states)} = 0..Size(al) - 1

OkEnc(r) == /\ r.al >= 5 /\ r.al <= r.maxlog
            /\ Normalised(r.al, r.probs)
            /\ \A i \in 1..Len(r.used) : r.probs[r.used[i] + 1] # 0          \* every symbol that occurs can be encoded
            /\ StatesMatch(r.al, r.probs, r.states)
            /\ r.desc = DescBytes(r.al, r.probs)
            /\ LET rd == ReadDesc(r.desc \o <<0>>) IN rd.al = r.al /\ rd.probs = r.probs /\ rd.used = Len(r.desc)
            /\ (r.avoid0 => \A i \in 1..Len(r.probs) : r.probs[i] <= Size(r.al) \div 2)   \* zero-bit avoidance as requested
OkStream(r) == LET d == IF r.two THEN Decode2(r.al, r.probs, r.stream, Len(r.data)) ELSE Decode1(r.al, r.probs, r.stream, Len(r.data))
               IN d[1] = r.data /\ d[2] = 0                 \* same symbols, all bits consumed
OkTable(r) == LET t == Table(r.al, r.probs)           \* a decoder table built by the implementation from (al, probs)
              IN /\ Len(r.table) = Size(r.al)
                 /\ \A st \in 1..Len(r.table) : r.table[st] = <<t[st - 1].sym, t[st - 1].nb, t[st - 1].bl>>
OkPredef(r) == LET probs == CASE r.which = "ll" -> LLDef [] r.which = "ml" -> MLDef [] r.which = "of" -> OFDef
                   al == IF r.which = "of" THEN 5 ELSE 6
               IN /\ r.al = al
                  /\ (r.side = "dec" => OkTable([al |-> al, probs |-> probs, table |-> r.table]))
                  /\ (r.side = "enc" => StatesMatch(al, probs, r.states))

Ok(r) == CASE r.k = "enc" -> OkEnc(r)
           [] r.k = "stream" -> OkStream(r)
           [] r.k = "table" -> OkTable(r)
           [] r.k = "predef" -> OkPredef(r)

VARIABLE x
Init == x = 0
Next == /\ x = 0 /\ x' = 1
        /\ LET bad == {i \in 1..Len(Rows) : ~Ok(Rows[i])}
               kinds == {Rows[i].k : i \in 1..Len(Rows)}
           IN PrintT(<<"ROWS", Len(Rows), "BAD", Cardinality(bad), kinds,
                       IF bad = {} THEN <<>> ELSE LET S == {i \in bad : \A j \in bad : i <= j} IN <<Rows[CHOOSE i \in S : TRUE]>>>>)
Spec == Init /\ [][Next]_x
=============================================================================
