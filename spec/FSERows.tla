------------------------------- MODULE FSERows -------------------------------
(***************************************************************************)
(* C12, encoder side and predefined tables: rows dumped from the real      *)
(* encoder (normalised distribution, every encoder state, the description  *)
(* bytes it writes, streams it encodes with one and two states) and from   *)
(* the real decoder's tables, judged with the operators of FSE.            *)
(***************************************************************************)
EXTENDS FSE, Json, IOUtils, TLCExt

Rows == ndJsonDeserialize(IOEnv.ROWS)

\* the encoder's states, given as <<symbol, index, bits, baseline>>, are exactly the specified decoding table
StatesMatch(al, probs, states) ==
    LET t == Table(al, probs)
    IN /\ Len(states) = Size(al)
       /\ \A i \in 1..Len(states) : LET s == states[i] IN
             s[2] \in 0..Size(al) - 1 /\ t[s[2]].sym = s[1] /\ t[s[2]].nb = s[3] /\ t[s[2]].bl = s[4]
       /\ {states[i][2] : i \in 1..Len(states)} = 0..Size(al) - 1

OkEnc(r) == /\ r.al >= 5 /\ r.al <= r.maxlog
            /\ Normalised(r.al, r.probs)
            /\ \A i \in 1..Len(r.used) : r.probs[r.used[i] + 1] # 0          \* every symbol that occurs can be encoded
            /\ StatesMatch(r.al, r.probs, r.states)
            /\ r.desc = DescBytes(r.al, r.probs)
            /\ LET rd == ReadDesc(r.desc \o <<0>>) IN rd.al = r.al /\ rd.probs = r.probs /\ rd.used = Len(r.desc)
            /\ (r.avoid0 => \A i \in 1..Len(r.probs) : r.probs[i] <= Size(r.al) \div 2)   \* zero-bit avoidance as requested
OkStream(r) == LET d == IF r.two THEN Decode2(r.al, r.probs, r.stream, Len(r.data)) ELSE Decode1(r.al, r.probs, r.stream, Len(r.data))
               IN d[1] = r.data /\ d[2] = 0                 \* same symbols, all bits consumed
OkTable(r) == LET t == Table(r.al, r.probs)           \* a decoder table built by the implementation from (al, probs)
              IN /\ Len(r.table) = Size(r.al)
                 /\ \A st \in 1..Len(r.table) : r.table[st] = <<t[st - 1].sym, t[st - 1].nb, t[st - 1].bl>>
OkPredef(r) == LET probs == CASE r.which = "ll" -> LLDef [] r.which = "ml" -> MLDef [] r.which = "of" -> OFDef
                   al == IF r.which = "of" THEN 5 ELSE 6
               IN /\ r.al = al
                  /\ (r.side = "dec" => OkTable([al |-> al, probs |-> probs, table |-> r.table]))
                  /\ (r.side = "enc" => StatesMatch(al, probs, r.states))

\* the table descriptions the compressor wrote in front of one block's sequence bitstream (order: literal lengths,
\* offsets, match lengths; mode 2 = FSE description, mode 1 = one byte, modes 0 / 3 = nothing), read with ReadDesc
MaxLogs == <<9, 8, 9>>                  \* RFC 8878 3.1.1.3.2.1
MaxSyms == <<36, 32, 53>>
NoTable(n) == [al |-> 0, probs |-> <<>>, used |-> n]
TableAt(bytes, mode) == IF mode = 2 THEN ReadDesc(bytes \o <<0>>) ELSE NoTable(IF mode = 1 THEN 1 ELSE 0)
Written(r) == LET t1 == TableAt(r.bytes, r.modes[1])
                  b1 == SubSeq(r.bytes, t1.used + 1, Len(r.bytes))
                  t2 == TableAt(b1, r.modes[2])
                  b2 == SubSeq(b1, t2.used + 1, Len(b1))
                  t3 == TableAt(b2, r.modes[3])
              IN <<t1, t2, t3>>
\* <<within the format's limits and able to encode every code the block uses (the property),
\*   accuracy log as ParseClasses!ChosenLog predicts for the class's histogram (as built, conformance only)>>
JudgeWritten(r) == LET ts == Written(r)
                       codes == <<r.ll_codes, r.of_codes, r.ml_codes>>
                       fi == CASE r.field = "ll" -> 1 [] r.field = "of" -> 2 [] r.field = "ml" -> 3
                   IN << \A i \in 1..3 : r.modes[i] = 2 =>
                            /\ ts[i].al >= 5 /\ ts[i].al <= MaxLogs[i]
                            /\ Normalised(ts[i].al, ts[i].probs)
                            /\ Len(ts[i].probs) <= MaxSyms[i]
                            /\ \A j \in 1..Len(codes[i]) : codes[i][j] + 1 <= Len(ts[i].probs) /\ ts[i].probs[codes[i][j] + 1] # 0,
                         r.modes[fi] = 2 => ts[fi].al = r.class_al >>

Ok(r) == CASE r.k = "enc" -> OkEnc(r)
           [] r.k = "stream" -> OkStream(r)
           [] r.k = "table" -> OkTable(r)
           [] r.k = "predef" -> OkPredef(r)
           [] r.k = "written" -> JudgeWritten(r)[1]

VARIABLE x
Init == x = 0
Next == /\ x = 0 /\ x' = 1
        /\ LET J == TLCEval([i \in 1..Len(Rows) |-> IF Rows[i].k = "written" THEN JudgeWritten(Rows[i]) ELSE <<Ok(Rows[i]), TRUE>>])
               bad == {i \in 1..Len(Rows) : ~J[i][1]}
               kinds == {Rows[i].k : i \in 1..Len(Rows)}
           IN /\ PrintT(<<"DRIFT", Cardinality({i \in 1..Len(Rows) : J[i][1] /\ ~J[i][2]})>>)
              /\ PrintT(<<"ROWS", Len(Rows), "BAD", Cardinality(bad), kinds,
                       IF bad = {} THEN <<>> ELSE LET S == {i \in bad : \A j \in bad : i <= j} IN <<Rows[CHOOSE i \in S : TRUE]>>>>)
Spec == Init /\ [][Next]_x
=============================================================================
