----------------------------- MODULE RingArithMC -----------------------------
(* TLC side of RingArith: the modulo-free wrap is the `%` of the code, exhaustively up to MaxCap; and the   *)
(* bounded state graph satisfies the same invariant (a sanity check of the transcription).                  *)
EXTENDS RingArith, TLC
CONSTANT MaxCap
WrapIsMod == \A c \in 1..MaxCap : \A a \in 0..(c - 1) : \A n \in 0..c : Wrap(a, n, c) = (a + n) % c
BNext == \/ \E n \in 1..MaxCap : ExtendFits(n)
         \/ \E n \in 1..MaxCap, nc \in 1..MaxCap : ExtendGrow(n, nc)
         \/ \E n \in 1..MaxCap : Drop(n)
         \/ Clear
BSpec == Init /\ [][BNext]_vars
ASSUME WrapIsMod
==============================================================================
