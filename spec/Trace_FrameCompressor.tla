----------------------- MODULE Trace_FrameCompressor -----------------------
(***************************************************************************)
(* Trace validation for the frame loop: every emitted block of a recorded  *)
(* compression (block type and literals type from an independent walk of   *)
(* the frame, the Huffman belief before and after compress_block and the   *)
(* raw-fallback decision from the encoder events) must be an enabled       *)
(* action of FrameCompressor, with the belief bound to the logged values.  *)
(* Records: ev = "new" (new compressor) | "begin" (level) | "block" (kind, *)
(* d, lit, had, has, fb, last).                                            *)
(***************************************************************************)
EXTENDS FrameCompressor, Json, IOUtils, TLCExt

Rec == ndJsonDeserialize(IOEnv.TRACE)
VARIABLE l
tvars == <<vars, l>>
Ev == Rec[l]

TInit == Init /\ l = 1

NewCompressor == /\ phase' = "idle" /\ level' = "F" /\ frame' = 0 /\ nfull' = 0 /\ blocks' = <<>>
                 /\ encHuf' = 0 /\ decHuf' = 0 /\ trailer' = FALSE /\ hashClean' = TRUE

\* the block just appended has the logged shape
Shape == LET b == blocks'[Len(blocks')] IN b.kind = Ev.kind /\ b.d = Ev.d /\ b.lit = Ev.lit /\ b.last = Ev.last

TBlock ==
    \/ /\ level = "U" /\ RawBlock(Ev.last) /\ Shape
    \/ /\ Ev.kind = "raw" /\ Ev.d = 0 /\ Ev.last /\ EmptyLast
    \/ /\ level = "F" /\ Ev.d > 0
       \* the belief the code held when it decided is the belief of the specification
       /\ (Ev.kind # "rle" => (Ev.had <=> encHuf # 0))
       /\ \E cls \in Classes, lit \in {"none", "raw", "new", "treeless"}, t \in 0..(Len(blocks) + 1) :
             /\ FastBlock(cls, <<lit, t>>, Ev.fb, Ev.last)
             /\ Shape
             \* ... and after compress_block (logged before the fallback decision is taken)
             /\ (Ev.kind # "rle" => (Ev.has <=> t # 0))

TNext == /\ l <= Len(Rec) /\ l' = l + 1
         /\ \/ (Ev.ev = "new" /\ NewCompressor)
            \/ (Ev.ev = "begin" /\ BeginFrame(Ev.level, 0))
            \/ (Ev.ev = "block" /\ TBlock)

TSpec == TInit /\ [][TNext]_tvars

Accepted ==
    LET d == TLCGet("stats").diameter
    IN IF d - 1 = Len(Rec) THEN PrintT(<<"ACCEPTED", Len(Rec)>>)
       ELSE Print(<<"REJECTED at", d, Rec[d]>>, FALSE)
=============================================================================
