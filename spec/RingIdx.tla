------------------------------- MODULE RingIdx -------------------------------
(***************************************************************************)
(* L0 without the cells: trace validation of the output window at real     *)
(* sizes (capacities of kilobytes to megabytes, where carrying a memory    *)
(* function per state is too slow).  RingBuffer.tla shows (invariant       *)
(* WrittenPrefix) that the cells written since the last allocation always  *)
(* form a prefix 0..hw-1 of the allocation, so the written set is the      *)
(* scalar high-water mark hw.  Every recorded operation must be enabled    *)
(* (the callers' preconditions of the unsafe methods), the indices must    *)
(* move as the operation says, and every raw copy -- with the extent the   *)
(* implementation actually touched -- must stay inside the allocation,     *)
(* read only cells below hw, and write only cells that are not live.       *)
(* bad: 1 outside the allocation, 2 read of a never written cell,          *)
(*      4 position invariant, 7 write into live data, 8 a caller's         *)
(*      precondition of an unchecked method is broken                      *)
(***************************************************************************)
EXTENDS Naturals, Integers, Sequences, FiniteSets, TLC, Json, IOUtils, TLCExt

Rec == ndJsonDeserialize(IOEnv.TRACE)
VARIABLES cap, head, tail, hw, bad, l
vars == <<cap, head, tail, hw, bad, l>>
Ev == Rec[l]

Max(a, b) == IF a > b THEN a ELSE b
RLen(c, h, t) == IF t >= h THEN t - h ELSE c - h + t
FreeOf(c, h, t) == IF c = 0 THEN 0 ELSE c - 1 - RLen(c, h, t)
First(a, b) == IF a # 0 THEN a ELSE b
\* does the half-open range [a, a+n) meet the live cells?
MeetsLive(a, n) == IF n = 0 \/ head = tail THEN FALSE
                   ELSE IF tail > head THEN a < tail /\ a + n > head
                   ELSE a + n > head \/ a < tail
Inv(c, h, t) == IF c = 0 \/ (h < c /\ t < c) THEN 0 ELSE 4

Init == cap = 0 /\ head = 0 /\ tail = 0 /\ hw = 0 /\ bad = 0 /\ l = 1

Set(c, h, t, w, flag) == /\ cap' = c /\ head' = h /\ tail' = t /\ hw' = w
                         /\ bad' = First(bad, First(flag, Inv(c, h, t)))
Obs == <<Ev.cap, Ev.head, Ev.tail>>

Reset == Set(0, 0, 0, 0, 0)
Grow == /\ Ev.cap > cap /\ RLen(Ev.cap, Ev.head, Ev.tail) = RLen(cap, head, tail)
        /\ FreeOf(Ev.cap, Ev.head, Ev.tail) >= FreeOf(cap, head, tail) + Ev.n
        /\ Set(Ev.cap, Ev.head, Ev.tail, IF Ev.head = 0 THEN RLen(cap, head, tail) ELSE Ev.cap, 0)
Extend == /\ Ev.n > 0 /\ FreeOf(cap, head, tail) >= Ev.n /\ cap > 0
          /\ Obs = <<cap, head, (tail + Ev.n) % cap>>
          /\ Set(cap, head, (tail + Ev.n) % cap, Max(hw, IF tail + Ev.n <= cap THEN tail + Ev.n ELSE cap), IF tail > hw THEN 2 ELSE 0)
Zero == /\ Obs = <<cap, head, tail>>
        /\ Set(cap, head, tail, IF Ev.s <= hw THEN Max(hw, Ev.s + Ev.n) ELSE hw,
               IF Ev.s + Ev.n > cap THEN 1 ELSE IF MeetsLive(Ev.s, Ev.n) THEN 7 ELSE 0)
Drop == /\ Ev.n > 0 /\ Ev.n <= RLen(cap, head, tail) /\ cap > 0
        /\ Obs = <<cap, (head + Ev.n) % cap, tail>>
        /\ Set(cap, (head + Ev.n) % cap, tail, hw, 0)
Clear == Obs = <<cap, 0, 0>> /\ Set(cap, 0, 0, hw, 0)

\* the raw copies of one extend_from_within_unchecked, in order; copy = <<so, srclen, do, dstlen, wanted, touched>>
RECURSIVE Copies(_, _, _, _)
Copies(cps, i, w, flag) ==
    IF i > Len(cps) THEN <<w, flag>>
    ELSE LET c == cps[i]
             so == c[1]  do == c[3]  t == c[6]
             f == IF so < 0 \/ do < 0 \/ so + t > cap \/ do + t > cap THEN 1
                  ELSE IF t > 0 /\ so + t > w THEN 2
                  ELSE IF MeetsLive(do, t) THEN 7
                  ELSE 0
         IN Copies(cps, i + 1, IF do <= w THEN Max(w, do + t) ELSE w, First(flag, f))
EFW == /\ cap > 0
       /\ Obs = <<cap, head, (tail + Ev.n) % cap>>
       /\ LET pre == IF Ev.s + Ev.n <= RLen(cap, head, tail) /\ FreeOf(cap, head, tail) >= Ev.n THEN 0 ELSE 8
              r == Copies(Ev.copies, 1, hw, 0)
          IN Set(cap, head, (tail + Ev.n) % cap, r[1], First(pre, r[2]))

Next == /\ l <= Len(Rec) /\ l' = l + 1
        /\ \/ (Ev.op = "reset" /\ Reset)
           \/ (Ev.op = "grow" /\ Grow)
           \/ (Ev.op \in {"extend", "fill", "reader"} /\ Extend)
           \/ (Ev.op = "z" /\ Zero)
           \/ (Ev.op = "drop" /\ Drop)
           \/ (Ev.op = "clear" /\ Clear)
           \/ (Ev.op = "efw" /\ EFW)
Spec == Init /\ [][Next]_vars
Safe == bad = 0
Accepted ==
    LET d == TLCGet("stats").diameter
    IN IF d - 1 = Len(Rec) THEN PrintT(<<"ACCEPTED", Len(Rec)>>)
       ELSE Print(<<"REJECTED at", d, Rec[d]>>, FALSE)
=============================================================================
