----------------------------- MODULE MultiFrame -----------------------------
(***************************************************************************)
(* decode_all / decode_all_to_vec over a concatenation of items            *)
(* (frame_decoder.rs): frames, skippable frames, truncated or garbage data.*)
(* Items are records [kind, len, size, err]:                               *)
(*   kind "frame"  a valid frame of `len` bytes regenerating `size` bytes  *)
(*   kind "skip"   a complete skippable frame (8 + payload bytes)          *)
(*   kind "bad"    anything that must end the call with error class `err`  *)
(*                 (garbage, a truncated frame or skippable frame, a frame *)
(*                 with an invalid block); `tail` = TRUE when the item is  *)
(*                 only meaningful as the last one (truncation)            *)
(* The result of the call is a pure function of the item sequence and the  *)
(* target capacity.  TLC enumerates all sequences up to MaxItems and the   *)
(* boundary capacities and writes the cases with the specified outcome;    *)
(* the harness materialises each case and runs the real calls.             *)
(***************************************************************************)
EXTENDS Naturals, Sequences, FiniteSets, TLC, Json, SequencesExt

CONSTANTS Items,      \* sequence of item records
          MaxItems

RECURSIVE Run(_, _, _, _)
\* returns <<"ok", written>> or <<"err", class>>
Run(seq, i, room, written) ==
    IF i > Len(seq) THEN <<"ok", written>>
    ELSE LET it == Items[seq[i]] IN
         CASE it.kind = "skip" -> Run(seq, i + 1, room, written)
           [] it.kind = "bad" -> <<"err", it.err>>
           [] it.kind = "frame" ->
                IF it.size > room THEN <<"err", "target">>
                ELSE Run(seq, i + 1, room - it.size, written + it.size)

Total(seq) == LET RECURSIVE T(_) T(i) == IF i > Len(seq) THEN 0 ELSE (IF Items[seq[i]].kind = "frame" THEN Items[seq[i]].size ELSE 0) + T(i + 1) IN T(1)

RECURSIVE Tuples(_, _)
Tuples(n, S) == IF n = 0 THEN {<<>>} ELSE {<<x>> \o t : x \in S, t \in Tuples(n - 1, S)}
\* truncated items only at the end of the input
WellPlaced(seq) == \A i \in 1..Len(seq) - 1 : ~Items[seq[i]].tail
Seqs == {s \in UNION {Tuples(n, 1..Len(Items)) : n \in 0..MaxItems} : WellPlaced(s)}
Caps(seq) == LET t == Total(seq) IN {0, t, t + 1, t + 100} \cup (IF t > 0 THEN {t - 1} ELSE {})

Cases == UNION {{[items |-> s, cap |-> c, result |-> Run(s, 1, c, 0)] : c \in Caps(s)} : s \in Seqs}

\* ---- properties of the specification itself --------------------------------
\* success exactly when everything is well formed and fits; the count is the total content
OkIffFits == \A s \in Seqs : \A c \in Caps(s) :
    LET r == Run(s, 1, c, 0)
        allgood == \A i \in 1..Len(s) : Items[s[i]].kind # "bad"
    IN (r[1] = "ok") <=> (allgood /\ Total(s) <= c)
NeverMoreThanCap == \A s \in Seqs : \A c \in Caps(s) : LET r == Run(s, 1, c, 0) IN r[1] = "ok" => r[2] = Total(s) /\ r[2] <= c

VARIABLE x
Init == x = 0
Next == x = 0 /\ x' = 1 /\ Assert(OkIffFits /\ NeverMoreThanCap, "MultiFrame specification inconsistent")
        /\ LET rows == SetToSeq(Cases) IN ndJsonSerialize("multiframe_cases.ndjson", rows) /\ PrintT(<<"cases", Len(rows)>>)
Spec == Init /\ [][Next]_x
=============================================================================
