----------------------------- MODULE MatcherRows -----------------------------
(***************************************************************************)
(* C17 conformance: each row is one run of the real MatchGeneratorDriver   *)
(* (slice size, slices per window, the blocks committed since the last     *)
(* reset with skip / match decision, and every sequence it reported);      *)
(* the reports are judged with Matcher!SeqsOk against the retained data    *)
(* that Matcher!Evict predicts.                                            *)
(***************************************************************************)
EXTENDS Naturals, Integers, Sequences, FiniteSets, TLC, Json, IOUtils

M == INSTANCE Matcher WITH MaxWindow <- 0, Lens <- {}, MaxCommits <- 0, Dev_BaseOff <- FALSE, entries <- <<>>, commits <- 0, pool <- 0

Rows == ndJsonDeserialize(IOEnv.ROWS)

RECURSIVE SumSeq(_, _)
SumSeq(s, i) == IF i > Len(s) THEN 0 ELSE s[i] + SumSeq(s, i + 1)
RECURSIVE EvictL(_, _, _)
EvictL(lens, newLen, max) == IF lens # <<>> /\ SumSeq(lens, 1) + newLen > max THEN EvictL(Tail(lens), newLen, max) ELSE lens

\* exact = TRUE: against the data Matcher!Evict says is still retained (the as-built eviction, conformance only);
\* exact = FALSE: the property itself -- true match, distance within the advertised window and within the data committed
\* since the reset (an implementation that keeps more than the model, but stays inside its window, is not wrong)
RECURSIVE BlocksOk(_, _, _, _, _)
BlocksOk(r, i, start, kept, exact) ==
    IF i > Len(r.lens) THEN TRUE
    ELSE LET L == r.lens[i]
             k2 == EvictL(kept, L, r.slices * r.slice)
             lo == IF exact THEN start - SumSeq(k2, 1) ELSE 0
             b == r.blocks[i]
         IN /\ (IF b.skip THEN b.seqs = <<>> ELSE M!SeqsOk(r.data, b.seqs, 1, start, lo, start + L, r.ws, r.minmatch))
            /\ BlocksOk(r, i + 1, start + L, Append(k2, L), exact)
\* built-in finder: the advertised window is slices * slice; a user matcher (C16) advertises what it likes
Ok(r) == BlocksOk(r, 1, 0, <<>>, FALSE)
Exact(r) == (r.builtin => r.ws = r.slices * r.slice) /\ BlocksOk(r, 1, 0, <<>>, TRUE)

VARIABLE x
Init == x = 0
Next == /\ x = 0 /\ x' = 1
        /\ PrintT(<<"DRIFT", Cardinality({i \in 1..Len(Rows) : Ok(Rows[i]) /\ ~Exact(Rows[i])})>>)
        /\ LET bad == {i \in 1..Len(Rows) : ~Ok(Rows[i])}
           IN PrintT(<<"ROWS", Len(Rows), "BAD", Cardinality(bad), {"matcher"},
                       IF bad = {} THEN <<>> ELSE LET S == {i \in bad : \A j \in bad : i <= j} IN <<Rows[CHOOSE i \in S : TRUE]>>>>)
Spec == Init /\ [][Next]_x
=============================================================================
