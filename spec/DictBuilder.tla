----------------------------- MODULE DictBuilder -----------------------------
(***************************************************************************)
(* X4 -- control flow and size arithmetic of create_raw_dict_from_source   *)
(* (dictionary/mod.rs, reservoir.rs, cover.rs) over the true length T of   *)
(* the training source, the caller's size estimate E and the requested     *)
(* dictionary size D (the data itself only decides which segment of the    *)
(* sample wins an epoch, never how much is written).                       *)
(*   E < 16      : the source is copied, cut to D                          *)
(*   otherwise   : segment size min(2048, E); the reservoir keeps the      *)
(*                 first min(T, sample size) bytes; the rest of the source *)
(*                 is consumed in reads of up to 100 bytes, one epoch and  *)
(*                 one pooled segment (at most one segment size, at most   *)
(*                 the sample) per read; the pool is cut down to D         *)
(* Specified: every step is applied inside its precondition (no division   *)
(* by zero, no empty range, no empty sample when an epoch runs), the       *)
(* procedure terminates, and the output never exceeds D.                   *)
(***************************************************************************)
EXTENDS Naturals, Integers, Sequences, FiniteSets, TLC, Json, IOUtils

Min2(a, b) == IF a < b THEN a ELSE b
Max2(a, b) == IF a > b THEN a ELSE b
CeilDiv(a, b) == (a + b - 1) \div b

Seg(E) == Min2(2048, E)
NumSegments(E) == E \div Seg(E)
SampleSize(E) == Max2(16, E \div Min2(E \div (2 * NumSegments(E)), 256))
\* preconditions of the arithmetic (each divisor non-zero)
ArithOk(E) == Seg(E) > 0 /\ NumSegments(E) > 0 /\ Min2(E \div (2 * NumSegments(E)), 256) > 0

Lake(T, E) == Min2(T, SampleSize(E))                 \* bytes in the reservoir
Epochs(T, E) == CeilDiv(T - Lake(T, E), 100)         \* reads of up to 100 bytes that return something
SegLen(T, E) == Min2(Seg(E), Lake(T, E))             \* longest segment an epoch can pool
\* an epoch needs a non-empty sample
EpochOk(T, E) == Epochs(T, E) > 0 => Lake(T, E) > 0

UpperBound(T, E, D) == IF E < 16 THEN Min2(T, D) ELSE Min2(D, Epochs(T, E) * SegLen(T, E))
WellDefined(T, E) == E < 16 \/ (ArithOk(E) /\ EpochOk(T, E))

Grid == {0, 1, 15, 16, 17, 99, 100, 101, 2047, 2048, 2049, 4096, 10000, 100000}
\* the sample is cut into segments of Seg(E) bytes; its last segment can be shorter than one k-mer (16 bytes): scoring it
\* must simply find nothing.  Estimates whose sample ends in a tail of 1, 8, 15 and exactly 16 bytes, and sources that
\* are a little longer than those samples (so that an epoch scores the tail):
TailLen(T, E) == IF E < 16 THEN 0 ELSE Lake(T, E) % Seg(E)
GridE == Grid \cup {524544, 526336, 528128, 1052672}
GridT == Grid \cup {2156, 4200}
TailsCovered == {TailLen(T, E) : T \in GridT, E \in GridE} \cap {1, 8, 15, 16} = {1, 8, 15, 16}
\* theorems on the specification over the grid: the procedure is well defined everywhere and bounded by D
Theorems == /\ \A T \in GridT, E \in GridE, D \in Grid : WellDefined(T, E) /\ UpperBound(T, E, D) <= D
            /\ TailsCovered

\* ---- row validation: one observed run of the real builder ------------------------------------------
Rows == ndJsonDeserialize(IOEnv.ROWS)
\* the property: terminates, no panic, the documented promise
Ok(r) == /\ ~r.panic /\ ~r.timeout
         /\ r.len <= r.D
\* as built (conformance only, for readers that answer in full): the structure of the procedure bounds the output
Exact(r) == r.reader = "full" => r.len <= UpperBound(r.T, r.E, r.D)
VARIABLE x
Init == x = 0
Next == /\ x = 0 /\ x' = 1 /\ Assert(Theorems, "DictBuilder theorems fail")
        /\ PrintT(<<"DRIFT", Cardinality({i \in 1..Len(Rows) : Ok(Rows[i]) /\ ~Exact(Rows[i])})>>)
        /\ LET bad == {i \in 1..Len(Rows) : ~Ok(Rows[i])}
           IN PrintT(<<"ROWS", Len(Rows), "BAD", Cardinality(bad), {"dict"},
                       IF bad = {} THEN <<>> ELSE LET S == {i \in bad : \A j \in bad : i <= j} IN <<Rows[CHOOSE i \in S : TRUE]>>>>)
Spec == Init /\ [][Next]_x
=============================================================================
