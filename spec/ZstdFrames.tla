----------------------------- MODULE ZstdFrames -----------------------------
(***************************************************************************)
(* L2 -- Zstandard frames as abstract syntax with their meaning.           *)
(*                                                                         *)
(* A frame is [single, cks, fcs, blocks]; a block is                       *)
(*   [k |-> "raw", bytes]  |  [k |-> "rle", byte, n]  |                    *)
(*   [k |-> "comp", lit, lbytes, fmt, seqs, modes]                         *)
(* lit in {"raw", "rle", "huf1", "huf4", "tree1", "tree4"} (tree = treeless*)
(* literals using the previous Huffman table), fmt the forced size format  *)
(* (-1 = smallest), seqs a sequence of [ll, ofv, ml] (ofv = offset value   *)
(* including the repeat codes 1..3), modes <<ll, of, ml>> each in          *)
(* {"predef", "rle", "fse", "repeat"}.                                     *)
(*                                                                         *)
(* Meaning: Exec runs the blocks over the output produced so far and the   *)
(* repeat-offset history (ZstdFormat!RepStep) and yields the content, or   *)
(* reports the frame invalid (zero offset, offset beyond the produced data,*)
(* repeat mode / treeless literals without a previous table, literals      *)
(* shorter than the sequences need).  The format state carried from block  *)
(* to block is <<huf, llt, oft, mlt, rep>> (table present? / kind).        *)
(*                                                                         *)
(* Frames(...) enumerates frames built from a default compressed block by  *)
(* one or two deviations per block (feature coverage), after a raw block   *)
(* of history; TLC writes each with its meaning for the harness, which     *)
(* serialises it independently and decodes it with the real decoder.       *)
(***************************************************************************)
EXTENDS ZstdFormat, Json, SequencesExt

\* ---- meaning -----------------------------------------------------------------------------------
RECURSIVE Copy(_, _, _)
Copy(out, off, n) == IF n = 0 THEN out ELSE Copy(Append(out, out[Len(out) - off + 1]), off, n - 1)

\* state s = [ok, out, rep, lp, huf, tabs]; tabs = <<ll, of, ml>> with "none" | "predef" | "rle" | "fse"
\* s.dict is the dictionary content in front of the output (empty without a dictionary): a match may start in it
\* (C09).  The dictionary stays reachable only while the data decoded so far does not exceed the window
\* (RFC 8878 section 5: "as long as the amount of data decoded from this frame is less than or equal to Window_Size");
\* the frames enumerated here are serialised with the smallest window, Win.
Win == 1024
RECURSIVE ExecSeqs(_, _, _, _)
ExecSeqs(b, i, s, lits) ==
    IF ~s.ok THEN s
    ELSE IF i > Len(b.seqs) THEN [s EXCEPT !.out = s.out \o SubSeq(lits, s.lp, Len(lits))]
    ELSE LET q == b.seqs[i]
         IN IF s.lp + q.ll - 1 > Len(lits) THEN [s EXCEPT !.ok = FALSE]
            ELSE LET out1 == s.out \o SubSeq(lits, s.lp, s.lp + q.ll - 1)
                     r == RepStep(q.ofv, q.ll, s.rep)
                 IN IF r[1] <= 0 \/ r[1] > Len(out1) + Len(s.dict) \/ (r[1] > Len(out1) /\ Len(out1) > Win) THEN [s EXCEPT !.ok = FALSE]
                    ELSE LET whole == Copy(s.dict \o out1, r[1], q.ml)
                         IN ExecSeqs(b, i + 1, [s EXCEPT !.out = SubSeq(whole, Len(s.dict) + 1, Len(whole)), !.rep = r[2], !.lp = s.lp + q.ll], lits)

\* RLE literals repeat their first byte
LitContent(b) == IF b.lit = "rle" /\ Len(b.lbytes) > 0 THEN [j \in 1..Len(b.lbytes) |-> b.lbytes[1]] ELSE b.lbytes
NewTab(mode, old) == CASE mode = "repeat" -> old [] OTHER -> mode
ExecBlock(b, s) ==
    IF ~s.ok THEN s
    ELSE CASE b.k = "raw" -> [s EXCEPT !.out = s.out \o b.bytes]
           [] b.k = "rle" -> [s EXCEPT !.out = s.out \o [j \in 1..b.n |-> b.byte]]
           [] b.k = "comp" ->
                LET treeless == b.lit \in {"tree1", "tree4"}
                    needTabs == Len(b.seqs) > 0
                    badRepeat == needTabs /\ \E j \in 1..3 : b.modes[j] = "repeat" /\ s.tabs[j] = "none"
                IN IF (treeless /\ ~s.huf) \/ badRepeat THEN [s EXCEPT !.ok = FALSE]
                   ELSE LET s1 == [s EXCEPT !.lp = 1, !.huf = s.huf \/ b.lit \in {"huf1", "huf4"},
                                            !.tabs = IF needTabs THEN [j \in 1..3 |-> NewTab(b.modes[j], s.tabs[j])] ELSE s.tabs]
                        IN ExecSeqs(b, 1, s1, LitContent(b))
RECURSIVE ExecBlocks(_, _, _)
ExecBlocks(bs, i, s) == IF i > Len(bs) THEN s ELSE ExecBlocks(bs, i + 1, ExecBlock(bs[i], s))
S0 == [ok |-> TRUE, out |-> <<>>, rep |-> <<1, 4, 8>>, lp |-> 1, huf |-> FALSE, tabs |-> <<"none", "none", "none">>, dict |-> <<>>]
Meaning(f) == ExecBlocks(f.blocks, 1, S0)
\* a frame that uses a dictionary starts from the dictionary's entropy tables, repeat offsets and content
SD(dict, rep) == [ok |-> TRUE, out |-> <<>>, rep |-> rep, lp |-> 1, huf |-> TRUE, tabs |-> <<"fse", "fse", "fse">>, dict |-> dict]
MeaningD(f, dict, rep) == ExecBlocks(f.blocks, 1, SD(dict, rep))

\* ---- well-formedness the serialiser relies on ------------------------------------------------------
\* RLE mode needs a single code per block; values are kept small so that the code is the value itself
LLc(v) == IF v < 16 THEN v ELSE CodeOf(LLBase, LLBits, v)
MLc(v) == IF v < 35 THEN v - 3 ELSE CodeOf(MLBase, MLBits, v)
OFc(v) == HighBit(v)
RleOk(b) == /\ (b.modes[1] = "rle" => \A i, j \in 1..Len(b.seqs) : LLc(b.seqs[i].ll) = LLc(b.seqs[j].ll))
            /\ (b.modes[2] = "rle" => \A i, j \in 1..Len(b.seqs) : OFc(b.seqs[i].ofv) = OFc(b.seqs[j].ofv))
            /\ (b.modes[3] = "rle" => \A i, j \in 1..Len(b.seqs) : MLc(b.seqs[i].ml) = MLc(b.seqs[j].ml))

\* ---- enumeration: a default block and its deviations -------------------------------------------------
Seq1 == [ll |-> 1, ofv |-> 5, ml |-> 3]                 \* new offset 2
LitBytes(n) == [j \in 1..n |-> (j * 3) % 4]               \* literal values 0..3 (the alphabet of the Huffman table used)
Default == [k |-> "comp", lit |-> "raw", lbytes |-> LitBytes(3), fmt |-> -1, seqs |-> <<Seq1>>, modes |-> <<"predef", "predef", "predef">>]

LitKinds == {"raw", "rle", "huf1", "huf4", "tree1", "tree4"}
Modes == {"predef", "rle", "fse", "repeat"}
SeqMenus == {<<>>, <<Seq1>>,
             << [ll |-> 0, ofv |-> 5, ml |-> 4] >>,                                         \* no literals before the match
             << [ll |-> 1, ofv |-> 1, ml |-> 3] >>, << [ll |-> 1, ofv |-> 2, ml |-> 3] >>,  \* repeat codes with literals
             << [ll |-> 1, ofv |-> 3, ml |-> 3] >>,
             << [ll |-> 0, ofv |-> 1, ml |-> 3] >>, << [ll |-> 0, ofv |-> 2, ml |-> 3] >>,  \* ... and without (shifted meaning)
             << [ll |-> 0, ofv |-> 3, ml |-> 3] >>,
             << [ll |-> 2, ofv |-> 4, ml |-> 20] >>,                                        \* offset 1, overlapping copy
             << Seq1, [ll |-> 0, ofv |-> 1, ml |-> 3], [ll |-> 1, ofv |-> 6, ml |-> 5] >>,  \* three sequences, history evolving
             << [ll |-> 1, ofv |-> 9, ml |-> 3], [ll |-> 0, ofv |-> 3, ml |-> 4], [ll |-> 0, ofv |-> 2, ml |-> 3] >>,
             << [ll |-> 0, ofv |-> 1000, ml |-> 3] >>}                                      \* beyond the produced data: invalid
LitMenus == {0, 1, 3, 6, 40}                              \* literal byte counts (40 forces the 12-bit raw header)
Fmts == {-1, 1, 2, 3}

Dev1 == \* one deviation from the default
    {[Default EXCEPT !.lit = l, !.lbytes = LitBytes(IF l \in {"raw", "rle"} THEN 3 ELSE 8)] : l \in LitKinds} \cup
    {[Default EXCEPT !.fmt = f] : f \in Fmts} \cup
    {[Default EXCEPT !.lit = "huf4", !.fmt = f, !.lbytes = LitBytes(40)] : f \in {1, 2, 3}} \cup
    {[Default EXCEPT !.lbytes = LitBytes(n)] : n \in LitMenus} \cup
    {[Default EXCEPT !.seqs = q] : q \in SeqMenus} \cup
    {[Default EXCEPT !.modes = <<a, b, c>>] : a \in Modes \ {"repeat"}, b \in Modes \ {"repeat"}, c \in Modes \ {"repeat"}}
Dev2 == \* two deviations: literals kind x sequences, modes x sequences
    {[Default EXCEPT !.lit = l, !.seqs = q, !.lbytes = LitBytes(8)] : l \in LitKinds \ {"tree1", "tree4"}, q \in SeqMenus} \cup
    {[Default EXCEPT !.modes = <<a, a, a>>, !.seqs = q] : a \in {"rle", "fse"}, q \in SeqMenus}
\* a follow-up block that depends on the state left by its predecessor
Follow == {[Default EXCEPT !.modes = <<a, b, c>>] : a \in {"repeat", "predef"}, b \in {"repeat", "rle"}, c \in {"repeat", "fse"}} \cup
          {[Default EXCEPT !.lit = l, !.lbytes = LitBytes(8)] : l \in {"tree1", "tree4"}} \cup
          {[Default EXCEPT !.seqs = q] : q \in SeqMenus}
History == [k |-> "raw", bytes |-> <<10, 20, 30, 40, 50>>]
PlainBlocks == {[k |-> "rle", byte |-> 7, n |-> 4], [k |-> "raw", bytes |-> <<>>], [k |-> "raw", bytes |-> <<9, 8>>],
                [k |-> "rle", byte |-> 6, n |-> 300]}        \* 300 bytes: the two-byte content size field (value - 256) becomes usable

Hdrs == {[single |-> FALSE, cks |-> FALSE, fcs |-> 0], [single |-> FALSE, cks |-> TRUE, fcs |-> 0],
         [single |-> TRUE, cks |-> FALSE, fcs |-> 1], [single |-> FALSE, cks |-> TRUE, fcs |-> 2],
         [single |-> TRUE, cks |-> TRUE, fcs |-> 4], [single |-> FALSE, cks |-> FALSE, fcs |-> 8]}
H0 == [single |-> FALSE, cks |-> FALSE, fcs |-> 0]
\* raw / RLE literals use the size formats 0..3, one Huffman stream format 0, four streams formats 1..3
FmtOk(b) == \/ b.fmt = -1
            \/ b.lit \in {"raw", "rle"}
            \/ (b.lit \in {"huf4", "tree4"} /\ b.fmt \in {1, 2, 3})
Wf(b) == b.k # "comp" \/ (RleOk(b) /\ FmtOk(b))
FramesQuick ==
    {[hdr |-> H0, blocks |-> <<History, b>>] : b \in {x \in Dev1 : Wf(x)}} \cup
    {[hdr |-> H0, blocks |-> <<History, b, c>>] : b \in {x \in Dev1 : Wf(x) /\ x.lit \in {"raw", "huf1"}}, c \in {x \in Follow : Wf(x)}} \cup
    {[hdr |-> h, blocks |-> <<History, Default, p>>] : h \in Hdrs, p \in PlainBlocks}
FramesThorough ==
    FramesQuick \cup
    {[hdr |-> H0, blocks |-> <<History, b>>] : b \in {x \in Dev2 : Wf(x)}} \cup
    {[hdr |-> H0, blocks |-> <<History, b, c>>] : b \in {x \in Dev1 : Wf(x)}, c \in {x \in Follow : Wf(x)}}

\* ---- deep tier: full products, values with many extra bits, chains of three dependent blocks --------------------
\* literal lengths / match lengths / offsets in the upper code ranges (extra bits), with the literals they need
BigMenus == {[lits |-> 20, seqs |-> << [ll |-> 17, ofv |-> 5, ml |-> 3] >>],                 \* literal-length code 16 (1 extra bit)
             [lits |-> 40, seqs |-> << [ll |-> 35, ofv |-> 12, ml |-> 36] >>],                \* LL code 22, ML code 32
             [lits |-> 3, seqs |-> << [ll |-> 1, ofv |-> 4, ml |-> 131] >>],                  \* ML code 43 (7 extra bits), overlapping copy
             [lits |-> 70, seqs |-> << [ll |-> 64, ofv |-> 70, ml |-> 67] >>],                \* LL code 25 (6 extra bits), offset code 6
             [lits |-> 3, seqs |-> << [ll |-> 1, ofv |-> 4, ml |-> 300], [ll |-> 0, ofv |-> 259, ml |-> 259] >>],   \* ML code 44 twice, offset 256
             [lits |-> 300, seqs |-> << [ll |-> 300, ofv |-> 303, ml |-> 3] >>]}              \* LL code 27 (8 extra bits), offset 300
ModeTriples == {<<a, b, c>> : a \in Modes \ {"repeat"}, b \in Modes \ {"repeat"}, c \in Modes \ {"repeat"}}
\* (the reference decoder refuses four streams for fewer than 6 literals: at least 8 everywhere)
DeepBig == {[Default EXCEPT !.lit = l, !.lbytes = LitBytes(IF m.lits + 2 < 8 THEN 8 ELSE m.lits + 2), !.seqs = m.seqs, !.modes = t] :
               m \in BigMenus, l \in {"raw", "rle", "huf1", "huf4"}, t \in ModeTriples}
DeepProduct == {[Default EXCEPT !.lit = l, !.lbytes = LitBytes(8), !.seqs = q, !.modes = t] :
               l \in {"raw", "rle", "huf1", "huf4"}, q \in SeqMenus, t \in ModeTriples}
ChainHeads == {x \in Dev1 : Wf(x) /\ x.lit \in {"raw", "huf1"} /\ x.seqs = <<Seq1>> /\ x.fmt = -1}
FramesDeep ==
    FramesThorough \cup
    {[hdr |-> H0, blocks |-> <<History, b>>] : b \in {x \in DeepBig \cup DeepProduct : Wf(x)}} \cup
    {[hdr |-> H0, blocks |-> <<History, b, c, d>>] : b \in ChainHeads, c \in {x \in Follow : Wf(x)}, d \in {x \in Follow : Wf(x)}}

Row(f) == LET m == Meaning(f) IN [frame |-> f, ok |-> m.ok, content |-> m.out, rep |-> m.rep]

\* ---- C09: frames over a dictionary (content DictContent, repeat offsets DictRep; both given by the harness) -----------
CONSTANTS DictContent, DictRep
DL == Len(DictContent)
\* first block: p literal bytes, then one match at distance `off` of length ml (reaching into the dictionary when off > p)
DictBlock(p, off, ml, mode) == [k |-> "comp", lit |-> "raw", lbytes |-> LitBytes(p + 1), fmt |-> -1,
                                seqs |-> << [ll |-> p, ofv |-> off + 3, ml |-> ml] >>, modes |-> <<mode, mode, mode>>]
DictOffsets(p) == {1, 2, p, p + 1, p + 2, p + 3, p + DL - 1, p + DL, p + DL + 1} \ {0}
FramesDict ==
    \* every (literals before, offset, length) around the boundary between dictionary and output
    {[hdr |-> H0, blocks |-> <<DictBlock(p, off, ml, m)>>] : p \in 0..5, off \in UNION {DictOffsets(q) : q \in 0..5}, ml \in {3, 4, 5, 9, 70}, m \in {"predef", "repeat"}} \cup
    \* the dictionary's repeat offsets and tables as the starting state
    {[hdr |-> H0, blocks |-> <<[Default EXCEPT !.seqs = q, !.modes = <<a, a, a>>, !.lit = l, !.lbytes = LitBytes(8)]>>] :
        q \in SeqMenus, a \in {"repeat", "predef", "fse"}, l \in {"raw", "tree1", "tree4", "huf1"}} \cup
    \* the dictionary is reachable while the decoded data does not exceed the window: exactly one window decoded (by a
    \* compressed block: 4 literals and an overlapping match) and a little less.  Beyond the window the property is silent
    \* (no conforming compressor reaches into the dictionary there; this decoder happens to allow it when the data came
    \* from raw / RLE blocks), so those frames are not enumerated.
    UNION {{[hdr |-> H0, blocks |-> <<[Default EXCEPT !.lbytes = LitBytes(4), !.seqs = << [ll |-> 4, ofv |-> 4, ml |-> n - 4] >>],
                                       DictBlock(p, p + n + d, 4, "predef")>>] :
               p \in {x \in {0, 1, 2, 3} : n + x <= Win}, d \in {1, DL}} : n \in {1021, 1022, 1023, 1024}} \cup
    \* a second block after the dictionary was used
    {[hdr |-> H0, blocks |-> <<DictBlock(2, 2 + DL, 6, "repeat"), b>>] : b \in {x \in Follow : Wf(x)}}
RowD(f) == LET m == MeaningD(f, DictContent, DictRep) IN [frame |-> f, ok |-> m.ok, content |-> m.out, rep |-> m.rep]

CONSTANT Tier
VARIABLE x
Init == x = 0
Next == /\ x = 0 /\ x' = 1
        /\ Assert(FormatTheorems, "ZstdFormat theorems do not hold")
        /\ LET rows == IF Tier = "dict" THEN SetToSeq({RowD(f) : f \in FramesDict})
                       ELSE SetToSeq({Row(f) : f \in (IF Tier = "quick" THEN FramesQuick ELSE IF Tier = "deep" THEN FramesDeep ELSE FramesThorough)})
           IN ndJsonSerialize("zf_cases.ndjson", rows)
              /\ PrintT(<<"frames", Len(rows), "valid", Cardinality({i \in 1..Len(rows) : rows[i].ok})>>)
Spec == Init /\ [][Next]_x
=============================================================================
