--------------------------- MODULE RingArithProof ---------------------------
(***************************************************************************)
(* TLAPS proof of the index part of C04 for ARBITRARY capacities:          *)
(*   RingArith!Spec => [](IndInv /\ Safe).                                 *)
(* Apalache discharges the same two obligations symbolically in the C04    *)
(* check; this module is the deductive, machine-checked version (tlapm,    *)
(* SMT + PTL back ends).  TLA+ is untyped, so the proof carries the type   *)
(* invariant (all four variables are integers) that Apalache gets from the *)
(* annotations.                                                            *)
(***************************************************************************)
EXTENDS RingArith, TLAPS

TypeOK == cap \in Int /\ head \in Int /\ tail \in Int /\ len \in Int
Inv == TypeOK /\ IndInv

LEMMA InitInv == Init => Inv
  BY DEF Init, Inv, TypeOK, IndInv, RLen

LEMMA StepInv == Inv /\ [Next]_vars => Inv'
<1> SUFFICES ASSUME Inv, [Next]_vars PROVE Inv'
  OBVIOUS
<1> USE DEF Inv, TypeOK, IndInv, RLen, Free, Wrap
<1>1. ASSUME NEW n \in Int, ExtendFits(n) PROVE Inv'
  <2>0. cap > 0 /\ n > 0 /\ cap - 1 - len >= n /\ len' = len + n /\ cap' = cap /\ head' = head
    BY <1>1 DEF ExtendFits
  <2>1. CASE tail + n >= cap
    <3>1. tail' = tail + n - cap
      BY <1>1, <2>1 DEF ExtendFits
    <3> QED
      BY <2>0, <2>1, <3>1
  <2>2. CASE tail + n < cap
    <3>1. tail' = tail + n
      BY <1>1, <2>2 DEF ExtendFits
    <3> QED
      BY <2>0, <2>2, <3>1
  <2> QED
    BY <2>1, <2>2
<1>2. ASSUME NEW n \in Int, NEW nc \in Int, ExtendGrow(n, nc) PROVE Inv'
  BY <1>2 DEF ExtendGrow
<1>3. ASSUME NEW n \in Int, Drop(n) PROVE Inv'
  BY <1>3 DEF Drop
<1>4. ASSUME Clear PROVE Inv'
  BY <1>4 DEF Clear
<1>5. ASSUME UNCHANGED vars PROVE Inv'
  BY <1>5 DEF vars
<1> QED
  BY <1>1, <1>2, <1>3, <1>4, <1>5 DEF Next

LEMMA InvSafe == Inv => IndInv /\ Safe
  BY DEF Inv, TypeOK, IndInv, Safe

THEOREM Correct == Spec => [](IndInv /\ Safe)
<1>1. Spec => []Inv
  BY InitInv, StepInv, PTL DEF Spec
<1> QED
  BY <1>1, InvSafe, PTL
==============================================================================
