SPECIFICATION TSpec
CONSTANTS
  K = 16
  MaxCap = 100000
  Sizes = {}
INVARIANTS Safe TypeOK
POSTCONDITION Accepted
CHECK_DEADLOCK FALSE
