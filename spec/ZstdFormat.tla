----------------------------- MODULE ZstdFormat -----------------------------
(***************************************************************************)
(* L2 -- the value <-> code mappings, the repeat-offset rule and the       *)
(* section / block / frame headers of RFC 8878 as operators, and the row   *)
(* checks that compare dumped function tables of the implementation        *)
(* (decoder and encoder side, through the pass-through hooks) with them.   *)
(* Sources: RFC 8878 3.1.1.3.2.1.1 (literals length and match length       *)
(* codes), 3.1.1.3.2.1.1 (offset codes), 3.1.1.5 (repeat offsets),         *)
(* 3.1.1.3.1 (literals section header), 3.1.1.3.2.1 (sequences section     *)
(* header), 3.1.1.2 (block header), 3.1.1.1 (frame header).                *)
(***************************************************************************)
EXTENDS Naturals, Integers, Sequences, FiniteSets, TLC

Pow2(n) == 2^n
RECURSIVE HighBit(_)
HighBit(x) == IF x <= 1 THEN 0 ELSE 1 + HighBit(x \div 2)

\* ---- literals length and match length codes -----------------------------------------
LLBase == <<0, 1, 2, 3, 4, 5, 6, 7, 8, 9, 10, 11, 12, 13, 14, 15, 16, 18, 20, 22, 24, 28, 32, 40, 48, 64, 128, 256, 512,
            1024, 2048, 4096, 8192, 16384, 32768, 65536>>
LLBits == <<0, 0, 0, 0, 0, 0, 0, 0, 0, 0, 0, 0, 0, 0, 0, 0, 1, 1, 1, 1, 2, 2, 3, 3, 4, 6, 7, 8, 9, 10, 11, 12, 13, 14, 15, 16>>
MLBase == <<3, 4, 5, 6, 7, 8, 9, 10, 11, 12, 13, 14, 15, 16, 17, 18, 19, 20, 21, 22, 23, 24, 25, 26, 27, 28, 29, 30, 31, 32, 33,
            34, 35, 37, 39, 41, 43, 47, 51, 59, 67, 83, 99, 131, 259, 515, 1027, 2051, 4099, 8195, 16387, 32771, 65539>>
MLBits == <<0, 0, 0, 0, 0, 0, 0, 0, 0, 0, 0, 0, 0, 0, 0, 0, 0, 0, 0, 0, 0, 0, 0, 0, 0, 0, 0, 0, 0, 0, 0, 0, 1, 1, 1, 1, 2, 2, 3, 3,
            4, 4, 5, 7, 8, 9, 10, 11, 12, 13, 14, 15, 16>>

\* code c (0-based) covers base[c] .. base[c] + 2^bits[c] - 1
Covers(base, bits, c, v) == base[c + 1] <= v /\ v < base[c + 1] + Pow2(bits[c + 1])
CodeOf(base, bits, v) == CHOOSE c \in 0..Len(base) - 1 : Covers(base, bits, c, v)
\* the ranges are contiguous and cover 0..131071 / 3..131074 exactly once (checked by TLC in FormatTheorems)
Contiguous(base, bits, lo, hi) ==
    /\ base[1] = lo
    /\ \A c \in 1..Len(base) - 1 : base[c + 1] = base[c] + Pow2(bits[c])
    /\ base[Len(base)] + Pow2(bits[Len(base)]) - 1 = hi

\* ---- offset codes: value = 2^code + extra, code = position of the highest bit -----------------
\* values up to 2^32 - 1 are handled as halves (hi = v \div 65536, lo = v % 65536)
OFCodeOf(hi, lo) == IF hi > 0 THEN 16 + HighBit(hi) ELSE HighBit(lo)
OFExtraHi(hi, lo) == IF hi > 0 THEN hi - Pow2(HighBit(hi)) ELSE 0
OFExtraLo(hi, lo) == IF hi > 0 THEN lo ELSE lo - Pow2(HighBit(lo))

\* ---- repeat offsets (3.1.1.5); h = <<rep1, rep2, rep3>>; returns <<actual offset, history after>> ------
RepStep(ofv, ll, h) ==
    IF ofv > 3 THEN <<ofv - 3, <<ofv - 3, h[1], h[2]>>>>
    ELSE IF ll > 0 THEN
         CASE ofv = 1 -> <<h[1], h>>
           [] ofv = 2 -> <<h[2], <<h[2], h[1], h[3]>>>>
           [] ofv = 3 -> <<h[3], <<h[3], h[1], h[2]>>>>
    ELSE CASE ofv = 1 -> <<h[2], <<h[2], h[1], h[3]>>>>
           [] ofv = 2 -> <<h[3], <<h[3], h[1], h[2]>>>>
           [] ofv = 3 -> <<h[1] - 1, <<h[1] - 1, h[1], h[2]>>>>

\* ---- number of sequences (3.1.1.3.2.1) ------------------------------------------------
SeqCountBytes(n) ==
    IF n < 128 THEN <<n>>
    ELSE IF n < 32512 THEN <<(n \div 256) + 128, n % 256>>
    ELSE <<255, (n - 32512) % 256, (n - 32512) \div 256>>
SeqCountParse(b) ==
    IF b[1] < 128 THEN b[1]
    ELSE IF b[1] < 255 THEN (b[1] - 128) * 256 + b[2]
    ELSE b[2] + b[3] * 256 + 32512
\* the sequences section header on a source of exactly Len(b) bytes: count (1..3 bytes) and, unless the count is
\* zero, the modes byte; [ok, n, used]
SeqHdrParse(b) ==
    LET bad == [ok |-> FALSE, n |-> 0, used |-> 0] IN
    IF Len(b) = 0 THEN bad
    ELSE IF b[1] = 0 THEN [ok |-> TRUE, n |-> 0, used |-> 1]
    ELSE IF b[1] < 128 THEN (IF Len(b) < 2 THEN bad ELSE [ok |-> TRUE, n |-> b[1], used |-> 2])
    ELSE IF b[1] < 255
         THEN IF Len(b) < 2 THEN bad
              ELSE LET n == (b[1] - 128) * 256 + b[2]
                   IN IF n = 0 THEN [ok |-> TRUE, n |-> 0, used |-> 2]
                      ELSE IF Len(b) < 3 THEN bad ELSE [ok |-> TRUE, n |-> n, used |-> 3]
    ELSE IF Len(b) < 4 THEN bad ELSE [ok |-> TRUE, n |-> b[2] + b[3] * 256 + 32512, used |-> 4]

\* ---- literals section header (3.1.1.3.1): value of the little-endian header bytes ---------------
\* returns [type, regen, comp (-1 = none), streams (0 = n/a), bytes]
LE2(b) == b[1] + 256 * b[2]
LE3(b) == b[1] + 256 * b[2] + 65536 * b[3]
LitHeaderParse(b) ==
    LET type == b[1] % 4
        fmt == (b[1] \div 4) % 4
    IN IF type \in {0, 1}
       THEN CASE fmt \in {0, 2} -> [type |-> type, regen |-> b[1] \div 8, comp |-> -1, streams |-> 0, bytes |-> 1]
              [] fmt = 1 -> [type |-> type, regen |-> LE2(b) \div 16, comp |-> -1, streams |-> 0, bytes |-> 2]
              [] fmt = 3 -> [type |-> type, regen |-> LE3(b) \div 16, comp |-> -1, streams |-> 0, bytes |-> 3]
       ELSE CASE fmt \in {0, 1} -> [type |-> type, regen |-> (LE3(b) \div 16) % 1024, comp |-> LE3(b) \div 16384,
                                    streams |-> IF fmt = 0 THEN 1 ELSE 4, bytes |-> 3]
              [] fmt = 2 -> \* 14 + 14 bits over 4 bytes: computed in two halves to stay within 32 bits
                            [type |-> type, regen |-> (LE3(b) \div 16) % 16384, comp |-> (b[3] \div 4) + 64 * b[4],
                             streams |-> 4, bytes |-> 4]
              [] fmt = 3 -> [type |-> type, regen |-> (LE3(b) \div 16) % 262144, comp |-> (b[3] \div 64) + 4 * b[4] + 1024 * b[5],
                             streams |-> 4, bytes |-> 5]

\* ---- block header (3.1.1.2) ------------------------------------------------------------------
MaxBlock == 131072
\* returns [ok, last, type, size]; type 3 is reserved; a size field above 128 KiB is refused for every type
BlockHeaderParse(b) ==
    LET v == LE3(b)
        type == (v \div 2) % 4
        size == v \div 8
    IN [ok |-> type # 3 /\ size <= MaxBlock, last |-> v % 2 = 1, type |-> type, size |-> size]

\* ---- frame header (3.1.1.1) ------------------------------------------------------------------
\* descriptor byte d: field sizes
FcsFlag(d) == d \div 64
SingleSeg(d) == (d \div 32) % 2 = 1
HasChecksum(d) == (d \div 4) % 2 = 1
DidBytes(d) == <<0, 1, 2, 4>>[(d % 4) + 1]
FcsBytes(d) == IF FcsFlag(d) = 0 THEN (IF SingleSeg(d) THEN 1 ELSE 0) ELSE <<2, 4, 8>>[FcsFlag(d)]
FrameHeaderBytes(d) == 4 + 1 + (IF SingleSeg(d) THEN 0 ELSE 1) + DidBytes(d) + FcsBytes(d)

\* ---- theorems checked by TLC on the specification itself ----------------------------------------
FormatTheorems ==
    /\ Contiguous(LLBase, LLBits, 0, 131071)
    /\ Contiguous(MLBase, MLBits, 3, 131074)
    /\ Len(LLBase) = 36 /\ Len(MLBase) = 53
    /\ \A n \in {0, 1, 127, 128, 129, 255, 256, 32511, 32512, 32513, 65535, 65536, 98046, 98047} : SeqCountParse(SeqCountBytes(n)) = n
    /\ \A h1 \in {1, 2, 9}, h2 \in {4, 7}, h3 \in {8, 3} : \A ofv \in 1..6, ll \in {0, 5} :
          LET r == RepStep(ofv, ll, <<h1, h2, h3>>) IN r[2][1] = r[1] \/ (ofv = 1 /\ ll > 0)
=============================================================================
