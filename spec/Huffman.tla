------------------------------ MODULE Huffman ------------------------------
(***************************************************************************)
(* Huffman coding of literals as specified in RFC 8878 section 4.2:        *)
(* weights -> number of bits -> canonical codes, the direct weight         *)
(* description, completeness, and decoding of a backward bit stream.       *)
(* w is the sequence of explicit weights of symbols 0..Len(w)-1; symbol    *)
(* Len(w) carries the implied last weight.                                 *)
(***************************************************************************)
EXTENDS Naturals, Integers, Sequences, FiniteSets, TLC

Pow2(n) == 2^n
RECURSIVE HighBit(_)
HighBit(x) == IF x <= 1 THEN 0 ELSE 1 + HighBit(x \div 2)
IsPow2(x) == x > 0 /\ Pow2(HighBit(x)) = x
RECURSIVE SumW(_, _)
SumW(w, i) == IF i > Len(w) THEN 0 ELSE (IF w[i] > 0 THEN Pow2(w[i] - 1) ELSE 0) + SumW(w, i + 1)
MaxBits(w) == HighBit(SumW(w, 1)) + 1
LeftOver(w) == Pow2(MaxBits(w)) - SumW(w, 1)
\* the explicit weights complete to a power of two with one more power of two, depth at most 11
Complete(w) == SumW(w, 1) > 0 /\ IsPow2(LeftOver(w)) /\ MaxBits(w) <= 11
AllW(w) == Append(w, HighBit(LeftOver(w)) + 1)          \* all weights; 1-based index = symbol + 1
\* a minimal Huffman tree has an even, non-zero number of longest codes (weight 1); the reference decoder insists on it
Rank1(w) == LET a == AllW(w) IN Cardinality({i \in 1..Len(a) : a[i] = 1})
ValidW(w) == Complete(w) /\ Rank1(w) >= 2 /\ Rank1(w) % 2 = 0

\* ---- from all weights a (1-based by symbol + 1) with maximum depth mb ---------------------------------
NbBitsA(a, mb, s) == IF a[s + 1] = 0 THEN 0 ELSE mb + 1 - a[s + 1]
\* canonical code: position of the symbol's range in the 2^mb decoding table (weight ascending, then symbol ascending)
Before(a, s, t) == a[t + 1] > 0 /\ (a[t + 1] < a[s + 1] \/ (a[t + 1] = a[s + 1] /\ t < s))
RECURSIVE StartOf(_, _, _)
StartOf(a, s, t) == IF t >= Len(a) THEN 0 ELSE (IF Before(a, s, t) THEN Pow2(a[t + 1] - 1) ELSE 0) + StartOf(a, s, t + 1)
CodeA(a, s) == StartOf(a, s, 0) \div Pow2(a[s + 1] - 1)
NbBits(w, s) == NbBitsA(AllW(w), MaxBits(w), s)
Code(w, s) == CodeA(AllW(w), s)

\* prefix-free and complete: Kraft sum exactly one
RECURSIVE Kraft(_, _, _)
Kraft(a, mb, i) == IF i > Len(a) THEN 0 ELSE (IF a[i] > 0 THEN Pow2(a[i] - 1) ELSE 0) + Kraft(a, mb, i + 1)
CompleteCode(a, mb) == Kraft(a, mb, 1) = Pow2(mb) /\ mb <= 11

\* ---- descriptions ---------------------------------------------------------------------------------------
Nib(w, i) == IF i <= Len(w) THEN w[i] ELSE 0
DirectDesc(w) == <<127 + Len(w)>> \o [j \in 1..((Len(w) + 1) \div 2) |-> Nib(w, 2 * j - 1) * 16 + Nib(w, 2 * j)]
\* explicit weights from a direct description (header byte 128..255)
DirectParse(d) == LET n == d[1] - 127 IN [i \in 1..n |-> IF i % 2 = 1 THEN d[1 + (i + 1) \div 2] \div 16 ELSE d[1 + i \div 2] % 16]
DirectLen(d) == 1 + ((d[1] - 127) + 1) \div 2

\* ---- streams: last literal first, each code at increasing bit positions, then the end mark ------------------
RECURSIVE BitsOf(_, _)
BitsOf(v, n) == IF n = 0 THEN <<>> ELSE <<v % 2>> \o BitsOf(v \div 2, n - 1)
RECURSIVE StreamBits(_, _, _)
StreamBits(w, data, i) == IF i = 0 THEN <<1>> ELSE BitsOf(Code(w, data[i]), NbBits(w, data[i])) \o StreamBits(w, data, i - 1)
Pad8(bits) == bits \o [k \in 1..((8 - (Len(bits) % 8)) % 8) |-> 0]
RECURSIVE ByteVal(_, _)
ByteVal(bits, k) == IF k = 0 THEN 0 ELSE bits[k] * Pow2(k - 1) + ByteVal(bits, k - 1)
ToBytes(bits) == LET b == Pad8(bits) IN [j \in 1..(Len(b) \div 8) |-> ByteVal(SubSeq(b, 8 * (j - 1) + 1, 8 * j), 8)]
StreamBytes(w, data) == ToBytes(StreamBits(w, data, Len(data)))

\* decoding with all weights a / depth mb: returns <<symbols, bits left>>
BitsOfBytes(bytes) == [k \in 1..(8 * Len(bytes)) |-> (bytes[((k - 1) \div 8) + 1] \div Pow2((k - 1) % 8)) % 2]
StartTop(bits) == LET RECURSIVE Find(_)
                      Find(k) == IF k = 0 THEN 0 ELSE IF bits[k] = 1 THEN k - 1 ELSE Find(k - 1)
                  IN Find(Len(bits))
RECURSIVE TakeBits(_, _, _)
TakeBits(bits, top, n) == IF n = 0 THEN 0 ELSE (IF top >= 1 THEN bits[top] ELSE 0) * Pow2(n - 1) + TakeBits(bits, top - 1, n - 1)
Used(a) == {s \in 0..Len(a) - 1 : a[s + 1] > 0}
\* the code table is computed once: cv[s + 1] = canonical code value, cl[s + 1] = number of bits (0 = unused)
\* (same value as CodeA, computed from per-weight totals instead of one pass per symbol)
RECURSIVE BelowW(_, _)
BelowW(a, w) == IF w <= 1 THEN 0 ELSE BelowW(a, w - 1) + Cardinality({t \in 1..Len(a) : a[t] = w - 1}) * Pow2(w - 2)
CodeTable(a) == LET bw == [w \in 1..16 |-> BelowW(a, w)]
                IN [i \in 1..Len(a) |-> IF a[i] > 0 THEN (bw[a[i]] \div Pow2(a[i] - 1)) + Cardinality({t \in 1..i - 1 : a[t] = a[i]}) ELSE 0]
LenTable(a, mb) == [i \in 1..Len(a) |-> NbBitsA(a, mb, i - 1)]
RECURSIVE DecT(_, _, _, _, _, _, _)
DecT(cv, cl, used, bits, top, n, out) ==
    IF n = 0 THEN <<out, top>>
    ELSE LET m == {s \in used : cl[s + 1] <= top /\ TakeBits(bits, top, cl[s + 1]) = cv[s + 1]}
         IN IF m = {} THEN <<out, -1>>
            ELSE LET s == CHOOSE x \in m : TRUE IN DecT(cv, cl, used, bits, top - cl[s + 1], n - 1, Append(out, s))
DecodeStream(a, mb, bytes, n) ==
    LET bits == BitsOfBytes(bytes)
        cv == CodeTable(a)
        cl == LenTable(a, mb)
    IN DecT(cv, cl, Used(a), bits, StartTop(bits), n, <<>>)
=============================================================================
