----------------------------- MODULE ParseClasses -----------------------------
(***************************************************************************)
(* C16 -- the classes of valid parses the block encoder distinguishes      *)
(* (encoding/blocks/compressed.rs): the form of the sequence count         *)
(* (1 byte / 2 bytes / 3 bytes and their boundaries), the shape of the     *)
(* three code sets that feed the FSE table builder (a single code, code 0  *)
(* only, two codes, many), the literals decision (raw when <= 1024, else   *)
(* Huffman over one symbol / two symbols / many), and whether the result   *)
(* is smaller than the block (kept) or not (raw fallback).  TLC enumerates *)
(* the product; the harness materialises each class as a concrete valid    *)
(* parse (data synthesised from the plan, so that every match is true by   *)
(* construction) and drives the compressor through the public Matcher      *)
(* trait.  The contract of a valid parse is Matcher!SeqsOk with minimum    *)
(* match length 3.                                                         *)
(***************************************************************************)
EXTENDS Naturals, Sequences, FiniteSets, TLC, Json, SequencesExt

F == INSTANCE ZstdFormat

SeqCounts == {0, 1, 2, 127, 128, 129, 32511, 32512, 32513, 32767, 32768, 43690}
CodeShapes == {"zero", "single", "two", "many"}       \* for literal lengths and match lengths ("zero" = only code 0)
OffShapes == {"single", "two", "many"}
Literals == {"few", "one_symbol", "two_symbols", "many_symbols"}

\* what is realisable in one 128 KiB block: n sequences need at least 3 n bytes; shapes with larger values need more room
Feasible(c) == /\ (c.n = 0 => c.ll = "zero" /\ c.ml = "zero" /\ c.of = "single")
               /\ (c.n >= 32511 => c.ml \in {"zero", "two"} /\ c.ll \in {"zero", "two"})        \* only the smallest lengths fit
               /\ (c.n = 43690 => c.ml = "zero" /\ c.ll = "zero" /\ c.lits = "few")
               /\ (c.n <= 2 => c.ll \in {"zero", "single"} /\ c.ml \in {"zero", "single"} /\ c.of = "single")
               /\ (c.lits # "few" => c.n <= 32513)
Classes == {c \in [n : SeqCounts, ll : CodeShapes, ml : CodeShapes, of : OffShapes, lits : Literals] : Feasible(c)}

\* the sequence-count form the encoder has to choose (C14's codec, restated as the class boundary)
CountForm(n) == IF n = 0 THEN 0 ELSE IF n < 128 THEN 1 ELSE IF n < 32512 THEN 2 ELSE 3
Covered == {CountForm(c.n) : c \in Classes} = {0, 1, 2, 3}

\* ---------------------------------------------------------------------------------------------------
\* Code histograms and the accuracy log the table builder picks (fse_encoder.rs, build_table_from_counts):
\* counts are shifted down so that the smallest is 1, divided down when the largest exceeds the number of
\* described symbols, and the accuracy log is  max(5, floor(log2(sum)) + 1)  CLAMPED to the field's limit
\* (RFC 8878 3.1.1.3.2.1: literal lengths 9, offsets 8, match lengths 9).  The classes below are histograms
\* "k codes used c times each (+ one code used once)", placed at the low or the high end of the codes a
\* block can realise; for each the specification gives the unclamped and the chosen accuracy log.  They
\* are chosen so that the clamp is reached for every field (ClampReached) -- there the compressor's output
\* is only decodable because of the clamp.
Fields == {"ll", "of", "ml"}
MaxLog(f) == CASE f = "ll" -> 9 [] f = "of" -> 8 [] f = "ml" -> 9
Usable(f) == CASE f = "ll" -> 0..28 [] f = "of" -> 2..17 [] f = "ml" -> 0..45        \* codes whose values fit a block / the history
Ks(f) == CASE f = "ll" -> {2, 3, 5, 8, 12, 16, 20, 25, 28} [] f = "of" -> 2..15 [] f = "ml" -> {2, 3, 5, 8, 12, 16, 24, 32, 40, 45}
Uses == {1, 2, 3, 5, 8, 16, 24, 31, 40, 64}
SetMin(S) == CHOOSE m \in S : \A y \in S : m <= y
SetMax(S) == CHOOSE m \in S : \A y \in S : m >= y
\* counts per code 0..max used code
HistOf(f, k, c, single, place) ==
    LET lo == SetMin(Usable(f))  hi == SetMax(Usable(f))
        n == k + (IF single THEN 1 ELSE 0)
        first == IF place = "low" THEN lo ELSE hi - n + 1
        one == IF place = "low" THEN first + k ELSE first          \* the code used once
        many == IF place = "low" THEN first..(first + k - 1) ELSE (first + n - k)..hi
    IN [i \in 1..(first + n) |-> IF (i - 1) \in many THEN c ELSE IF single /\ i - 1 = one THEN 1 ELSE 0]
RECURSIVE SumSeq(_, _)
SumSeq(h, i) == IF i > Len(h) THEN 0 ELSE h[i] + SumSeq(h, i + 1)
ILog2(v) == F!HighBit(v)
Max2(a, b) == IF a > b THEN a ELSE b
Min2(a, b) == IF a < b THEN a ELSE b
\* the builder always describes at least two symbols
Described(h) == IF Len(h) < 2 THEN h \o <<0>> ELSE h
Shifted(h) == LET m == SetMin({h[i] : i \in {j \in 1..Len(h) : h[j] > 0}}) IN [i \in 1..Len(h) |-> IF h[i] > 0 THEN h[i] - (m - 1) ELSE 0]
Scaled(h) == LET mx == SetMax({h[i] : i \in 1..Len(h)})
             IN IF mx > Len(h) THEN LET d == mx \div Len(h) IN [i \in 1..Len(h) |-> IF h[i] > 0 THEN Max2(h[i] \div d, 1) ELSE 0] ELSE h
UnclampedLog(h) == Max2(5, ILog2(SumSeq(Scaled(Shifted(Described(h))), 1)) + 1)
ChosenLog(f, h) == Min2(UnclampedLog(h), MaxLog(f))
BytesNeeded(f, h) == IF f = "ll" THEN SumSeq([i \in 1..Len(h) |-> h[i] * (F!LLBase[i] + 3)], 1)
                     ELSE IF f = "ml" THEN SumSeq([i \in 1..Len(h) |-> h[i] * (F!MLBase[i] + 1)], 1)
                     ELSE 5 * SumSeq(h, 1)
HistClasses == {[field |-> f, k |-> k, c |-> c, single |-> sg, place |-> pl,
                 hist |-> HistOf(f, k, c, sg, pl), unclamped |-> UnclampedLog(HistOf(f, k, c, sg, pl)), al |-> ChosenLog(f, HistOf(f, k, c, sg, pl))]
                : f \in Fields, k \in UNION {Ks(g) : g \in Fields}, c \in Uses, sg \in BOOLEAN, pl \in {"low", "high"}}
HistFeasible(cl) == /\ cl.k \in Ks(cl.field)
                    /\ cl.k + (IF cl.single THEN 1 ELSE 0) <= Cardinality(Usable(cl.field))
                    /\ BytesNeeded(cl.field, cl.hist) <= 120000
HistRows == {cl \in HistClasses : HistFeasible(cl)}
ClampReached == \A f \in Fields : \E cl \in HistRows : cl.field = f /\ cl.unclamped > MaxLog(f)

VARIABLE x
Init == x = 0
Next == /\ x = 0 /\ x' = 1 /\ Assert(Covered, "sequence count forms not covered")
        /\ Assert(ClampReached, "no histogram class reaches the accuracy log clamp")
        /\ LET rows == SetToSeq(Classes) IN ndJsonSerialize("parse_classes.ndjson", rows) /\ PrintT(<<"classes", Len(rows)>>)
        /\ LET rows == SetToSeq(HistRows) IN ndJsonSerialize("hist_classes.ndjson", rows) /\ PrintT(<<"histclasses", Len(rows)>>)
Spec == Init /\ [][Next]_x
=============================================================================
