----------------------------- MODULE ParseClasses -----------------------------
(***************************************************************************)
(* C16 -- the classes of valid parses the block encoder distinguishes      *)
(* (encoding/blocks/compressed.rs): the form of the sequence count         *)
(* (1 byte / 2 bytes / 3 bytes and their boundaries), the shape of the     *)
(* three code sets that feed the FSE table builder (a single code, code 0  *)
(* only, two codes, many), the literals decision (raw when <= 1024, else   *)
(* Huffman over one symbol / two symbols / many), and whether the result   *)
(* is smaller than the block (kept) or not (raw fallback).  TLC enumerates *)
(* the product; the harness materialises each class as a concrete valid    *)
(* parse (data synthesised from the plan, so that every match is true by   *)
(* construction) and drives the compressor through the public Matcher      *)
(* trait.  The contract of a valid parse is Matcher!SeqsOk with minimum    *)
(* match length 3.                                                         *)
(***************************************************************************)
EXTENDS Naturals, Sequences, FiniteSets, TLC, Json, SequencesExt

SeqCounts == {0, 1, 2, 127, 128, 129, 32511, 32512, 32513, 32767, 32768, 43690}
CodeShapes == {"zero", "single", "two", "many"}       \* for literal lengths and match lengths ("zero" = only code 0)
OffShapes == {"single", "two", "many"}
Literals == {"few", "one_symbol", "two_symbols", "many_symbols"}

\* what is realisable in one 128 KiB block: n sequences need at least 3 n bytes; shapes with larger values need more room
Feasible(c) == /\ (c.n = 0 => c.ll = "zero" /\ c.ml = "zero" /\ c.of = "single")
               /\ (c.n >= 32511 => c.ml \in {"zero", "two"} /\ c.ll \in {"zero", "two"})        \* only the smallest lengths fit
               /\ (c.n = 43690 => c.ml = "zero" /\ c.ll = "zero" /\ c.lits = "few")
               /\ (c.n <= 2 => c.ll \in {"zero", "single"} /\ c.ml \in {"zero", "single"} /\ c.of = "single")
               /\ (c.lits # "few" => c.n <= 32513)
Classes == {c \in [n : SeqCounts, ll : CodeShapes, ml : CodeShapes, of : OffShapes, lits : Literals] : Feasible(c)}

\* the sequence-count form the encoder has to choose (C14's codec, restated as the class boundary)
CountForm(n) == IF n = 0 THEN 0 ELSE IF n < 128 THEN 1 ELSE IF n < 32512 THEN 2 ELSE 3
Covered == {CountForm(c.n) : c \in Classes} = {0, 1, 2, 3}

VARIABLE x
Init == x = 0
Next == /\ x = 0 /\ x' = 1 /\ Assert(Covered, "sequence count forms not covered")
        /\ LET rows == SetToSeq(Classes) IN ndJsonSerialize("parse_classes.ndjson", rows) /\ PrintT(<<"classes", Len(rows)>>)
Spec == Init /\ [][Next]_x
=============================================================================
