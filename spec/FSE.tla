-------------------------------- MODULE FSE --------------------------------
(***************************************************************************)
(* Finite State Entropy as specified in RFC 8878 section 4.1:              *)
(*   Table(al, probs)       decoding table built from a normalised         *)
(*                          distribution (probabilities may be -1, "less   *)
(*                          than one") by the spread / baseline rules      *)
(*   DescBits / DescBytes   the table description (variable width values   *)
(*                          with the low-threshold trick and zero runs)    *)
(*   ReadDesc               the inverse (bits -> al, probs, bytes used)    *)
(*   Decode1 / Decode2      decoding of a backward bit stream with one     *)
(*                          state / two interleaved states                 *)
(*   LLDef, MLDef, OFDef    the predefined distributions                   *)
(* probs is a sequence (1-based; symbol = index - 1).                      *)
(***************************************************************************)
EXTENDS Naturals, Integers, Sequences, FiniteSets, TLC

Pow2(n) == 2^n
RECURSIVE HighBit(_)
HighBit(x) == IF x <= 1 THEN 0 ELSE 1 + HighBit(x \div 2)      \* floor(log2 x)
Size(al) == Pow2(al)
StepOf(al) == (Size(al) \div 2) + (Size(al) \div 8) + 3
Weight(p) == IF p = -1 THEN 1 ELSE p
RECURSIVE SumW(_, _)
SumW(probs, i) == IF i > Len(probs) THEN 0 ELSE Weight(probs[i]) + SumW(probs, i + 1)
Normalised(al, probs) == /\ SumW(probs, 1) = Size(al) /\ \A i \in 1..Len(probs) : probs[i] >= -1
                         /\ probs # <<>> /\ probs[Len(probs)] # 0

\* ---- spreading of the symbols over the table --------------------------------------------
NegSyms(probs) == SelectSeq([i \in 1..Len(probs) |-> i - 1], LAMBDA s : probs[s + 1] = -1)
RECURSIVE Adv(_, _, _)
Adv(al, hi, p) == LET q == (p + StepOf(al)) % Size(al) IN IF q > hi THEN Adv(al, hi, q) ELSE q
RECURSIVE Place(_, _, _, _, _, _)
Place(al, hi, sym, cnt, pos, tab) ==
    IF cnt = 0 THEN <<pos, tab>>
    ELSE Place(al, hi, sym, cnt - 1, Adv(al, hi, pos), [tab EXCEPT ![pos] = sym])
RECURSIVE SpreadAll(_, _, _, _, _, _)
SpreadAll(al, probs, hi, s, pos, tab) ==
    IF s > Len(probs) THEN tab
    ELSE IF probs[s] <= 0 THEN SpreadAll(al, probs, hi, s + 1, pos, tab)
    ELSE LET r == Place(al, hi, s - 1, probs[s], pos, tab) IN SpreadAll(al, probs, hi, s + 1, r[1], r[2])
SymTable(al, probs) ==
    LET neg == NegSyms(probs)
        hi == Size(al) - 1 - Len(neg)
        t0 == [p \in 0..Size(al) - 1 |-> IF p > hi THEN neg[Size(al) - p] ELSE -1]
    IN SpreadAll(al, probs, hi, 1, 0, t0)

\* ---- number of bits and baseline of every state ------------------------------------------------
Entry(al, probs, tab, st) ==
    LET sym == tab[st]
        p == probs[sym + 1]
    IN IF p = -1 THEN [sym |-> sym, nb |-> al, bl |-> 0]
       ELSE LET k == Cardinality({q \in 0..st - 1 : tab[q] = sym})      \* rank of this state among the symbol's states
                lg == IF Pow2(HighBit(p)) = p THEN HighBit(p) ELSE HighBit(p) + 1
                slices == Pow2(lg)
                dbl == slices - p              \* states that get one bit more
                sgl == p - dbl
                width == Size(al) \div slices
                nb == al - lg
            IN IF k < dbl THEN [sym |-> sym, nb |-> nb + 1, bl |-> sgl * width + k * width * 2]
               ELSE [sym |-> sym, nb |-> nb, bl |-> (k - dbl) * width]
Table(al, probs) == LET tab == SymTable(al, probs) IN [st \in 0..Size(al) - 1 |-> Entry(al, probs, tab, st)]

\* every state of the table is the target of exactly one (state, bits) pair per symbol: the ranges of a symbol's
\* states partition 0..Size-1 (what makes the encoder the inverse of the decoder)
Partition(al, probs) ==
    LET t == Table(al, probs)
    IN \A s \in 0..Len(probs) - 1 : probs[s + 1] # 0 =>
          \A target \in 0..Size(al) - 1 :
              Cardinality({st \in 0..Size(al) - 1 : t[st].sym = s /\ t[st].bl <= target /\ target < t[st].bl + Pow2(t[st].nb)}) = 1

\* ---- table description, bit level (bits are listed in the order the forward reader consumes them) ------
RECURSIVE BitsOf(_, _)
BitsOf(v, n) == IF n = 0 THEN <<>> ELSE <<v % 2>> \o BitsOf(v \div 2, n - 1)
ProbBits(al, counter, prob) ==
    LET maxrem == Size(al) - counter + 1
        nb == HighBit(maxrem) + 1
        low == (Pow2(nb) - 1) - maxrem
        mask == Pow2(nb - 1) - 1
        value == prob + 1
    IN IF value < low THEN BitsOf(value, nb - 1)
       ELSE IF value > mask THEN BitsOf(value + low, nb)
       ELSE BitsOf(value, nb)
RECURSIVE ZeroRun(_, _)
ZeroRun(probs, i) == IF i <= Len(probs) /\ probs[i] = 0 THEN 1 + ZeroRun(probs, i + 1) ELSE 0
RECURSIVE RunBits(_)
RunBits(z) == IF z >= 3 THEN <<1, 1>> \o RunBits(z - 3) ELSE BitsOf(z, 2)
RECURSIVE DescFrom(_, _, _, _)
DescFrom(al, probs, i, counter) ==
    IF counter >= Size(al) \/ i > Len(probs) THEN <<>>
    ELSE LET p == probs[i]
             pb == ProbBits(al, counter, p)
         IN IF p = 0
            THEN LET z == ZeroRun(probs, i + 1) IN pb \o RunBits(z) \o DescFrom(al, probs, i + 1 + z, counter)
            ELSE pb \o DescFrom(al, probs, i + 1, counter + Weight(p))
DescBits(al, probs) == BitsOf(al - 5, 4) \o DescFrom(al, probs, 1, 0)
Pad8(bits) == bits \o [k \in 1..((8 - (Len(bits) % 8)) % 8) |-> 0]
RECURSIVE ByteVal(_, _)
ByteVal(bits, k) == IF k = 0 THEN 0 ELSE bits[k] * Pow2(k - 1) + ByteVal(bits, k - 1)
BytesOf(bits) == LET b == Pad8(bits) IN [j \in 1..(Len(b) \div 8) |-> ByteVal(SubSeq(b, 8 * (j - 1) + 1, 8 * j), 8)]
DescBytes(al, probs) == BytesOf(DescBits(al, probs))

\* ---- reading a description back -------------------------------------------------------------------
BitsOfBytes(bytes) == [k \in 1..(8 * Len(bytes)) |-> (bytes[((k - 1) \div 8) + 1] \div Pow2((k - 1) % 8)) % 2]
RECURSIVE ValAt(_, _, _)
ValAt(bits, pos, n) == IF n = 0 THEN 0 ELSE (IF pos <= Len(bits) THEN bits[pos] ELSE 0) + 2 * ValAt(bits, pos + 1, n - 1)
RECURSIVE ReadRuns(_, _, _)
\* returns <<zeros, position after>>
ReadRuns(bits, pos, acc) == LET v == ValAt(bits, pos, 2) IN IF v = 3 THEN ReadRuns(bits, pos + 2, acc + 3) ELSE <<acc + v, pos + 2>>
RECURSIVE ReadProbs(_, _, _, _, _)
\* returns <<probs, position after>>
ReadProbs(al, bits, pos, counter, probs) ==
    IF counter >= Size(al) THEN <<probs, pos>>
    ELSE LET maxrem == Size(al) - counter + 1
             nb == HighBit(maxrem) + 1
             low == (Pow2(nb) - 1) - maxrem
             mask == Pow2(nb - 1) - 1
             unchecked == ValAt(bits, pos, nb)
             small == unchecked % Pow2(nb - 1)
             short == small < low
             value == IF short THEN small ELSE IF unchecked > mask THEN unchecked - low ELSE unchecked
             used == IF short THEN nb - 1 ELSE nb
             p == value - 1
         IN IF p = 0
            THEN LET r == ReadRuns(bits, pos + used, 0)
                 IN ReadProbs(al, bits, r[2], counter, probs \o <<0>> \o [k \in 1..r[1] |-> 0])
            ELSE ReadProbs(al, bits, pos + used, counter + Weight(p), Append(probs, p))
ReadDesc(bytes) ==
    LET bits == BitsOfBytes(bytes)
        al == 5 + ValAt(bits, 1, 4)
        r == ReadProbs(al, bits, 5, 0, <<>>)
    IN [al |-> al, probs |-> r[1], used |-> (r[2] - 1 + 7) \div 8]

\* ---- decoding a backward bit stream ----------------------------------------------------------------
\* the stream is read from its last byte: skip the padding zeros and the end mark, then take bits downwards
\* bits are numbered 1..8n from the first byte's least significant bit; `top` is the next bit to read
StartTop(bytes) ==
    LET bits == BitsOfBytes(bytes)
        RECURSIVE Find(_)
        Find(k) == IF k = 0 THEN 0 ELSE IF bits[k] = 1 THEN k - 1 ELSE Find(k - 1)
    IN Find(Len(bits))
\* value of the n bits below and including position top (most significant first); missing bits read as 0
RECURSIVE TakeBits(_, _, _)
TakeBits(bits, top, n) == IF n = 0 THEN 0 ELSE (IF top >= 1 THEN bits[top] ELSE 0) * Pow2(n - 1) + TakeBits(bits, top - 1, n - 1)
RECURSIVE Dec1(_, _, _, _, _, _)
Dec1(t, bits, top, st, n, out) ==
    IF n = 0 THEN <<out, top>>
    ELSE LET e == t[st]
             out2 == Append(out, e.sym)
         IN IF n = 1 THEN <<out2, top>>
            ELSE Dec1(t, bits, top - e.nb, e.bl + TakeBits(bits, top, e.nb), n - 1, out2)
\* one state: returns <<symbols, bits left>>
Decode1(al, probs, bytes, n) ==
    LET t == Table(al, probs)
        bits == BitsOfBytes(bytes)
        top == StartTop(bytes)
        st == TakeBits(bits, top, al)
    IN Dec1(t, bits, top - al, st, n, <<>>)
RECURSIVE Dec2(_, _, _, _, _, _, _)
Dec2(t, bits, top, s1, s2, n, out) ==
    \* s1 produces the next symbol; the two states alternate
    IF n = 0 THEN <<out, top>>
    ELSE LET e == t[s1]
             out2 == Append(out, e.sym)
         IN IF n <= 2 THEN (IF n = 1 THEN <<out2, top>> ELSE <<Append(out2, t[s2].sym), top>>)
            ELSE Dec2(t, bits, top - e.nb, s2, e.bl + TakeBits(bits, top, e.nb), n - 1, out2)
Decode2(al, probs, bytes, n) ==
    LET t == Table(al, probs)
        bits == BitsOfBytes(bytes)
        top == StartTop(bytes)
        s1 == TakeBits(bits, top, al)
        s2 == TakeBits(bits, top - al, al)
    IN Dec2(t, bits, top - 2 * al, s1, s2, n, <<>>)

\* ---- predefined distributions (RFC 8878 3.1.1.3.2.2) ---------------------------------------------------
LLDef == <<4, 3, 2, 2, 2, 2, 2, 2, 2, 2, 2, 2, 2, 1, 1, 1, 2, 2, 2, 2, 2, 2, 2, 2, 2, 3, 2, 1, 1, 1, 1, 1, -1, -1, -1, -1>>
MLDef == <<1, 4, 3, 2, 2, 2, 2, 2, 2, 1, 1, 1, 1, 1, 1, 1, 1, 1, 1, 1, 1, 1, 1, 1, 1, 1, 1, 1, 1, 1, 1, 1, 1, 1, 1, 1, 1, 1, 1, 1,
           1, 1, 1, 1, 1, 1, -1, -1, -1, -1, -1, -1, -1>>
OFDef == <<1, 1, 1, 1, 1, 1, 2, 2, 2, 1, 1, 1, 1, 1, 1, 1, 1, 1, 1, 1, 1, 1, 1, 1, -1, -1, -1, -1, -1>>
=============================================================================
