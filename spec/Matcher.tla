------------------------------- MODULE Matcher -------------------------------
(***************************************************************************)
(* E1 -- the built-in match finder (encoding/match_generator.rs).          *)
(*                                                                         *)
(* Part 1, the window bookkeeping of MatchGenerator as a state machine:    *)
(* entries (committed blocks) with their lengths and base offsets,         *)
(* eviction in reserve() while the new block does not fit, the base-offset *)
(* update of add_data, reset with recycling.  Invariants: the window never *)
(* holds more than its advertised size; base_offset of an entry is the     *)
(* distance from its start to the start of the current entry (what makes   *)
(* reported offsets true distances).  Dev_BaseOff = TRUE models the update *)
(* with an off-by-one.                                                     *)
(*                                                                         *)
(* Part 2, the contract of reported sequences (used by MatcherRows):       *)
(* the literals and matches reported for a block tile it exactly, a match  *)
(* is at least MinMatch long, its distance does not exceed the advertised  *)
(* window nor the data still retained, and the bytes are equal.            *)
(***************************************************************************)
EXTENDS Naturals, Integers, Sequences, FiniteSets, TLC

CONSTANTS MaxWindow,   \* max_window_size = slice_size * max_slices_in_window
          Lens,        \* block lengths offered to commit_space
          MaxCommits,
          Dev_BaseOff

VARIABLES entries,     \* sequence of [len, base]: the window, oldest first
          commits,
          pool         \* number of recycled buffers
vars == <<entries, commits, pool>>

RECURSIVE SumLen(_, _)
SumLen(es, i) == IF i > Len(es) THEN 0 ELSE es[i].len + SumLen(es, i + 1)
WindowSize == SumLen(entries, 1)

Init == entries = <<>> /\ commits = 0 /\ pool = 0

\* reserve(amount): drop entries from the front while the new block does not fit
RECURSIVE Evict(_, _)
Evict(es, amount) == IF es # <<>> /\ SumLen(es, 1) + amount > MaxWindow THEN Evict(Tail(es), amount) ELSE es

Commit(n) ==
    /\ commits < MaxCommits /\ n <= MaxWindow
    /\ LET kept == Evict(entries, n)
           lastLen == IF kept = <<>> THEN 0 ELSE kept[Len(kept)].len
           \* add_data: every retained entry moves back by the length of the block that was last
           moved == [i \in 1..Len(kept) |-> [kept[i] EXCEPT !.base = @ + (IF Dev_BaseOff /\ lastLen > 0 THEN lastLen - 1 ELSE lastLen)]]
       IN /\ entries' = Append(moved, [len |-> n, base |-> 0])
          /\ pool' = pool + (Len(entries) - Len(kept))
    /\ commits' = commits + 1

ResetAll == /\ entries' = <<>> /\ pool' = pool + Len(entries) /\ UNCHANGED commits

Next == (\E n \in Lens : Commit(n)) \/ ResetAll
Spec == Init /\ [][Next]_vars

\* the advertised window is never exceeded
WindowBounded == WindowSize <= MaxWindow
\* base offset of entry i = distance from the start of entry i to the start of the current (last) entry, so that
\* base + position in the current entry - position in entry i is the true distance between two bytes
BaseIsDistance == \A i \in 1..Len(entries) : entries[i].base = SumLen(entries, i) - entries[Len(entries)].len
\* the current block is always retained entirely
CurrentRetained == entries = <<>> \/ entries[Len(entries)].base = 0

\* ---- Part 2: the contract of one block's reports ------------------------------------------------------
\* minimum match length: 5 for the built-in finder, 3 for what the format (and a user supplied matcher) may report
\* data: all bytes committed since the last reset (1-based); the block occupies start+1 .. endpos; lo = first retained
\* position (0-based); ws = advertised window; seqs: <<literals, offset, length>> with <<lits, 0, 0>> as trailing literals
RECURSIVE SeqsOk(_, _, _, _, _, _, _, _)
SeqsOk(data, seqs, i, pos, lo, endpos, ws, mm) ==
    IF i > Len(seqs) THEN pos = endpos
    ELSE LET lits == seqs[i][1]  off == seqs[i][2]  len == seqs[i][3]
             p1 == pos + Len(lits)
         IN /\ p1 <= endpos
            /\ \A k \in 1..Len(lits) : data[pos + k] = lits[k]
            /\ IF off = 0 /\ len = 0 THEN i = Len(seqs) /\ Len(lits) > 0 /\ p1 = endpos            \* trailing literals
               ELSE /\ len >= mm /\ off >= 1 /\ off <= ws /\ p1 - off >= lo /\ p1 + len <= endpos
                    /\ \A k \in 1..len : data[p1 - off + k] = data[p1 + k]
                    /\ SeqsOk(data, seqs, i + 1, p1 + len, lo, endpos, ws, mm)
=============================================================================
