--------------------------------- MODULE Cli ---------------------------------
(***************************************************************************)
(* X3 -- the command line tool (cli/src/main.rs) as a function from a      *)
(* scenario to its observable effects.                                     *)
(* compress: level option (absent, implemented 0 / 1, unimplemented 2..4,  *)
(* out of range 5 / 255, non-numeric), output path explicit or defaulted   *)
(* (<input>.zst), input missing / empty / below one block / several blocks,*)
(* output location writable or not.                                        *)
(* decompress: archive valid / truncated / not zstd / missing, output path *)
(* explicit or defaulted (archive name without its last extension, in the  *)
(* current directory).  Both: the output path is free, or holds an older   *)
(* file shorter / longer than the new result.                              *)
(* Specified effects: status (0 or not), never a panic, on success the     *)
(* output is complete (round trip restores the input, the reference        *)
(* decoder accepts the archive); a failed compress leaves no file at the   *)
(* output path that was not there before.                                  *)
(***************************************************************************)
EXTENDS Naturals, Sequences, FiniteSets, TLC, Json, SequencesExt

Levels == {"absent", "0", "1", "2", "3", "4", "5", "255", "x"}
Implemented == {"absent", "0", "1"}
Inputs == {"missing", "empty", "small", "multi"}
OutPaths == {"explicit", "default"}
OutDirs == {"writable", "unwritable"}
Archives == {"valid", "truncated", "notzstd", "missing"}
\* what is at the output path before the command runs: nothing, or an unrelated file shorter / longer than the result.
\* A successful command REPLACES it: the output is exactly the result, with nothing of the old file left over.
Priors == {"none", "shorter", "longer"}

CompressOk(s) == s.level \in Implemented /\ s.input # "missing" /\ s.outdir = "writable"
CompressCases == UNION {{[cmd |-> "compress", level |-> l, input |-> i, out |-> o, outdir |-> d, prior |-> p,
                   expect |-> [ok |-> CompressOk([level |-> l, input |-> i, outdir |-> d]),
                               output_created |-> CompressOk([level |-> l, input |-> i, outdir |-> d]),
                               output_exact |-> CompressOk([level |-> l, input |-> i, outdir |-> d]),
                               panic |-> FALSE]]
                  : l \in Levels, i \in Inputs, o \in OutPaths, d \in OutDirs} : p \in Priors}
\* the default output of compress lives next to the input: it cannot be unwritable independently of the input directory
\* and nothing can already be there when the location does not exist
WellPosed(c) == ~(c.out = "default" /\ c.outdir = "unwritable") /\ ~(c.prior # "none" /\ c.outdir = "unwritable")
DecompressCases == UNION {{[cmd |-> "decompress", archive |-> a, out |-> o, content |-> c, prior |-> p,
                     expect |-> [ok |-> a = "valid", roundtrip |-> a = "valid", panic |-> FALSE]]
                    : a \in Archives, o \in OutPaths, c \in {"empty", "small", "multi"}} : p \in Priors}
Cases == {c \in CompressCases : WellPosed(c)} \cup DecompressCases

\* the property on the specification: success is claimed only for implemented levels; "no level" is one of them
Theorems == /\ \A c \in CompressCases : c.expect.ok => c.level \in Implemented
            /\ \E c \in CompressCases : c.level = "absent" /\ c.expect.ok

VARIABLE x
Init == x = 0
Next == /\ x = 0 /\ x' = 1 /\ Assert(Theorems, "Cli theorems fail")
        /\ LET rows == SetToSeq(Cases) IN ndJsonSerialize("cli_cases.ndjson", rows) /\ PrintT(<<"cases", Len(rows)>>)
Spec == Init /\ [][Next]_x
=============================================================================
