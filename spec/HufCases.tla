------------------------------ MODULE HufCases ------------------------------
(***************************************************************************)
(* C13, decoder side: all explicit weight vectors of length 1..MaxLen over *)
(* weights 0..MaxW -- valid ones with the specified code lengths, a direct *)
(* description, literals that use every symbol and their bit stream;       *)
(* invalid ones (incomplete, or complete but not minimal) with their       *)
(* classification.  The harness wraps description + stream into a          *)
(* single-stream compressed-literals block and decodes it with the real    *)
(* decoder (and with libzstd to validate the specification).               *)
(***************************************************************************)
EXTENDS Huffman, Json, SequencesExt

CONSTANTS MaxLen, MaxW

RECURSIVE Tuples(_, _)
Tuples(n, S) == IF n = 0 THEN {<<>>} ELSE {<<x>> \o t : x \in S, t \in Tuples(n - 1, S)}
\* ... plus short vectors of heavy weights around the depth limit of 11 (sums at and next to 2^10, 2^11, 2^12)
DeepVectors == UNION {Tuples(n, {1, 2, 9, 10, 11, 12}) : n \in 1..3}
Vectors == UNION {Tuples(n, 0..MaxW) : n \in 1..MaxLen} \cup DeepVectors
UsedOf(w) == {s \in 0..Len(w) : AllW(w)[s + 1] > 0}
Asc(w) == SetToSortSeq(UsedOf(w), <)
DataOf(w) == Asc(w) \o Reverse(Asc(w)) \o <<Len(w)>>

Row(w) == IF SumW(w, 1) > 0 /\ ValidW(w)
          THEN [weights |-> w, valid |-> TRUE, complete |-> TRUE, maxbits |-> MaxBits(w),
                lens |-> [s \in 1..(Len(w) + 1) |-> NbBits(w, s - 1)],
                desc |-> DirectDesc(w), data |-> DataOf(w), stream |-> StreamBytes(w, DataOf(w))]
          ELSE [weights |-> w, valid |-> FALSE, complete |-> (SumW(w, 1) > 0 /\ Complete(w)), maxbits |-> 0, lens |-> <<>>,
                desc |-> DirectDesc(w), data |-> <<>>, stream |-> <<1>>]

\* theorems on the specification: an accepted vector gives a complete prefix code, and its stream decodes to the data
Theorems(w) == ValidW(w) =>
    /\ CompleteCode(AllW(w), MaxBits(w))
    /\ DirectParse(DirectDesc(w)) = w
    /\ \A s \in UsedOf(w) : CodeTable(AllW(w))[s + 1] = Code(w, s)
    /\ DecodeStream(AllW(w), MaxBits(w), StreamBytes(w, DataOf(w)), Len(DataOf(w))) = <<DataOf(w), 0>>

VARIABLE x
Init == x = 0
Next == /\ x = 0 /\ x' = 1
        /\ Assert(\A w \in Vectors : SumW(w, 1) > 0 => Theorems(w), "Huffman specification theorems fail")
        /\ LET rows == SetToSeq({Row(w) : w \in Vectors}) IN ndJsonSerialize("huf_cases.ndjson", rows)
              /\ PrintT(<<"vectors", Len(rows), "valid", Cardinality({i \in 1..Len(rows) : rows[i].valid})>>)
Spec == Init /\ [][Next]_x
=============================================================================
