------------------------------ MODULE FSECases ------------------------------
(***************************************************************************)
(* C12, decoder side: TLC enumerates normalised distributions (with "less  *)
(* than one" entries and zero runs) for accuracy log AL over the value     *)
(* menu Vals up to MaxLen entries, checks the specification's own theorems *)
(* on each (ReadDesc inverts DescBytes; the states of every symbol         *)
(* partition the table) and writes description bytes and the specified     *)
(* table; the harness feeds the bytes to the real FSETable::build_decoder. *)
(***************************************************************************)
EXTENDS FSE, Json, SequencesExt

CONSTANTS AL, MaxLen, Vals, MaxZeroRun

RECURSIVE Dists(_, _, _)
\* all sequences of at most maxLen entries whose weights sum to exactly `left`, ending in a non-zero entry
Dists(left, maxLen, run) ==
    IF left = 0 THEN {<<>>}
    ELSE IF maxLen = 0 THEN {}
    ELSE UNION {{<<v>> \o rest : rest \in Dists(left - Weight(v), maxLen - 1, IF v = 0 THEN run + 1 ELSE 0)}
                : v \in {x \in Vals : Weight(x) <= left /\ (x # 0 \/ (maxLen > 1 /\ run < MaxZeroRun))}}
Cases == {d \in Dists(Pow2(AL), MaxLen, 0) : d # <<>> /\ d[Len(d)] # 0}

\* a reader configured for at most maxLog bits of accuracy and symbols 0..maxSym accepts a description exactly when it
\* stays within both (RFC 8878 3.1.1.3.2.1: the limits differ per field); the cases carry the four limit pairs around theirs
Accepts(al, d, maxLog, maxSym) == al <= maxLog /\ Len(d) <= maxSym + 1
LimitsOf(d) == LET n == Len(d)
                   pairs == {<<AL, n - 1>>, <<9, 255>>} \cup (IF AL > 5 THEN {<<AL - 1, n - 1>>} ELSE {}) \cup (IF n >= 2 THEN {<<AL, n - 2>>} ELSE {})
               IN SetToSeq({[maxlog |-> p[1], maxsym |-> p[2], accept |-> Accepts(AL, d, p[1], p[2])] : p \in pairs})
Row(d) == [al |-> AL, probs |-> d, bytes |-> DescBytes(AL, d), limits |-> LimitsOf(d),
           table |-> LET t == Table(AL, d) IN [st \in 1..Size(AL) |-> <<t[st - 1].sym, t[st - 1].nb, t[st - 1].bl>>]]
Theorems(d) == /\ Normalised(AL, d)
               /\ LET r == ReadDesc(DescBytes(AL, d) \o <<0>>) IN r.al = AL /\ r.probs = d /\ r.used = Len(DescBytes(AL, d))
               /\ Partition(AL, d)

VARIABLE x
Init == x = 0
Next == /\ x = 0 /\ x' = 1
        /\ Assert(\A d \in Cases : Theorems(d), "FSE specification theorems fail")
        /\ LET rows == SetToSeq({Row(d) : d \in Cases}) IN ndJsonSerialize("fse_cases.ndjson", rows) /\ PrintT(<<"cases", Len(rows)>>)
Spec == Init /\ [][Next]_x

ValsDef == {-1, 0, 1, 2, 3, 7, 8, 9, 15, 16, 17, 24, 28, 30, 31, 32}
ValsSmall == {-1, 0, 1, 2, 5, 8, 16, 27, 31, 32}
Vals6 == {-1, 0, 1, 3, 16, 31, 32, 33, 60, 63, 64}
=============================================================================
