----------------------------- MODULE RingBuffer -----------------------------
(***************************************************************************)
(* L0 -- the decoder's output window (ruzstd/src/decoding/ringbuffer.rs).  *)
(*                                                                         *)
(* State: the position triple (cap, head, tail) and the allocation cell by *)
(* cell.  A cell holds                                                     *)
(*    U      never written since the allocation was made (uninitialised),  *)
(*    S      written at some point but not part of the live data (stale),  *)
(*    i >= 0 the byte at logical index i of the queue (canonical form),    *)
(*    t < 0, t > S  a byte written by the action under evaluation.         *)
(* Every action transcribes one method of RingBuffer: the index arithmetic,*)
(* the choice of the free / data segments, the three geometric cases of    *)
(* extend_from_within_unchecked with their (up to) two raw copies, and the *)
(* chunked over-copying of copy_bytes_overshooting (K bytes at a time).    *)
(* After an action the contents are compared with the byte-queue meaning   *)
(* of the operation (append / append-from-within / drop-front / clear) and *)
(* the memory is canonicalised so that byte values do not multiply states. *)
(* `bad` records the first broken obligation (0 = none):                   *)
(*   1 a raw copy touches a cell outside the allocation                    *)
(*   2 a raw copy reads a cell that was never written                      *)
(*   3 the contents differ from the byte queue                             *)
(*   4 a documented position invariant is broken (head/tail out of range)  *)
(*   5 source and destination of one raw copy overlap                      *)
(*   6 a live cell was never written (documented invariant 2)              *)
(***************************************************************************)
EXTENDS Naturals, Integers, Sequences, FiniteSets, TLC

CONSTANTS K,        \* bytes moved by one wide copy: 16 with SSE2/NEON, 8 for the usize fallback
          MaxCap,   \* exploration bound on the capacity
          Sizes     \* operand menu of the bounded model

VARIABLES cap, head, tail, mem, bad
vars == <<cap, head, tail, mem, bad>>

U == -1000
S == -999

Min(a, b) == IF a < b THEN a ELSE b
Max(a, b) == IF a > b THEN a ELSE b
RECURSIVE NP2(_)
NP2(n) == IF n <= 1 THEN 1 ELSE 2 * NP2((n + 1) \div 2)        \* usize::next_power_of_two
RoundUp(n) == ((n + K - 1) \div K) * K                           \* next_multiple_of(K)

RLen(c, h, t) == IF t >= h THEN t - h ELSE c - h + t             \* len()
FreeOf(c, h, t) == IF c = 0 THEN 0 ELSE c - 1 - RLen(c, h, t)    \* free()
Phys(c, h, i) == (h + i) % c
Logical(c, h, t, m) == [i \in 1..RLen(c, h, t) |-> m[Phys(c, h, i - 1)]]
Live(c, h, t) == {Phys(c, h, i) : i \in 0..RLen(c, h, t) - 1}

\* canonical memory: the live cell at logical index i holds i; the others keep only written / never written
Canon(c, h, t, m) == [p \in 0..c-1 |->
    IF p \in Live(c, h, t) THEN (IF p >= h THEN p - h ELSE c - h + p)
    ELSE IF m[p] = U THEN U ELSE S]

First(a, b) == IF a # 0 THEN a ELSE b

(***************************************************************************)
(* copy_bytes_overshooting.  `touched` is the number of bytes the chosen   *)
(* branch reads and writes: one wide copy, a loop of wide copies, or the   *)
(* exact memcpy fallback.                                                  *)
(***************************************************************************)
Touched(srcLen, dstLen, n) ==
    LET minbuf == Min(srcLen, dstLen)
    IN IF minbuf >= K /\ n <= K THEN K
       ELSE IF minbuf >= RoundUp(n) THEN RoundUp(n) ELSE n

\* the effect of one raw copy of `touched` bytes from offset so to offset do; returns <<memory, flag>>
ApplyCopy(c, m, so, do, touched) ==
    LET oob == so < 0 \/ do < 0 \/ so + touched > c \/ do + touched > c
        rd == so..(so + touched - 1)
        wr == do..(do + touched - 1)
        uninit == ~oob /\ \E p \in rd : m[p] = U
        overlap == touched > 0 /\ (rd \cap wr) # {}
        nm == IF oob THEN m
              ELSE [p \in 0..c-1 |-> IF p \in wr THEN m[so + (p - do)] ELSE m[p]]
    IN <<nm, IF oob THEN 1 ELSE IF uninit THEN 2 ELSE IF overlap THEN 5 ELSE 0>>

\* a sequence of copies <<so, do, touched>> applied in order
RECURSIVE ApplyCopies(_, _, _, _, _)
ApplyCopies(c, m, cps, i, flag) ==
    IF i > Len(cps) THEN <<m, flag>>
    ELSE LET r == ApplyCopy(c, m, cps[i][1], cps[i][2], cps[i][3])
         IN ApplyCopies(c, r[1], cps, i + 1, First(flag, r[2]))

(***************************************************************************)
(* reserve / reserve_amortized: returns <<cap, head, tail, mem>>.  The new *)
(* allocation is uninitialised except for the linearised live data.        *)
(***************************************************************************)
GrowBy(c, h, t, m, amount) ==
    LET nc == Max(NP2(c), NP2(c + amount)) + 1
        l == RLen(c, h, t)
        lg == Logical(c, h, t, m)
    IN IF c > 0 THEN <<nc, 0, l, [p \in 0..nc-1 |-> IF p < l THEN lg[p + 1] ELSE U]>>
       ELSE <<nc, h, t, [p \in 0..nc-1 |-> U]>>
Grow(c, h, t, m, amount) ==
    IF FreeOf(c, h, t) >= amount THEN <<c, h, t, m>>
    ELSE GrowBy(c, h, t, m, amount - FreeOf(c, h, t))

\* declared regions of the raw copies of extend_from_within_unchecked:
\* <<src offset, src region length, dst offset, dst region length, copy_at_least>>
CopiesAt(c, h, t, start, len) ==
    IF h < t THEN
        LET at == Min(len, c - t)
        IN IF at < len
           THEN << <<h + start, t - h - start, t, c - t, at>>,
                   <<h + start + at, t - h - start - at, 0, h, len - at>> >>
           ELSE << <<h + start, t - h - start, t, c - t, at>> >>
    ELSE IF h + start > c THEN
        << <<(h + start) % c, t - ((h + start) % c), t, h - t, len>> >>
    ELSE
        LET as == Min(len, c - h - start)
        IN IF as < len
           THEN << <<h + start, c - h - start, t, h - t, as>>,
                   <<0, t, t + as, h - t - as, len - as>> >>
           ELSE << <<h + start, c - h - start, t, h - t, as>> >>

SpecCopies(c, h, t, start, len) ==
    LET d == CopiesAt(c, h, t, start, len)
    IN [i \in 1..Len(d) |-> <<d[i][1], d[i][3], Touched(d[i][2], d[i][4], d[i][5])>>]

Init == cap = 0 /\ head = 0 /\ tail = 0 /\ mem = <<>> /\ bad = 0

Finish(c, h, t, m, flag, expected) ==
    /\ cap' = c /\ head' = h /\ tail' = t
    /\ bad' = First(bad,
               First(flag,
                IF ~(c = 0 \/ (h < c /\ t < c)) THEN 4
                ELSE IF \E p \in Live(c, h, t) : m[p] = U THEN 6
                ELSE IF Logical(c, h, t, m) # expected THEN 3 ELSE 0))
    /\ mem' = Canon(c, h, t, m)

Old == Logical(cap, head, tail, mem)

\* the two free segments as the code computes them: <<offset1, len1, offset2, len2>>
FreeParts(c, h, t) == IF t < h THEN <<t, h - t, 0, 0>> ELSE <<t, c - t, 0, h>>

\* write n fresh bytes (tokens -1..-n) into the free segments; shared by extend / extend_and_fill / extend_from_reader
WriteFresh(c, h, t, m, n) ==
    LET f == FreeParts(c, h, t)
        in1 == Min(n, f[2])
    IN [p \in 0..c-1 |->
          IF p >= f[1] /\ p < f[1] + in1 THEN -(p - f[1] + 1)
          ELSE IF p >= f[3] /\ p < f[3] + (n - in1) THEN -(in1 + (p - f[3]) + 1)
          ELSE m[p]]

Fresh(n) == [i \in 1..n |-> -i]

Reserve(n) ==
    /\ LET g == Grow(cap, head, tail, mem, n)
       IN /\ g[1] <= MaxCap
          /\ Finish(g[1], g[2], g[3], g[4], 0, Old)

\* extend(&[u8]) of n > 0 bytes
Extend(n) ==
    /\ n > 0
    /\ LET g == Grow(cap, head, tail, mem, n)
           c == g[1]  h == g[2]  t == g[3]
       IN /\ c <= MaxCap
          /\ Finish(c, h, (t + n) % c, WriteFresh(c, h, t, g[4], n), 0, Old \o Fresh(n))

\* the part of extend / extend_and_fill / extend_from_reader after reserve() returned
ExtendU(n) ==
    /\ n > 0 /\ FreeOf(cap, head, tail) >= n
    /\ Finish(cap, head, (tail + n) % cap, WriteFresh(cap, head, tail, mem, n), 0, Old \o Fresh(n))

\* reserve_amortized(amount) on its own
GrowOnly(amount) ==
    LET g == GrowBy(cap, head, tail, mem, amount)
    IN Finish(g[1], g[2], g[3], g[4], 0, Old)

\* growth as observed (trace validation): any new allocation that keeps the contents, provides the requested
\* additional free space and places the data where the recorded indices say.  The growth policy itself
\* (next power of two plus one, data moved to offset 0) is not part of the property.
GrowObserved(amount, nc, nh, nt) ==
    LET l == RLen(cap, head, tail)
        lg == Old
    IN /\ nc > cap /\ nh < nc /\ nt < nc
       /\ RLen(nc, nh, nt) = l
       /\ FreeOf(nc, nh, nt) >= FreeOf(cap, head, tail) + amount
       /\ Finish(nc, nh, nt,
                 [p \in 0..nc-1 |-> IF p \in Live(nc, nh, nt)
                                     THEN lg[(IF p >= nh THEN p - nh ELSE nc - nh + p) + 1] ELSE U],
                 0, Old)

\* extend_from_reader zeroes n cells at offset s before it reads into them
Zero(s, n) ==
    LET oob == s + n > cap
    IN Finish(cap, head, tail,
              IF oob THEN mem ELSE [p \in 0..cap-1 |-> IF p >= s /\ p < s + n /\ mem[p] = U THEN S ELSE mem[p]],
              IF oob THEN 1 ELSE IF \E p \in s..(s+n-1) : p \in Live(cap, head, tail) THEN 3 ELSE 0, Old)

\* extend_and_fill: same segments, written with write_bytes
Fill(n) == Extend(n)

\* extend_from_reader whose reader delivers everything
Reader(n) == Extend(n)

\* extend_from_reader whose reader fails: the space is reserved and zeroed, the tail does not move
ReaderFail(n) ==
    /\ n > 0
    /\ LET g == Grow(cap, head, tail, mem, n)
           c == g[1]  h == g[2]  t == g[3]
           w == WriteFresh(c, h, t, g[4], n)
       IN /\ c <= MaxCap
          /\ Finish(c, h, t, w, 0, Old)

DropFirst(n) ==
    /\ n > 0 /\ n <= RLen(cap, head, tail)
    /\ Finish(cap, (head + n) % cap, tail, mem, 0, SubSeq(Old, n + 1, Len(Old)))

Clear == cap >= 0 /\ Finish(cap, 0, 0, mem, 0, <<>>)

\* extend_from_within_unchecked with the given raw copies (<<so, do, touched>>)
EFWWith(start, len, cps) ==
    /\ start + len <= RLen(cap, head, tail)           \* safety requirement 1 of the method
    /\ FreeOf(cap, head, tail) >= len                 \* safety requirement 2 of the method
    /\ cap > 0
    /\ LET r == ApplyCopies(cap, mem, cps, 1, 0)
       IN Finish(cap, head, (tail + len) % cap, r[1], r[2],
                 Old \o SubSeq(Old, start + 1, start + len))

\* ... as the code performs them
EFWU(start, len) == start >= 0 /\ EFWWith(start, len, SpecCopies(cap, head, tail, start, len))

\* the safe wrapper extend_from_within: check, reserve, then the unchecked method
EFW(start, len) ==
    /\ start + len <= RLen(cap, head, tail)
    /\ LET g == Grow(cap, head, tail, mem, len)
           c == g[1]  h == g[2]  t == g[3]  m == g[4]
           r == ApplyCopies(c, m, SpecCopies(c, h, t, start, len), 1, 0)
       IN /\ c <= MaxCap /\ c > 0
          /\ Finish(c, h, (t + len) % c, r[1], r[2], Old \o SubSeq(Old, start + 1, start + len))

Next == \/ \E n \in Sizes : Reserve(n)
        \/ \E n \in Sizes : Extend(n)
        \/ \E n \in Sizes : ReaderFail(n)
        \/ \E n \in Sizes : DropFirst(n)
        \/ Clear
        \/ \E s \in Sizes \cup {0}, l \in Sizes \cup {0} : EFW(s, l)
        \/ \E s \in Sizes \cup {0}, l \in Sizes \cup {0} : EFWU(s, l)

Spec == Init /\ [][Next]_vars

Safe == bad = 0
TypeOK == /\ cap \in 0..MaxCap
          /\ (cap = 0 \/ (head < cap /\ tail < cap))
          /\ DOMAIN mem = 0..cap-1
\* the written cells always form a prefix of the allocation (justifies the scalar high-water mark of RingIdx)
WrittenPrefix == \A p \in 1..cap-1 : mem[p] # U => mem[p-1] # U
\* len() + free() + sentinel = cap
Accounting == cap = 0 \/ RLen(cap, head, tail) + FreeOf(cap, head, tail) = cap - 1
=============================================================================
