------------------------------- MODULE HufRows -------------------------------
(***************************************************************************)
(* C13, encoder side: rows dumped from the real Huffman encoder -- the     *)
(* code (value, bits) of every symbol for a histogram, the weight          *)
(* description it writes (direct, or FSE compressed) and short literal     *)
(* streams (one and four streams) -- judged with Huffman / FSE operators.  *)
(***************************************************************************)
EXTENDS Huffman, Json, IOUtils
F == INSTANCE FSE

Rows == ndJsonDeserialize(IOEnv.ROWS)

MaxLenOf(lens) == LET S == {lens[i] : i \in 1..Len(lens)} IN CHOOSE m \in S : \A y \in S : y <= m
\* all weights from the code lengths the encoder chose
WeightsOf(lens) == LET mb == MaxLenOf(lens) IN [i \in 1..Len(lens) |-> IF lens[i] = 0 THEN 0 ELSE mb + 1 - lens[i]]

OkCode(r) == LET mb == MaxLenOf(r.lens)
                 a == WeightsOf(r.lens)
             IN /\ Cardinality({i \in 1..Len(r.lens) : r.lens[i] > 0}) = r.nsyms /\ r.nsyms >= 2
                /\ \A i \in 1..Len(r.lens) : (r.lens[i] > 0) <=> (r.counts[i] > 0)         \* exactly the symbols that occur
                /\ CompleteCode(a, mb)                                                   \* complete prefix code, depth <= 11
                /\ LET cv == CodeTable(a) IN \A s \in Used(a) : r.codes[s + 1] = cv[s + 1]   \* the canonical code values
                /\ a[Len(a)] > 0
\* the description the encoder wrote parses back to the same weights
OkDesc(r) == LET a == WeightsOf(r.lens)
                 explicit == SubSeq(a, 1, Len(a) - 1)
             IN IF r.desc[1] >= 128
                THEN /\ DirectParse(r.desc) = explicit /\ Len(r.desc) = DirectLen(r.desc)
                     /\ Complete(explicit) /\ AllW(explicit) = a
                ELSE \* FSE compressed: header byte = compressed size (< 128), table description, two interleaved states
                     /\ r.desc[1] = Len(r.desc) - 1 /\ r.desc[1] < 128
                     /\ LET body == SubSeq(r.desc, 2, Len(r.desc))
                            rd == F!ReadDesc(body)
                            stream == SubSeq(body, rd.used + 1, Len(body))
                            d == F!Decode2(rd.al, rd.probs, stream, Len(explicit))
                        IN /\ rd.al <= 6
                           /\ d[1] = explicit /\ d[2] = 0
                           /\ Complete(explicit) /\ AllW(explicit) = a
OkStream1(r) == LET a == WeightsOf(r.lens) IN DecodeStream(a, MaxLenOf(r.lens), r.stream, Len(r.data)) = <<r.data, 0>>
\* four streams: 6-byte jump table, segments of ceil(n / 4) literals
OkStream4(r) ==
    LET a == WeightsOf(r.lens)
        mb == MaxLenOf(r.lens)
        n == Len(r.data)
        seg == (n + 3) \div 4
        s1 == r.stream[1] + 256 * r.stream[2]
        s2 == r.stream[3] + 256 * r.stream[4]
        s3 == r.stream[5] + 256 * r.stream[6]
        part(from, len) == SubSeq(r.stream, from, from + len - 1)
        dseg(k) == SubSeq(r.data, (k - 1) * seg + 1, IF k = 4 THEN n ELSE k * seg)
        rest == Len(r.stream) - 6 - s1 - s2 - s3
    IN /\ rest > 0
       /\ DecodeStream(a, mb, part(7, s1), Len(dseg(1))) = <<dseg(1), 0>>
       /\ DecodeStream(a, mb, part(7 + s1, s2), Len(dseg(2))) = <<dseg(2), 0>>
       /\ DecodeStream(a, mb, part(7 + s1 + s2, s3), Len(dseg(3))) = <<dseg(3), 0>>
       /\ DecodeStream(a, mb, part(7 + s1 + s2 + s3, rest), Len(dseg(4))) = <<dseg(4), 0>>

\* decoder side: an FSE-compressed description produced by the harness's independent encoder reads, by the
\* specification, as exactly the explicit weights it was made from (and those form a complete code)
OkFseDesc(r) == /\ r.desc[1] = Len(r.desc) - 1 /\ r.desc[1] < 128
                /\ LET body == SubSeq(r.desc, 2, Len(r.desc))
                       rd == F!ReadDesc(body)
                       stream == SubSeq(body, rd.used + 1, Len(body))
                       d == F!Decode2(rd.al, rd.probs, stream, Len(r.explicit))
                   IN /\ rd.al = r.al /\ rd.al <= 6
                      /\ d[1] = r.explicit /\ d[2] = 0
                      /\ Complete(r.explicit)

Ok(r) == CASE r.k = "code" -> OkCode(r) /\ OkDesc(r)
           [] r.k = "stream1" -> OkStream1(r)
           [] r.k = "stream4" -> OkStream4(r)
           [] r.k = "fsedesc" -> OkFseDesc(r)

VARIABLE x
Init == x = 0
Next == /\ x = 0 /\ x' = 1
        /\ LET bad == {i \in 1..Len(Rows) : ~Ok(Rows[i])}
               kinds == {Rows[i].k : i \in 1..Len(Rows)}
           IN PrintT(<<"ROWS", Len(Rows), "BAD", Cardinality(bad), kinds,
                       IF bad = {} THEN <<>> ELSE LET S == {i \in bad : \A j \in bad : i <= j} IN <<Rows[CHOOSE i \in S : TRUE]>>>>)
Spec == Init /\ [][Next]_x
=============================================================================
