------------------------------ MODULE RingArith ------------------------------
(***************************************************************************)
(* The index arithmetic of the decoder's ring buffer (ringbuffer.rs) for   *)
(* ARBITRARY capacities, amounts and positions -- the part of C04 that TLC *)
(* can only explore for small capacities.  State: capacity, head, tail     *)
(* and the abstract number of queued bytes `len`.  Actions: extend by n    *)
(* (growing first when the free space does not suffice: any new capacity   *)
(* that holds the data plus n plus the one unused cell, data moved to the  *)
(* front), drop n from the front, clear.  Wrap-around is written without   *)
(* the modulo operator (positions stay below twice the capacity), so that  *)
(* the inductive invariant is linear integer arithmetic that Apalache      *)
(* discharges symbolically:  Init => IndInv  and  IndInv /\ Next => IndInv'*)
(* hold for all integers.  TLC checks, exhaustively for capacities up to a *)
(* bound, that the modulo-free wrap equals the `%` form used by the code   *)
(* and by RingBuffer.tla / FrameDecoder.tla (WrapIsMod), which is the      *)
(* bridge from this lemma to the specifications bound to the code.         *)
(***************************************************************************)
EXTENDS Integers

VARIABLES
    \* @type: Int;
    cap,
    \* @type: Int;
    head,
    \* @type: Int;
    tail,
    \* @type: Int;
    len

\* queued bytes as the code computes them from the indices
RLen == IF tail >= head THEN tail - head ELSE cap - head + tail
\* free() of the code: one cell stays unused so that head = tail means empty
Free == IF cap = 0 THEN 0 ELSE cap - 1 - RLen
\* (a + n) mod c for 0 <= a < c and 0 <= n <= c, without `%`
Wrap(a, n, c) == IF a + n >= c THEN a + n - c ELSE a + n

Init == cap = 0 /\ head = 0 /\ tail = 0 /\ len = 0

\* extend by n bytes that fit
ExtendFits(n) == /\ n > 0 /\ Free >= n
                 /\ tail' = Wrap(tail, n, cap) /\ len' = len + n
                 /\ UNCHANGED <<cap, head>>
\* extend by n bytes that do not fit: reallocate to nc cells, data moved to the front, then append
ExtendGrow(n, nc) == /\ n > 0 /\ Free < n
                     /\ nc > cap /\ nc >= len + n + 1
                     /\ cap' = nc /\ head' = 0 /\ tail' = len + n /\ len' = len + n
Drop(n) == /\ n > 0 /\ n <= len
           /\ head' = Wrap(head, n, cap) /\ len' = len - n
           /\ UNCHANGED <<cap, tail>>
Clear == head' = 0 /\ tail' = 0 /\ len' = 0 /\ UNCHANGED cap

Next == \/ \E n \in Int : ExtendFits(n)
        \/ \E n \in Int, nc \in Int : ExtendGrow(n, nc)
        \/ \E n \in Int : Drop(n)
        \/ Clear
\* @type: <<Int, Int, Int, Int>>;
vars == <<cap, head, tail, len>>
Spec == Init /\ [][Next]_vars

\* C04, index part: the indices stay inside the allocation and describe exactly the queued bytes
IndInv == /\ cap >= 0 /\ head >= 0 /\ tail >= 0 /\ len >= 0
          /\ (cap = 0 => head = 0 /\ tail = 0 /\ len = 0)
          /\ (cap > 0 => head < cap /\ tail < cap /\ len <= cap - 1)
          /\ RLen = len
Safe == (cap = 0 /\ head = 0 /\ tail = 0) \/ (head < cap /\ tail < cap)

\* for the inductive step: start anywhere in IndInv
IndInit == cap \in Int /\ head \in Int /\ tail \in Int /\ len \in Int /\ IndInv
==============================================================================
