----------------------------- MODULE FormatRows -----------------------------
(***************************************************************************)
(* Row validation for C14: each row is one observation of a pure function  *)
(* of the implementation (decoder table, encoder mapping, header parser or *)
(* writer) dumped through the pass-through hooks; Ok(r) compares it with   *)
(* the operator of ZstdFormat.  One TLC step evaluates all rows.           *)
(***************************************************************************)
EXTENDS ZstdFormat, Json, IOUtils

Rows == ndJsonDeserialize(IOEnv.ROWS)

OkLL(r) == LET c == CodeOf(LLBase, LLBits, r.v)
           IN /\ r.code = c /\ r.bits = LLBits[c + 1] /\ r.extra = r.v - LLBase[c + 1]      \* encoder mapping
              /\ r.dbase = LLBase[r.code + 1] /\ r.dbits = LLBits[r.code + 1]              \* decoder table entry of that code
OkML(r) == LET c == CodeOf(MLBase, MLBits, r.v)
           IN /\ r.code = c /\ r.bits = MLBits[c + 1] /\ r.extra = r.v - MLBase[c + 1]
              /\ r.dbase = MLBase[r.code + 1] /\ r.dbits = MLBits[r.code + 1]
OkOF(r) == /\ r.code = OFCodeOf(r.hi, r.lo) /\ r.bits = r.code
           /\ r.ehi = OFExtraHi(r.hi, r.lo) /\ r.elo = OFExtraLo(r.hi, r.lo)
OkRep(r) == LET s == RepStep(r.ofv, r.ll, r.h)
            IN IF s[1] <= 0 THEN r.actual = 0                      \* rep1 - 1 = 0: reported as a zero offset (refused by the caller)
               ELSE r.actual = s[1] /\ r.after = s[2]
OkSeqNum(r) == /\ r.bytes = SeqCountBytes(r.n)                     \* encoder
               /\ r.parsed = r.n /\ r.used = Len(SeqCountBytes(r.n)) + 1     \* decoder reads it back (count bytes + modes byte)
OkSeqParse(r) == r.parsed = SeqCountParse(r.bytes)
OkSeqHdr(r) == LET e == SeqHdrParse(r.src) IN r.ok = e.ok /\ (r.ok => r.n = e.n /\ r.used = e.used)
OkLit(r) == LET e == LitHeaderParse(r.bytes)
            IN /\ r.ok
               /\ r.type = e.type /\ r.regen = e.regen /\ r.comp = e.comp /\ r.streams = e.streams /\ r.used = e.bytes
OkLitEnc(r) == LET e == LitHeaderParse(r.bytes)        \* a header the compressor wrote for `len` literals
               IN e.regen = r.len /\ e.type = r.type /\ (r.type \in {2, 3} => e.comp = r.payload)
OkBlock(r) == LET e == BlockHeaderParse(r.bytes)
              IN /\ r.ok = e.ok
                 /\ (r.ok => /\ r.last = e.last /\ r.type = e.type
                             /\ r.content = (IF e.type = 1 THEN 1 ELSE e.size)
                             /\ r.decompressed = (IF e.type = 2 THEN 0 ELSE e.size))
\* summary over all 2^24 headers of one (last, type) class: which sizes are accepted
OkBlockSummary(r) == IF r.type = 3 THEN r.accepted = 0
                     ELSE /\ r.accepted = MaxBlock + 1 /\ r.min_ok = 0 /\ r.max_ok = MaxBlock /\ r.min_bad = MaxBlock + 1
                          /\ r.size_is_field /\ r.flags_ok
OkBlockEnc(r) == LET e == BlockHeaderParse(r.bytes) IN e.ok /\ e.last = r.last /\ e.type = r.type /\ e.size = r.size
OkFrame(r) == LET d == r.desc
              IN IF (d \div 8) % 2 = 1 /\ FALSE THEN TRUE      \* the reserved bit is not checked by this decoder (not part of the property)
                 ELSE /\ r.ok
                      /\ r.used = FrameHeaderBytes(d)
                      /\ r.has_dict = (DidBytes(d) > 0 /\ r.did_nonzero)
                      /\ (~SingleSeg(d) => r.window_ok /\ r.window_desc = r.wbyte)
OkFrameEnc(r) == /\ r.parse_ok /\ r.cks = r.want_cks /\ r.used = r.len
                 /\ r.window_ge_requested

\* a whole frame built around one header value: a block is decodable iff neither its stored nor its regenerated size
\* exceeds the block maximum (RFC 8878 3.1.1.2.3); when decodable every API delivers the content, else every API refuses
OkWhole(r) == LET legal == r.regen <= MaxBlock /\ r.stored <= MaxBlock
              IN r.accepted = legal /\ (legal => r.content_ok)

Ok(r) == CASE r.k = "ll" -> OkLL(r)
           [] r.k = "ml" -> OkML(r)
           [] r.k = "of" -> OkOF(r)
           [] r.k = "rep" -> OkRep(r)
           [] r.k = "seqnum" -> OkSeqNum(r)
           [] r.k = "seqparse" -> OkSeqParse(r)
           [] r.k = "seqhdr" -> OkSeqHdr(r)
           [] r.k = "lit" -> OkLit(r)
           [] r.k = "litenc" -> OkLitEnc(r)
           [] r.k = "block" -> OkBlock(r)
           [] r.k = "blocksum" -> OkBlockSummary(r)
           [] r.k = "blockenc" -> OkBlockEnc(r)
           [] r.k = "frame" -> OkFrame(r)
           [] r.k = "frameenc" -> OkFrameEnc(r)
           [] r.k = "whole" -> OkWhole(r)

VARIABLE x
Init == x = 0
Next == /\ x = 0 /\ x' = 1
        /\ Assert(FormatTheorems, "ZstdFormat theorems do not hold")
        /\ LET bad == {i \in 1..Len(Rows) : ~Ok(Rows[i])}
               kinds == {Rows[i].k : i \in 1..Len(Rows)}
           IN PrintT(<<"ROWS", Len(Rows), "BAD", Cardinality(bad), kinds,
                       IF bad = {} THEN <<>> ELSE LET S == {i \in bad : \A j \in bad : i <= j} IN <<Rows[CHOOSE i \in S : TRUE]>>>>)
Spec == Init /\ [][Next]_x
=============================================================================
