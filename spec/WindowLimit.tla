----------------------------- MODULE WindowLimit -----------------------------
(***************************************************************************)
(* C11 -- the window check of FrameDecoder::reset / init and of every      *)
(* front end built on it (frame_decoder.rs, frame.rs, streaming_decoder.rs)*)
(*                                                                         *)
(* Window sizes do not fit TLC's 32-bit integers, so sizes are *ranks*:    *)
(* the window size S(d) of descriptor byte d is strictly increasing in d   *)
(* (S(d) = 2^(7+e) * (8+m) with e = d \div 8, m = d % 8), hence a size is  *)
(* written <<d, delta>> = S(d) + delta with delta in -1..2 (2 = "far       *)
(* above", used for 2^64-1), and sizes compare lexicographically.  The     *)
(* harness maps ranks back to u64.  Special points: the default limit      *)
(* 128 MiB = S(136), the format maximum = S(255).  A single-segment frame  *)
(* declares its content size instead of a window; <<-1, k>> stands for the *)
(* small sizes k (0..3) below S(0) = 1 KiB.                                 *)
(***************************************************************************)
EXTENDS Naturals, Integers, Sequences, FiniteSets, TLC, Json, SequencesExt

CONSTANTS Descs,      \* window descriptors explored
          Histories,  \* "first" | "after_ok" | "after_fail"
          Fronts      \* front ends

Default == <<136, 0>>
FormatMax == <<255, 0>>
Huge == <<255, 2>>
LE(a, b) == a[1] < b[1] \/ (a[1] = b[1] /\ a[2] <= b[2])
MinR(a, b) == IF LE(a, b) THEN a ELSE b

\* set_max_window_size clamps to the format maximum
Effective(limit) == MinR(limit, FormatMax)

\* the decision of check_window_size: requested size against the effective limit
Decide(requested, limit) ==
    IF LE(requested, Effective(limit))
    THEN [accept |-> TRUE, requested |-> requested, max |-> Effective(limit)]
    ELSE [accept |-> FALSE, requested |-> requested, max |-> Effective(limit)]

\* limits worth trying against a request: around the request, the special points and their neighbours
LimitsFor(r) == {<<r[1], r[2] - 1>>, r, <<r[1], r[2] + 1>>} \cup
                {<<-1, 0>>, <<135, 7>>, <<136, -1>>, Default, <<136, 1>>, <<254, 7>>, <<255, -1>>, FormatMax, <<255, 1>>, Huge}
WellFormedRank(r) == /\ (r[1] >= 0 => r[2] \in -1..2) /\ (r[2] = 2 => r[1] = 255)
                     /\ (r[1] = -1 => r[2] \in 0..3)
\* front ends that cannot take a caller's limit use the default
LimitOf(front, limit) == IF front \in {"stream_new"} THEN Default ELSE limit

Requests(d) == {<<d, 0>>}                                   \* a window descriptor declares exactly S(d)
SingleSegment(d) == {<<d, -1>>, <<d, 0>>, <<d, 1>>} \cup {<<-1, 0>>, <<-1, 3>>, Huge}   \* content sizes around S(d), tiny and enormous

\* fcs: how the header carries the content size -- "absent"; "zero": a 4-byte field holding the true size of the (empty)
\* frame next to a window descriptor; "field": the single-segment form, where the field IS the window.  With a window
\* descriptor the decision is about the DECLARED window, whatever the content size says.
CasesFor(d, single, fcs, reqs, h, f) ==
    UNION {{[desc |-> d, single |-> single, fcs |-> fcs, requested |-> r, limit |-> l, history |-> h, front |-> f,
             expect |-> Decide(r, LimitOf(f, l))] : l \in {x \in LimitsFor(r) : WellFormedRank(x)}} : r \in reqs}
Cases ==
    UNION {UNION {UNION {
        CasesFor(d, FALSE, "absent", Requests(d), h, f) \cup CasesFor(d, FALSE, "zero", Requests(d), h, f)
        \cup CasesFor(d, TRUE, "field", {y \in SingleSegment(d) : WellFormedRank(y)}, h, f)
      : f \in Fronts} : h \in Histories} : d \in Descs}

\* ---- properties of the decision itself ------------------------------------------------
\* everything at or below the limit is accepted, everything above is refused, nothing above the format maximum is ever accepted
Sound == \A d \in Descs : \A l \in {x \in LimitsFor(<<d, 0>>) : WellFormedRank(x)} :
            LET r == Decide(<<d, 0>>, l)
            IN /\ (r.accept <=> LE(<<d, 0>>, l))          \* every descriptor is within the format's range, so clamping never refuses one below l
               /\ LE(r.max, FormatMax)
NothingAboveFormatMax == \A l \in {Huge, <<255, 1>>, FormatMax} : ~Decide(Huge, l).accept /\ ~Decide(<<255, 1>>, l).accept
\* the default configuration refuses 128 MiB + 1/8 and accepts 128 MiB
DefaultBoundary == Decide(<<136, 0>>, Default).accept /\ ~Decide(<<137, 0>>, Default).accept

VARIABLE x
Init == x = 0
Next == x = 0 /\ x' = 1 /\ Assert(Sound /\ NothingAboveFormatMax /\ DefaultBoundary, "WindowLimit specification inconsistent")
        /\ LET rows == SetToSeq(Cases) IN ndJsonSerialize("window_cases.ndjson", rows) /\ PrintT(<<"cases", Len(rows)>>)
Spec == Init /\ [][Next]_x
=============================================================================
