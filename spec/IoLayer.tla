------------------------------- MODULE IoLayer -------------------------------
(***************************************************************************)
(* X1 -- the I/O layer the library is written against: Read::read_exact,   *)
(* Read::take + Take::read and Write::write_all over a scripted reader /   *)
(* writer.  With the std feature these are the standard library's traits,  *)
(* without it the crate's own replacements (io_nostd.rs); both must show   *)
(* the behaviour specified here.  An answer of the script is k > 0 (up to  *)
(* k bytes), 0 (Ok(0)), -1 (Interrupted), -2 (WouldBlock), -3 (another     *)
(* error); an exhausted script answers Ok(0).                              *)
(***************************************************************************)
EXTENDS Naturals, Integers, Sequences, FiniteSets, TLC, Json, SequencesExt

CONSTANTS MaxScript, MaxBuf

Min2(a, b) == IF a < b THEN a ELSE b
Answers == {-3, -2, -1, 0, 1, 2, 3}
ErrName(a) == CASE a = -2 -> "wouldblock" [] a = -3 -> "other" [] OTHER -> "interrupted"

\* read_exact(buf of n bytes): retry on Interrupted, stop on Ok(0), fail on other errors; UnexpectedEof when short
RECURSIVE ReadExact(_, _, _, _)
ReadExact(n, filled, sc, calls) ==
    IF filled >= n THEN [res |-> "ok", filled |-> filled, calls |-> calls]
    ELSE IF sc = <<>> THEN [res |-> "eof", filled |-> filled, calls |-> calls + 1]
    ELSE LET a == Head(sc) IN
         IF a = -1 THEN ReadExact(n, filled, Tail(sc), calls + 1)
         ELSE IF a < 0 THEN [res |-> ErrName(a), filled |-> filled, calls |-> calls + 1]
         ELSE IF a = 0 THEN [res |-> "eof", filled |-> filled, calls |-> calls + 1]
         ELSE ReadExact(n, filled + Min2(a, n - filled), Tail(sc), calls + 1)

\* one read through take(limit): never more than the limit, the limit shrinks by what was read, errors pass through
TakeRead(n, limit, sc) ==
    IF limit = 0 THEN [res |-> 0, limit |-> 0, sc |-> sc]
    ELSE IF n = 0 /\ sc = <<>> THEN [res |-> 0, limit |-> limit, sc |-> sc]
    ELSE IF sc = <<>> THEN [res |-> 0, limit |-> limit, sc |-> sc]
    ELSE LET a == Head(sc) IN
         IF a < 0 THEN [res |-> ErrName(a), limit |-> limit, sc |-> Tail(sc)]
         ELSE LET k == Min2(a, Min2(n, limit)) IN [res |-> k, limit |-> limit - k, sc |-> Tail(sc)]

\* write_all(data of n bytes): retry on Interrupted, Ok(0) is an error, other errors pass through
RECURSIVE WriteAll(_, _, _, _)
WriteAll(n, taken, sc, calls) ==
    IF taken >= n THEN [res |-> "ok", taken |-> taken, calls |-> calls]
    ELSE IF sc = <<>> THEN [res |-> "write_zero", taken |-> taken, calls |-> calls + 1]
    ELSE LET a == Head(sc) IN
         IF a = -1 THEN WriteAll(n, taken, Tail(sc), calls + 1)
         ELSE IF a < 0 THEN [res |-> ErrName(a), taken |-> taken, calls |-> calls + 1]
         ELSE IF a = 0 THEN [res |-> "write_zero", taken |-> taken, calls |-> calls + 1]
         ELSE WriteAll(n, taken + Min2(a, n - taken), Tail(sc), calls + 1)

\* the byte-slice reader (Read for &[u8]): every read hands out min(asked, left) bytes from the front, Ok(0) at the end --
\* also when exactly one byte is asked for; `n` is used as the slice length, the script as the sequence of buffer sizes
RECURSIVE SliceReads(_, _)
SliceReads(left, asks) == IF asks = <<>> THEN <<>> ELSE LET k == Min2(Head(asks), left) IN <<k>> \o SliceReads(left - k, Tail(asks))
\* the mutable byte-slice writer (Write for &mut [u8]): min(offered, room) bytes, 0 when full
SliceWrites(room, offers) == SliceReads(room, offers)

RECURSIVE Tuples(_, _)
Tuples(n, S) == IF n = 0 THEN {<<>>} ELSE {<<x>> \o t : x \in S, t \in Tuples(n - 1, S)}
Scripts == UNION {Tuples(k, Answers) : k \in 0..MaxScript}

Cases ==
    {[op |-> "read_exact", n |-> n, script |-> s, limit |-> 0, expect |-> ReadExact(n, 0, s, 0)] : n \in 0..MaxBuf, s \in Scripts} \cup
    {[op |-> "write_all", n |-> n, script |-> s, limit |-> 0, expect |-> WriteAll(n, 0, s, 0)] : n \in 0..MaxBuf, s \in Scripts} \cup
    {[op |-> "slice_read", n |-> n, script |-> s, limit |-> 0, expect |-> [got |-> SliceReads(n, s)]] : n \in 0..(MaxBuf + 1), s \in UNION {Tuples(k, 0..3) : k \in 1..3}} \cup
    {[op |-> "slice_write", n |-> n, script |-> s, limit |-> 0, expect |-> [got |-> SliceWrites(n, s)]] : n \in 0..(MaxBuf + 1), s \in UNION {Tuples(k, 0..3) : k \in 1..3}} \cup
    {[op |-> "take_read", n |-> n, script |-> s, limit |-> l,
      expect |-> LET r1 == TakeRead(n, l, s) r2 == TakeRead(n, r1.limit, r1.sc) IN [res |-> r1.res, res2 |-> r2.res, limit_after |-> r2.limit]]
        : n \in 0..MaxBuf, l \in 0..(MaxBuf + 1), s \in {x \in Scripts : Len(x) <= 2}}

\* properties of the specification: read_exact succeeds iff the buffer was filled; nothing is read beyond a take limit
Theorems == /\ \A n \in 0..MaxBuf, s \in Scripts : LET r == ReadExact(n, 0, s, 0) IN (r.res = "ok") <=> (r.filled = n)
            /\ \A n \in 0..MaxBuf, s \in Scripts : LET r == WriteAll(n, 0, s, 0) IN (r.res = "ok") <=> (r.taken = n)

VARIABLE x
Init == x = 0
Next == /\ x = 0 /\ x' = 1 /\ Assert(Theorems, "IoLayer theorems fail")
        /\ LET rows == SetToSeq(Cases) IN ndJsonSerialize("io_cases.ndjson", rows) /\ PrintT(<<"cases", Len(rows)>>)
Spec == Init /\ [][Next]_x
=============================================================================
