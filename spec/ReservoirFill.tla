--------------------------- MODULE ReservoirFill ---------------------------
(***************************************************************************)
(* The first loop of Reservoir::fill (dictionary/reservoir.rs): the sample *)
(* buffer ("lake") of `Sample` bytes is offered WHOLE to every read; the   *)
(* loop ends when the running total equals the lake's length; a read of 0  *)
(* bytes (end of source) resizes the lake to the total.  With a reader     *)
(* that answers short, the total can step over the lake's length, so the   *)
(* only exit left is the resize at the end of the source growing the lake  *)
(* to the total.  Specified: the loop terminates for every source length   *)
(* and every way the reader cuts its answers (liveness, checked under weak *)
(* fairness of the single step), and the total never exceeds the source.   *)
(* Dev_Truncate models "shrink only" (truncate instead of resize): TLC     *)
(* must then find the non-terminating behaviour (non-vacuity).             *)
(* The (length, script) pairs explored are written out as cases and        *)
(* replayed against the real builder with a scripted reader.               *)
(***************************************************************************)
EXTENDS Naturals, Sequences, FiniteSets, TLC, Json, SequencesExt

CONSTANTS Sample,        \* initial lake size (16 = the smallest sample the builder uses)
          MaxT,          \* source lengths 0..MaxT
          Chunks,        \* answer sizes a script may prescribe
          MaxScript,     \* scripts of up to this many prescribed answers (afterwards the reader answers in full)
          Dev_Truncate

VARIABLES pc, total, lake, rem, script, T0, S0
vars == <<pc, total, lake, rem, script, T0, S0>>

Min2(a, b) == IF a < b THEN a ELSE b
Scripts == UNION {[1..n -> Chunks] : n \in 0..MaxScript}
Cases == {[T |-> t, script |-> s] : t \in 0..MaxT, s \in Scripts}

Init == /\ pc = "fill" /\ total = 0 /\ lake = Sample
        /\ \E c \in Cases : rem = c.T /\ script = c.script /\ T0 = c.T /\ S0 = c.script

\* one read: the whole lake is the buffer
Answer == LET cap == IF script = <<>> THEN lake ELSE Min2(lake, Head(script)) IN Min2(rem, cap)
Read == /\ pc = "fill"
        /\ LET a == Answer
               t2 == total + a
           IN /\ total' = t2 /\ rem' = rem - a
              /\ script' = IF script = <<>> THEN script ELSE Tail(script)
              /\ IF t2 = lake THEN pc' = "sampled" /\ lake' = lake
                 ELSE /\ pc' = "fill"
                      /\ lake' = IF a = 0 THEN (IF Dev_Truncate THEN Min2(lake, t2) ELSE t2) ELSE lake
        /\ UNCHANGED <<T0, S0>>
Done == pc = "sampled" /\ UNCHANGED vars
Next == Read \/ Done
Spec == Init /\ [][Next]_vars /\ WF_vars(Read)

TypeOK == pc \in {"fill", "sampled"} /\ total \in 0..MaxT /\ rem \in 0..MaxT /\ lake \in 0..(MaxT + Sample)
Conservation == total + rem = T0
SampledAll == pc = "sampled" => total = lake /\ (lake # Sample => rem = 0)
Terminates == <>(pc = "sampled")

\* cases for the replay (written once)
ASSUME ndJsonSerialize("fill_cases.ndjson", SetToSeq(Cases))
=============================================================================
