-------------------------- MODULE Trace_RingBuffer --------------------------
(***************************************************************************)
(* Trace validation for L0: every recorded ring operation of a real run    *)
(* must be an enabled action of RingBuffer (so the callers' preconditions  *)
(* are checked), the recorded (cap, head, tail) must be the specified ones,*)
(* and the raw copies are applied to the cell-level memory with the extent *)
(* the implementation actually touched.  Records: op, s, n, copies, cap,   *)
(* head, tail (state after the operation).                                 *)
(***************************************************************************)
EXTENDS RingBuffer, Json, IOUtils, TLCExt

Rec == ndJsonDeserialize(IOEnv.TRACE)

VARIABLE l
tvars == <<vars, l>>

Ev == Rec[l]
Post == cap' = Ev.cap /\ head' = Ev.head /\ tail' = Ev.tail

ObsCopies == [i \in 1..Len(Ev.copies) |-> <<Ev.copies[i][1], Ev.copies[i][3], Ev.copies[i][6]>>]
Declared == [i \in 1..Len(Ev.copies) |-> <<Ev.copies[i][1], Ev.copies[i][2], Ev.copies[i][3], Ev.copies[i][4], Ev.copies[i][5]>>]

ResetAll == cap' = 0 /\ head' = 0 /\ tail' = 0 /\ mem' = <<>> /\ bad' = bad

TInit == Init /\ l = 1

TNext ==
    /\ l <= Len(Rec)
    /\ l' = l + 1
    /\ \/ (Ev.op = "reset" /\ ResetAll)
       \/ (Ev.op = "grow" /\ GrowObserved(Ev.n, Ev.cap, Ev.head, Ev.tail)
            /\ (IF GrowBy(cap, head, tail, mem, Ev.n)[1] = Ev.cap /\ Ev.head = 0 THEN TRUE
                ELSE PrintT(<<"NONCONFORMING", l, Ev, "growth policy">>)))
       \/ (Ev.op \in {"extend", "fill", "reader"} /\ ExtendU(Ev.n) /\ Post)
       \/ (Ev.op = "z" /\ Zero(Ev.s, Ev.n) /\ Post)
       \/ (Ev.op = "drop" /\ DropFirst(Ev.n) /\ Post)
       \/ (Ev.op = "clear" /\ Clear /\ Post)
       \/ (Ev.op = "efw" /\ EFWWith(Ev.s, Ev.n, ObsCopies) /\ Post
            \* conformance information only: declared regions and touched extents as the specification computes them
            /\ (IF Declared = CopiesAt(cap, head, tail, Ev.s, Ev.n)
                   /\ ObsCopies = SpecCopies(cap, head, tail, Ev.s, Ev.n) THEN TRUE
                ELSE PrintT(<<"NONCONFORMING", l, Ev, CopiesAt(cap, head, tail, Ev.s, Ev.n)>>)))

TSpec == TInit /\ [][TNext]_tvars

Accepted ==
    LET d == TLCGet("stats").diameter
    IN IF d - 1 = Len(Rec) THEN PrintT(<<"ACCEPTED", Len(Rec)>>)
       ELSE Print(<<"REJECTED at", d, Rec[d]>>, FALSE)

=============================================================================
