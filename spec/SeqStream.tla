------------------------------ MODULE SeqStream ------------------------------
(***************************************************************************)
(* The sequences bitstream (RFC 8878 3.1.1.3.2.1.1/.2): how literal length,*)
(* offset and match length of every sequence are read from one backward    *)
(* bit stream with three interleaved FSE states.                           *)
(*   - after the end mark: the initial states, in the order literal        *)
(*     lengths, offsets, match lengths (Accuracy_Log bits each; a table in *)
(*     RLE mode has one state and needs no bits);                          *)
(*   - per sequence: the codes are the symbols of the three states; extra  *)
(*     bits are read in the order offset, match length, literal length;    *)
(*     then, unless it was the last sequence, the states are updated in    *)
(*     the order literal length, match length, offset;                     *)
(*   - values: offset value = 2^code + extra; lengths from the baselines   *)
(*     of ZstdFormat.                                                      *)
(* A table is given as [mode, al, probs, sym]: "fse" / "predef" use        *)
(* FSE!Table(al, probs); "rle" is the single symbol sym.                   *)
(* Rows (C01): for frames of the specification-generated set the harness   *)
(* dumps, per compressed block with sequences, the three tables as its     *)
(* serializer chose them, the stream bytes it wrote and the sequences it   *)
(* meant, plus the (ll, offset value, ml) triples the real decoder         *)
(* reported through its sequence events; TLC decodes the bytes by this     *)
(* module and requires all three to agree and every bit to be consumed.    *)
(***************************************************************************)
EXTENDS ZstdFormat, Json, IOUtils, TLCExt
F == INSTANCE FSE

Rows == ndJsonDeserialize(IOEnv.ROWS)

\* state table of one field: function from state number to [sym, nb, bl]
TableOf(t) == IF t.mode = "rle" THEN [s \in {0} |-> [sym |-> t.sym, nb |-> 0, bl |-> 0]] ELSE F!Table(t.al, t.probs)
ALOf(t) == IF t.mode = "rle" THEN 0 ELSE t.al

RECURSIVE Seqs(_, _, _, _, _, _, _, _, _)
\* bits, top (next bit to read), the three tables, the three states, sequences still to decode, output so far
Seqs(bits, top, tl, to, tm, sl, so, sm, left) ==
    IF left[1] = 0 THEN <<left[2], top>>
    ELSE LET el == tl[sl]  eo == to[so]  em == tm[sm]
             ofx == F!TakeBits(bits, top, eo.sym)
             t1 == top - eo.sym
             mlx == F!TakeBits(bits, t1, MLBits[em.sym + 1])
             t2 == t1 - MLBits[em.sym + 1]
             llx == F!TakeBits(bits, t2, LLBits[el.sym + 1])
             t3 == t2 - LLBits[el.sym + 1]
             q == <<LLBase[el.sym + 1] + llx, F!Pow2(eo.sym) + ofx, MLBase[em.sym + 1] + mlx>>
             out2 == Append(left[2], q)
         IN IF left[1] = 1 THEN <<out2, t3>>
            ELSE LET sl2 == el.bl + F!TakeBits(bits, t3, el.nb)
                     t4 == t3 - el.nb
                     sm2 == em.bl + F!TakeBits(bits, t4, em.nb)
                     t5 == t4 - em.nb
                     so2 == eo.bl + F!TakeBits(bits, t5, eo.nb)
                     t6 == t5 - eo.nb
                 IN Seqs(bits, t6, tl, to, tm, sl2, so2, sm2, <<left[1] - 1, out2>>)

\* <<sequences, bits left>> for n sequences in `bytes` under tables ll, of, ml
Decode(ll, of, ml, bytes, n) ==
    LET bits == F!BitsOfBytes(bytes)
        top == F!StartTop(bytes)
        sl == F!TakeBits(bits, top, ALOf(ll))
        t1 == top - ALOf(ll)
        so == F!TakeBits(bits, t1, ALOf(of))
        t2 == t1 - ALOf(of)
        sm == F!TakeBits(bits, t2, ALOf(ml))
        t3 == t2 - ALOf(ml)
    IN Seqs(bits, t3, TableOf(ll), TableOf(of), TableOf(ml), sl, so, sm, <<n, <<>>>>)

Ok(r) == LET d == Decode(r.ll, r.of, r.ml, r.stream, Len(r.meant))
         IN /\ d[1] = r.meant            \* the specification reads what the serializer meant
            /\ d[2] = 0                  \* and consumes every bit
            /\ r.decoded = r.meant       \* the real decoder reports the same triples

VARIABLE x
Init == x = 0
Next == /\ x = 0 /\ x' = 1
        /\ LET bad == {i \in 1..Len(Rows) : ~Ok(Rows[i])}
           IN PrintT(<<"ROWS", Len(Rows), "BAD", Cardinality(bad), {"seqstream"},
                       IF bad = {} THEN <<>> ELSE LET S == {i \in bad : \A j \in bad : i <= j} IN <<Rows[CHOOSE i \in S : TRUE]>>>>)
Spec == Init /\ [][Next]_x
==============================================================================
