------------------------- MODULE Trace_FrameDecoder -------------------------
(***************************************************************************)
(* Trace validation of FrameDecoder / StreamingDecoder on REAL frames      *)
(* (decodecorpus files, libzstd output over many parameters, ruzstd        *)
(* output).  The harness drives random legal schedules of public calls     *)
(* and records one event per call at its return: the call, its parameters, *)
(* what it returned, and the decoder's observable state afterwards         *)
(* (bytes_read_from_source, is_finished, can_collect, bytes handed out so  *)
(* far).  The abstract frames (header size, window, checksum flag, per     *)
(* block kind / stored size / last flag from an independent walker;        *)
(* regenerated sizes from the decoder's block events, constrained by the   *)
(* reference decoder's total) are the constant Frames of a generated       *)
(* module.  Each event must be the FrameDecoder action of that name with   *)
(* the logged parameters, and the logged results must equal the action's.  *)
(* The properties (Order, Retain, ConsumedOK, NoFinishOnPrefix,            *)
(* FinishedContent, Bounded05) are checked as invariants in every state of *)
(* the validated behaviour.                                                *)
(***************************************************************************)
EXTENDS FrameDecoder, Json, IOUtils, TLCExt

Rec == ndJsonDeserialize(IOEnv.TRACE)
VARIABLE l
tvars == <<vars, l>>
R == Rec[l]
IsEv(e) == l <= Len(Rec) /\ R.ev = e /\ l' = l + 1

\* observable state after the call (a negative number / "?" = not observable through this front end)
FinP == st' = "none" \/ IsFinOf(Frames[fi'], ffin', ck')
CanP == CanCollectOf(Frames[fi'], P', D', ffin', ck')
Post == /\ (R.consumed >= 0 => consumed' = R.consumed)
        /\ (R.fin # "?" => FinP = (R.fin = "y"))
        /\ (R.can >= 0 => CanP = R.can)
        /\ (R.delivered >= 0 => D' = R.delivered)
\* the result tuples of the actions mix integers, booleans and strings: compare their printed form
IsErrRet(r) == ToString(r[1]) = "\"err\""
ResIs == IsErrRet(ret') <=> (R.res = "err")

TNew == /\ IsEv("new")
        /\ st' = "none" /\ fi' = 1 /\ cut' = 0 /\ nb' = 0 /\ consumed' = 0 /\ P' = 0 /\ D' = 0
        /\ ffin' = FALSE /\ ck' = FALSE /\ cap' = 0 /\ head' = 0 /\ tail' = 0 /\ ret' = <<>> /\ steps' = 0 /\ front' = "reader"
TReset == IsEv("reset") /\ Reset(R.i, R.cut) /\ ResIs /\ Post
TDecode == IsEv("decode") /\ Decode(R.kind, R.budget) /\ ResIs /\ Post
TCollect == IsEv("collect") /\ Collect /\ ret' = <<R.n>> /\ Post
TRead == IsEv("read") /\ Read(R.n) /\ ret' = <<R.k>> /\ Post
TCollectTo == IsEv("collect_to") /\ CollectTo(R.script) /\ ret' = <<IF R.err THEN "err" ELSE "ok", R.n>> /\ Post
TFromTo == IsEv("from_to") /\ FromTo(R.i, R.offer, R.t) /\ ResIs /\ (R.res = "ok" => ret' = <<R.rd, R.wr>>) /\ Post
TSRead == IsEv("sread") /\ SRead(R.n) /\ ResIs /\ (R.res = "ok" => ret' = <<R.k>>) /\ Post

TNext == TNew \/ TReset \/ TDecode \/ TCollect \/ TRead \/ TCollectTo \/ TFromTo \/ TSRead
TInit == Init /\ l = 1
TSpec == TInit /\ [][TNext]_tvars

Accepted ==
    LET d == TLCGet("stats").diameter
    IN IF d - 1 = Len(Rec) THEN PrintT(<<"ACCEPTED", Len(Rec)>>)
       ELSE Print(<<"REJECTED at", d, Rec[d]>>, FALSE)
=============================================================================
