//! C18: the same observations in the four feature builds of ruzstd (std / no_std x hash / no hash).
//!  hf io <cases.ndjson> <out.ndjson>      : IoLayer cases against ruzstd::io of this build
//!  hf progs <frames.json> <inputs.json> <out.ndjson> : decode every frame, compress every input; one record each
use ruzstd::decoding::{BlockDecodingStrategy, FrameDecoder, StreamingDecoder};
use ruzstd::encoding::{compress_to_vec, CompressionLevel, FrameCompressor, MatchGeneratorDriver};
use ruzstd::io::{Error, Read, Write};
use serde_json::{json, Value};
use std::io::{BufRead, Write as _};

fn hex(b: &[u8]) -> String {
    b.iter().map(|x| format!("{:02x}", x)).collect()
}
fn unhex(s: &str) -> Vec<u8> {
    (0..s.len() / 2).map(|i| u8::from_str_radix(&s[2 * i..2 * i + 2], 16).unwrap()).collect()
}

#[cfg(feature = "std")]
fn mk_err(kind: &str) -> Error {
    use std::io::ErrorKind;
    match kind {
        "interrupted" => Error::from(ErrorKind::Interrupted),
        "wouldblock" => Error::from(ErrorKind::WouldBlock),
        _ => Error::other("scripted"),
    }
}
#[cfg(not(feature = "std"))]
fn mk_err(kind: &str) -> Error {
    use ruzstd::io::ErrorKind;
    match kind {
        "interrupted" => Error::from(ErrorKind::Interrupted),
        "wouldblock" => Error::from(ErrorKind::WouldBlock),
        _ => Error::from(ErrorKind::Other),
    }
}
#[cfg(feature = "std")]
fn err_class(e: &Error) -> &'static str {
    use std::io::ErrorKind;
    match e.kind() {
        ErrorKind::UnexpectedEof => "eof",
        ErrorKind::WriteZero => "write_zero",
        ErrorKind::WouldBlock => "wouldblock",
        ErrorKind::Interrupted => "interrupted",
        _ => "other",
    }
}
#[cfg(not(feature = "std"))]
fn err_class(e: &Error) -> &'static str {
    use ruzstd::io::ErrorKind;
    match e.kind() {
        ErrorKind::UnexpectedEof => "eof",
        ErrorKind::WriteAllEof => "write_zero",
        ErrorKind::WouldBlock => "wouldblock",
        ErrorKind::Interrupted => "interrupted",
        _ => "other",
    }
}

/// scripted reader / writer: answers k > 0 = up to k bytes, 0 = Ok(0), -1 interrupted, -2 would block, -3 other error;
/// an exhausted script answers Ok(0)
struct Scripted {
    script: Vec<i64>,
    next: u8,
    taken: Vec<u8>,
    calls: usize,
}
impl Read for Scripted {
    fn read(&mut self, buf: &mut [u8]) -> Result<usize, Error> {
        self.calls += 1;
        if self.script.is_empty() {
            return Ok(0);
        }
        match self.script.remove(0) {
            -1 => Err(mk_err("interrupted")),
            -2 => Err(mk_err("wouldblock")),
            -3 => Err(mk_err("other")),
            k => {
                let n = (k as usize).min(buf.len());
                for b in &mut buf[..n] {
                    self.next = self.next.wrapping_add(1);
                    *b = self.next;
                }
                Ok(n)
            }
        }
    }
}
impl Write for Scripted {
    fn write(&mut self, buf: &[u8]) -> Result<usize, Error> {
        self.calls += 1;
        if self.script.is_empty() {
            return Ok(0);
        }
        match self.script.remove(0) {
            -1 => Err(mk_err("interrupted")),
            -2 => Err(mk_err("wouldblock")),
            -3 => Err(mk_err("other")),
            k => {
                let n = (k as usize).min(buf.len());
                self.taken.extend_from_slice(&buf[..n]);
                Ok(n)
            }
        }
    }
    fn flush(&mut self) -> Result<(), Error> {
        Ok(())
    }
}

fn io_cases(cases: &str, out: &str) {
    let f = std::io::BufReader::new(std::fs::File::open(cases).unwrap());
    let mut w = std::io::BufWriter::new(std::fs::File::create(out).unwrap());
    for line in f.lines() {
        let c: Value = serde_json::from_str(&line.unwrap()).unwrap();
        let script: Vec<i64> = c["script"].as_array().unwrap().iter().map(|x| x.as_i64().unwrap()).collect();
        let n = c["n"].as_u64().unwrap() as usize;
        let op = c["op"].as_str().unwrap();
        let mut s = Scripted { script, next: 0, taken: vec![], calls: 0 };
        let rec = match op {
            "read_exact" => {
                let mut buf = vec![0u8; n];
                let r = s.read_exact(&mut buf);
                // how many bytes arrived is visible in the buffer: the scripted reader writes 1, 2, 3, ...
                let filled = buf.iter().take_while(|b| **b != 0).count();
                json!({"res": if r.is_ok() { "ok" } else { err_class(r.as_ref().err().unwrap()) }, "filled": filled, "calls": s.calls})
            }
            "slice_read" => {
                // Read for &[u8]: the script holds the buffer sizes asked for, one read each
                let data: Vec<u8> = (1..=n as u8).collect();
                let mut src: &[u8] = &data[..];
                let mut got = vec![];
                let mut bytes: Vec<u8> = vec![];
                for ask in c["script"].as_array().unwrap() {
                    let mut buf = vec![0u8; ask.as_u64().unwrap() as usize];
                    match std::panic::catch_unwind(std::panic::AssertUnwindSafe(|| Read::read(&mut src, &mut buf))) {
                        Ok(Ok(k)) => { got.push(json!(k)); bytes.extend_from_slice(&buf[..k]); }
                        Ok(Err(e)) => got.push(json!(err_class(&e))),
                        Err(_) => got.push(json!("panic")),
                    }
                }
                json!({"got": got, "prefix": data.starts_with(&bytes)})
            }
            "slice_write" => {
                // Write for &mut [u8]: the script holds the lengths offered, one write each
                let mut room = vec![0u8; n];
                let mut dst: &mut [u8] = &mut room[..];
                let mut got = vec![];
                for off in c["script"].as_array().unwrap() {
                    let data = vec![7u8; off.as_u64().unwrap() as usize];
                    match std::panic::catch_unwind(std::panic::AssertUnwindSafe(|| Write::write(&mut dst, &data))) {
                        Ok(Ok(k)) => got.push(json!(k)),
                        Ok(Err(e)) => got.push(json!(err_class(&e))),
                        Err(_) => got.push(json!("panic")),
                    }
                }
                json!({"got": got, "prefix": true})
            }
            "take_read" => {
                let limit = c["limit"].as_u64().unwrap();
                let mut t = s.take(limit);
                let mut buf = vec![0u8; n];
                let r = t.read(&mut buf);
                let r2 = t.read(&mut buf);
                json!({"res": match &r { Ok(k) => json!(k), Err(e) => json!(err_class(e)) }, "res2": match &r2 { Ok(k) => json!(k), Err(e) => json!(err_class(e)) }, "limit_after": t.limit()})
            }
            _ => {
                let data: Vec<u8> = (1..=n as u8).collect();
                let r = s.write_all(&data);
                json!({"res": if r.is_ok() { "ok" } else { err_class(r.as_ref().err().unwrap()) }, "taken": s.taken.len(), "prefix": data.starts_with(&s.taken), "calls": s.calls})
            }
        };
        serde_json::to_writer(&mut w, &rec).unwrap();
        w.write_all(b"\n").unwrap();
    }
    w.flush().unwrap();
}

fn progs(frames: &str, inputs: &str, out: &str) {
    let fj: Value = serde_json::from_str(&std::fs::read_to_string(frames).unwrap()).unwrap();
    let ij: Value = serde_json::from_str(&std::fs::read_to_string(inputs).unwrap()).unwrap();
    let mut w = std::io::BufWriter::new(std::fs::File::create(out).unwrap());
    let mut dec = FrameDecoder::new();
    for f in fj["frames"].as_array().unwrap() {
        let bytes = unhex(f["hex"].as_str().unwrap());
        // three ways to decode, one record each
        let mut rec = json!({"kind": "decode", "name": f["name"]});
        let mut o = Vec::with_capacity(1 << 16);
        let r = dec.decode_all_to_vec(&bytes, &mut o);
        rec["decode_all"] = json!({"ok": r.is_ok(), "out": hex(&o)});
        let mut o2 = vec![];
        let r2: Result<(), String> = (|| {
            let mut src = &bytes[..];
            dec.reset(&mut src).map_err(|e| e.to_string())?;
            while !dec.is_finished() {
                dec.decode_blocks(&mut src, BlockDecodingStrategy::UptoBlocks(1)).map_err(|e| e.to_string())?;
                let mut sink: Vec<u8> = vec![];
                dec.collect_to_writer(&mut sink).map_err(|e| e.to_string())?;
                o2.extend(sink);
            }
            let mut sink: Vec<u8> = vec![];
            dec.collect_to_writer(&mut sink).map_err(|e| e.to_string())?;
            o2.extend(sink);
            Ok(())
        })();
        rec["blocks"] = json!({"ok": r2.is_ok(), "out": hex(&o2), "consumed": dec.bytes_read_from_source(), "stored_checksum": dec.get_checksum_from_data()});
        #[cfg(feature = "hash")]
        {
            rec["calculated_checksum"] = json!(dec.get_calculated_checksum());
        }
        let mut o3 = vec![];
        let r3: Result<(), String> = (|| {
            let mut sd = StreamingDecoder::new(&bytes[..]).map_err(|e| e.to_string())?;
            let mut buf = [0u8; 333];
            loop {
                let k = sd.read(&mut buf).map_err(|e| e.to_string())?;
                if k == 0 {
                    break;
                }
                o3.extend_from_slice(&buf[..k]);
            }
            Ok(())
        })();
        rec["stream"] = json!({"ok": r3.is_ok(), "out": hex(&o3)});
        serde_json::to_writer(&mut w, &rec).unwrap();
        w.write_all(b"\n").unwrap();
    }
    for i in ij["inputs"].as_array().unwrap() {
        let data = unhex(i["hex"].as_str().unwrap());
        for (lname, lvl) in [("fastest", CompressionLevel::Fastest), ("uncompressed", CompressionLevel::Uncompressed)] {
            let frame = compress_to_vec(&data[..], lvl);
            serde_json::to_writer(&mut w, &json!({"kind": "compress", "name": i["name"], "level": lname, "frame": hex(&frame)})).unwrap();
            w.write_all(b"\n").unwrap();
        }
    }
    // one compressor reused over all inputs: each input twice in a row at level Fastest, then a pass with mixed levels
    let datas: Vec<(String, Vec<u8>)> = ij["inputs"].as_array().unwrap().iter().map(|i| (i["name"].as_str().unwrap().to_string(), unhex(i["hex"].as_str().unwrap()))).collect();
    let mut order: Vec<(usize, bool)> = vec![];
    for i in 0..datas.len() {
        order.push((i, true));
        order.push((i, true));
    }
    for i in 0..datas.len() {
        order.push((i, i % 3 != 2));
    }
    let mut comp: FrameCompressor<&[u8], Vec<u8>, MatchGeneratorDriver> = FrameCompressor::new(CompressionLevel::Fastest);
    for (k, (i, fast)) in order.iter().enumerate() {
        let (name, data) = &datas[*i];
        comp.set_compression_level(if *fast { CompressionLevel::Fastest } else { CompressionLevel::Uncompressed });
        comp.set_source(&data[..]);
        comp.set_drain(Vec::new());
        comp.compress();
        let frame = comp.take_drain().unwrap();
        let mut o = Vec::with_capacity(data.len() + 16);
        let ok = FrameDecoder::new().decode_all_to_vec(&frame, &mut o).is_ok() && o == *data;
        serde_json::to_writer(&mut w, &json!({"kind": "compress", "name": format!("reuse{k}_{name}"), "level": if *fast { "fastest" } else { "uncompressed" }, "frame": hex(&frame), "roundtrip": ok})).unwrap();
        w.write_all(b"\n").unwrap();
    }
    w.flush().unwrap();
}

fn main() {
    let a: Vec<String> = std::env::args().collect();
    match a[1].as_str() {
        "io" => io_cases(&a[2], &a[3]),
        "progs" => progs(&a[2], &a[3], &a[4]),
        "features" => println!("std={} hash={}", cfg!(feature = "std"), cfg!(feature = "hash")),
        _ => std::process::exit(2),
    }
}
