"""Shared machinery of the checks: building the harness, running TLC, walking state graphs,
writing evidence, reporting violations and known findings.

Exit codes of ./check:  0 = property held on everything explored (KNOWN-FINDING lines allowed),
                        1 = at least one VIOLATION line was printed,
                        2 = tool error (build failure, TLC error, timeout, vacuous run) -- never a VIOLATION.
"""
import json, os, re, subprocess, sys, time, shutil, fcntl, collections, hashlib

ROOT = os.path.dirname(os.path.dirname(os.path.abspath(__file__)))
SPEC = os.path.join(ROOT, "spec")
HARNESS = os.path.join(ROOT, "harness")
OUTROOT = os.path.join(ROOT, "out")
EVID = os.path.join(ROOT, "evidence")
REPO = "/repo"
TLC = os.path.join(ROOT, "tools", "tlc.sh")


class ToolError(Exception):
    pass


def log(*a):
    print(*a, flush=True)


class Ctx:
    """One run of one check."""

    def __init__(self, pid, tier, seed):
        self.pid, self.tier, self.seed = pid, tier, seed
        self.t0 = time.time()
        self.out = os.path.join(OUTROOT, pid + "_" + tier)
        shutil.rmtree(self.out, ignore_errors=True)
        os.makedirs(self.out, exist_ok=True)
        self.violations = []      # (replay_path, message)
        self.known = []           # messages
        self.cov = collections.OrderedDict()
        self.samples = []
        self.assumptions = []
        self.states = 0
        self.transitions = 0
        self.traces = 0
        self.evaluations = 0
        self.distinct = 0
        self.notes = []
        self.findings = load_known_findings()
        self.rule = ("cases are the transitions of the TLC state graph replayed on the real code, the cases / rows enumerated by TLC from the "
                     "specification, and the seeded driver cases listed under coverage; a case counts as distinct and non-trivial when it is a "
                     "distinct graph edge, enumerated abstract case or dumped row (identical repetitions are not counted)")

    @property
    def quick(self):
        return self.tier == "quick"

    def path(self, name):
        return os.path.join(self.out, name)

    # ---- reporting -------------------------------------------------------
    def violation(self, what, replay_obj, tag="v"):
        """Record a violation; replay_obj (json-able or str) is saved as the replay file."""
        d = os.path.join(ROOT, "out", "replay")
        os.makedirs(d, exist_ok=True)
        n = len(self.violations)
        p = os.path.join(d, "%s_%s_%s_%d.json" % (self.pid, self.tier, tag, n))
        with open(p, "w") as f:
            if isinstance(replay_obj, str):
                f.write(replay_obj)
            else:
                json.dump({"property": self.pid, "what": what, "case": replay_obj}, f, indent=1, default=str)
        self.violations.append((p, what))
        if len(self.violations) <= 25:
            log("VIOLATION property=%s replay=%s" % (self.pid, p))
            log("  " + what[:600])

    def classify(self, what, replay_obj, signature=None, tag="v"):
        """Report `what` as KNOWN-FINDING if `signature` names an open finding of this property, else as a violation."""
        if signature is not None:
            for f in self.findings.get("open", []):
                if f["signature"] == signature and self.pid in f["properties"]:
                    msg = "KNOWN-FINDING: property=%s %s [%s] %s" % (self.pid, f["id"], signature, f["what"])
                    if msg not in self.known:
                        self.known.append(msg)
                        log(msg)
                    return "known"
        self.violation(what, replay_obj, tag)
        return "violation"

    def add_samples(self, items, limit=4):
        for it in items:
            if len(self.samples) < 12 and limit > 0:
                self.samples.append(it)
                limit -= 1

    def finish(self, level, explanation=None):
        wall = time.time() - self.t0
        cov = collections.OrderedDict()
        cov["states"] = int(self.states)
        cov["transitions"] = int(self.transitions)
        cov["traces_validated_against_impl"] = int(self.traces)
        cov["evaluations"] = int(self.evaluations)
        cov["distinct_nontrivial"] = int(self.distinct)
        cov["rule"] = self.rule
        cov["samples"] = self.samples if self.samples else ["(none)"]
        for k, v in self.cov.items():
            cov[k] = v
        if explanation:
            cov["explanation"] = explanation
        ev = {
            "property_id": self.pid, "tier": self.tier, "seed": int(self.seed), "level": level,
            "coverage": cov, "assumptions": self.assumptions, "wall_s": round(wall, 2),
            "violations": len(self.violations), "known_findings": self.known, "notes": self.notes,
        }
        os.makedirs(EVID, exist_ok=True)
        with open(os.path.join(EVID, self.pid + ".json"), "w") as f:
            json.dump(ev, f, indent=1, default=str)
            f.write("\n")
        log("%s %s: %d violation(s), %d known finding(s), %.1fs" % (self.pid, self.tier, len(self.violations), len(self.known), wall))
        return 1 if self.violations else 0


def load_known_findings():
    p = os.path.join(ROOT, "known_findings.json")
    if os.path.exists(p):
        return json.load(open(p))
    return {"open": [], "fixed": []}


# ---- harness ---------------------------------------------------------------
def run(cmd, cwd=None, env=None, timeout=None, check=True, capture=True):
    e = dict(os.environ)
    if env:
        e.update(env)
    try:
        r = subprocess.run(cmd, cwd=cwd, env=e, timeout=timeout, stdout=subprocess.PIPE if capture else None,
                           stderr=subprocess.STDOUT if capture else None, text=True, errors="replace")
    except subprocess.TimeoutExpired:
        raise ToolError("timeout after %ss: %s" % (timeout, " ".join(map(str, cmd))[:300]))
    if check and r.returncode != 0:
        raise ToolError("command failed (%d): %s\n%s" % (r.returncode, " ".join(map(str, cmd))[:300], (r.stdout or "")[-3000:]))
    return r


_built = {}


def build_harness(profile="release", crate="harness"):
    """Rebuild the harness against /repo's current working tree (hooks enabled through .cargo/config.toml)."""
    key = (profile, crate)
    if key in _built:
        return _built[key]
    d = os.path.join(ROOT, crate)
    lock = open(os.path.join(OUTROOT, ".cargo.lock"), "w")
    fcntl.flock(lock, fcntl.LOCK_EX)
    try:
        if not os.path.exists(os.path.join(d, "Cargo.lock")):
            shutil.copy(os.path.join(REPO, "Cargo.lock"), os.path.join(d, "Cargo.lock"))
        cmd = ["cargo", "build", "--offline", "--quiet"]
        cmd += ["--release"] if profile == "release" else ["--profile", profile]
        t = time.time()
        r = run(cmd, cwd=d, env={"CARGO_NET_OFFLINE": "true"}, timeout=1800, check=False)
        if r.returncode != 0:
            raise ToolError("harness build failed:\n" + (r.stdout or "")[-4000:])
        log("[build] %s/%s %.1fs" % (crate, profile, time.time() - t))
    finally:
        fcntl.flock(lock, fcntl.LOCK_UN)
        lock.close()
    b = os.path.join(d, "target", "release" if profile == "release" else profile, "vh")
    _built[key] = b
    return b


def vh(ctx, args, profile="release", timeout=3600, check=True, env=None):
    b = build_harness(profile)
    r = run([b] + [str(a) for a in args], cwd=ctx.out, timeout=timeout, check=False, env=env)
    if check and (r.returncode < 0 or r.returncode in (101, 134, 137, 139)):
        # the executor process died while running the code under test (a panic outside its own guards = exit 101, abort from the heap cap / an allocation failure,
        # a stack overflow, a segmentation fault): that is behaviour of the code, not of the tool.  On the unchanged tree no
        # executor ever dies, so this cannot raise an alarm there.
        tail = (r.stdout or "")[-400:].replace("\n", " | ")
        ctx.violation("the process executing `vh %s` was killed (exit status %d) while running the code under test: memory exhausted (heap cap), "
                      "abort, stack overflow or invalid memory access. Last output: %s" % (args[0], r.returncode, tail),
                      {"command": [str(a) for a in args], "exit_status": r.returncode}, tag="crash")
        raise ToolError("executor killed (%d): vh %s" % (r.returncode, args[0]))
    if check and r.returncode != 0:
        raise ToolError("command failed (%d): %s\n%s" % (r.returncode, " ".join(str(a) for a in [b] + list(args))[:300], (r.stdout or "")[-3000:]))
    return r


# ---- TLC -------------------------------------------------------------------
class TlcResult:
    def __init__(self):
        self.out = ""
        self.generated = 0
        self.distinct = 0
        self.depth = 0
        self.ok = False
        self.inv_violated = None
        self.error = None
        self.actions = {}
        self.wall = 0.0
        self.printed = []


def write_cfg(path, spec="Spec", constants=None, invariants=(), properties=(), constraint=None, postcondition=None,
              view=None, extra=()):
    lines = ["SPECIFICATION " + spec]
    if constants:
        lines.append("CONSTANTS")
        for k, v in constants.items():
            lines.append("  %s %s" % (k, v) if str(v).startswith("<-") else "  %s = %s" % (k, v))
    if invariants:
        lines.append("INVARIANTS " + " ".join(invariants))
    if properties:
        lines.append("PROPERTIES " + " ".join(properties))
    if constraint:
        lines.append("CONSTRAINT " + constraint)
    if postcondition:
        lines.append("POSTCONDITION " + postcondition)
    if view:
        lines.append("VIEW " + view)
    lines.append("CHECK_DEADLOCK FALSE")
    lines.extend(extra)
    with open(path, "w") as f:
        f.write("\n".join(lines) + "\n")


def tla_set(xs):
    return "{" + ", ".join(str(x) for x in xs) + "}"


def tlc(ctx, module, cfg, workers=8, dump=None, env=None, timeout=3000, coverage=False, heap="-Xmx8g", deque=False,
        simulate=None, name=None, seed=None):
    """Run TLC on spec/<module>.tla with the config file `cfg` (absolute path). Returns TlcResult."""
    name = name or os.path.splitext(os.path.basename(cfg))[0]
    md = ctx.path("md_" + name)
    cmd = [TLC, "-workers", str(workers), "-metadir", md, "-cleanup", "-noGenerateSpecTE", "-fp", "1"]
    if seed is not None:
        cmd += ["-seed", str(seed)]
    if coverage:
        cmd += ["-coverage", "1"]
    if dump:
        cmd += ["-dump", "dot,actionlabels", dump]
    if simulate:
        cmd += ["-simulate", simulate]
    cwd = SPEC
    if os.path.isabs(module):
        cwd = os.path.dirname(module)
        module = os.path.splitext(os.path.basename(module))[0]
    cmd += ["-config", cfg, module + ".tla"]
    e = {"TLC_HEAP": heap, "TLA_LIB": SPEC}
    if deque:
        e["TLC_DEQUE"] = "1"
    if env:
        e.update(env)
    t = time.time()
    r = run(cmd, cwd=cwd, env=e, timeout=timeout, check=False)
    res = TlcResult()
    res.wall = time.time() - t
    res.out = r.stdout or ""
    with open(ctx.path("tlc_" + name + ".log"), "w") as f:
        f.write(res.out)
    shutil.rmtree(md, ignore_errors=True)
    m = re.search(r"(\d+) states generated, (\d+) distinct states found", res.out)
    if m:
        res.generated, res.distinct = int(m.group(1)), int(m.group(2))
    m = re.search(r"depth of the complete state graph search is (\d+)", res.out)
    if m:
        res.depth = int(m.group(1))
    m = re.search(r"Invariant (\w+) is violated", res.out)
    if m:
        res.inv_violated = m.group(1)
    for m in re.finditer(r"^<(\w+) line (\d+), col \d+ to line \d+, col \d+ of module \w+(?: \([\d ]+\))?>: (\d+):(\d+)", res.out, re.M):
        res.actions[m.group(1) + "@" + m.group(2)] = (int(m.group(3)), int(m.group(4)))
    res.printed = [l for l in res.out.splitlines() if l.startswith("<<") or l.startswith('"')]
    res.ok = ("Model checking completed. No error has been found." in res.out) or \
             (simulate is not None and r.returncode in (0,) and "Error:" not in res.out)
    if not res.ok and res.inv_violated is None:
        m = re.search(r"Error: (.*)", res.out)
        res.error = m.group(1) if m else "TLC exit %d" % r.returncode
    return res


def tlc_must_pass(ctx, res, what):
    """A specification-level failure (invariant of the design model broken, parse error) is a tool error:
    the design model is ours; the implementation is judged by the conformance steps."""
    if not res.ok:
        raise ToolError("%s: TLC did not complete cleanly: %s\n%s" % (what, res.inv_violated or res.error, res.out[-3000:]))


def trace_validate(ctx, module, cfg, trace_path, name, env=None, timeout=3000, heap="-Xmx4g"):
    """Validate an ndjson trace. Returns (accepted, info). Rejections carry the first unmatched record."""
    e = {"TRACE": trace_path}
    if env:
        e.update(env)
    res = tlc(ctx, module, cfg, workers=1, env=e, timeout=timeout, heap=heap, deque=True, name=name)
    info = {"events": 0, "rejected_at": None, "record": None, "invariant": res.inv_violated, "nonconforming": 0, "wall": res.wall}
    info["nonconforming"] = len(re.findall(r'^<<"NONCONFORMING"', res.out, re.M))
    m = re.search(r'<<\s*"ACCEPTED",\s*(\d+)\s*>>', res.out)
    if m and res.ok:
        info["events"] = int(m.group(1))
        return True, info, res
    m = re.search(r'<<\s*"REJECTED at",\s*(\d+),\s*(.*?)>>\s+FALSE', res.out, re.S)
    if m:
        info["rejected_at"] = int(m.group(1))
        info["record"] = re.sub(r"\s+", " ", m.group(2))[:800]
        return False, info, res
    if res.inv_violated:
        # the trace reached a state that breaks an invariant: find the position from the printed state
        ls = re.findall(r"^/\\ l = (\d+)", res.out, re.M)
        if not ls:
            ls = re.findall(r"\bl = (\d+)", res.out)
        info["rejected_at"] = int(ls[-1]) - 1 if ls else None
        return False, info, res
    raise ToolError("trace validation %s: TLC failed: %s\n%s" % (name, res.error, res.out[-3000:]))


def trace_validate_chunked(ctx, module, cfg, trace_path, name, boundary, max_events=150000, **kw):
    """Like trace_validate, for long traces: cut at records for which boundary(rec) holds (points where the specification is
    back in its initial condition) into pieces of at most about max_events records, one TLC run each.  Positions in the
    result refer to the whole trace."""
    parallel = kw.pop("parallel", 1)
    with open(trace_path) as f:
        lines = [l for l in f if l.strip()]
    if len(lines) <= max_events:
        return trace_validate(ctx, module, cfg, trace_path, name, **kw)
    pieces, start = [], 0
    last_b = 0
    for i, l in enumerate(lines):
        if i > start and boundary(json.loads(l)):
            if i - start >= max_events:
                cut = last_b if last_b > start else i
                pieces.append((start, cut))
                start = cut
            last_b = i
    pieces.append((start, len(lines)))

    def one(k):
        a, b = pieces[k]
        part = "%s.part%d" % (trace_path, k)
        with open(part, "w") as f:
            f.writelines(lines[a:b])
        try:
            return trace_validate(ctx, module, cfg, part, "%s_%d" % (name, k), **kw)
        finally:
            os.remove(part)

    if parallel > 1:
        # the pieces are independent TLC runs (one worker each); results are looked at in trace order
        from concurrent.futures import ThreadPoolExecutor
        with ThreadPoolExecutor(max_workers=parallel) as ex:
            results = list(ex.map(one, range(len(pieces))))
    else:
        results = None
    total = 0
    res = None
    for k, (a, b) in enumerate(pieces):
        ok, info, res = results[k] if results else one(k)
        if not ok:
            if info["rejected_at"] is not None:
                info["rejected_at"] += a
            info["events"] = total
            return False, info, res
        total += info["events"]
    return True, {"events": total, "rejected_at": None, "record": None, "invariant": None, "nonconforming": 0, "wall": 0, "pieces": len(pieces)}, res


def read_ndjson(path):
    with open(path) as f:
        return [json.loads(l) for l in f if l.strip()]


def write_ndjson(path, rows):
    with open(path, "w") as f:
        for r in rows:
            f.write(json.dumps(r, separators=(",", ":")) + "\n")


def main_wrapper(fn, pid):
    """Run a check function with the common CLI and error discipline."""
    import argparse
    ap = argparse.ArgumentParser()
    ap.add_argument("--tier", default=os.environ.get("VERIF_TIER", "quick"), choices=["quick", "thorough"])
    ap.add_argument("--replay", default=None)
    a = ap.parse_args(sys.argv[2:])
    seed = int(os.environ.get("VERIF_SEED", "1") or "1")
    os.makedirs(OUTROOT, exist_ok=True)
    ctx = Ctx(pid, a.tier, seed)
    try:
        if a.replay:
            ctx.replay = a.replay
        rc = fn(ctx)
    except ToolError as e:
        log("TOOL-ERROR %s: %s" % (pid, e))
        if ctx.violations:
            # violations were already reported before a later stage broke down: the run counts as a detection
            ctx.notes.append("a later stage failed: %s" % str(e)[:500])
            ctx.states = max(ctx.states, 1)
            ctx.transitions = max(ctx.transitions, 1)
            ctx.finish("model_checking")
            sys.exit(1)
        sys.exit(2)
    sys.exit(rc)
