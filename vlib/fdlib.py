"""FrameDecoder layer helpers: frame sets -> generated MC module -> TLC -> programs -> executor."""
import json, os
from .common import *
from . import walk

KIND = {"raw": 0, "rle": 1, "comp": 2, "verbatim": 2}


def tla_bool(b):
    return "TRUE" if b else "FALSE"


def frame_tla(f):
    bl = ", ".join("[k |-> %d, c |-> %d, d |-> %d, last |-> %s, ok |-> %s]" % (KIND[b["kind"]], b["c"], b["d"], tla_bool(b["last"]), tla_bool(b["ok"]))
                   for b in f["blocks"])
    return '[hdr |-> %d, win |-> %d, cks |-> %s, rerr |-> "%s", blocks |-> <<%s>>]' % (f["hdr"], min(f["win"], 1 << 30), tla_bool(f["cks"]), f.get("rerr", ""), bl)


def boundaries(f, dense=False):
    """Source lengths at and around every structural boundary of the frame."""
    n = f["len"]
    pts = {0, 1, 4, 5, f["hdr"] - 1, f["hdr"]}
    p = f["hdr"]
    for b in f["blocks"]:
        pts |= {p + 1, p + 2, p + 3, p + 3 + b["c"] - 1, p + 3 + b["c"]}
        if dense and b["c"] > 2:
            pts |= {p + 3 + 1, p + 3 + b["c"] // 2}
        p += 3 + b["c"]
    if f["cks"]:
        pts |= {n - 4, n - 3, n - 1}
    pts |= {n - 1, n}
    return sorted(x for x in pts if 0 <= x <= n)


def gen_module(ctx, name, frames, cuts, scripts):
    """Write <out>/<name>.tla extending FrameDecoder with the frame set as definitions."""
    lines = ["---- MODULE %s ----" % name, "EXTENDS FrameDecoder",
             "FramesDef == <<\n  " + ",\n  ".join(frame_tla(f) for f in frames) + "\n>>",
             "CutsDef == << " + ", ".join(tla_set(c) for c in cuts) + " >>",
             "ScriptsDef == " + tla_set("<<" + ", ".join(str(x) for x in s) + ">>" for s in scripts),
             "===="]
    p = ctx.path(name + ".tla")
    with open(p, "w") as f:
        f.write("\n".join(lines) + "\n")
    return p


def run_fd_model(ctx, name, frames, cuts, params, invariants, workers=12, timeout=3000, dev_f9=False):
    mod = gen_module(ctx, name, frames, cuts, params.get("Scripts", [[]]))
    cfg = ctx.path(name + ".cfg")
    consts = {
        "Frames": "<- FramesDef", "Cuts": "<- CutsDef", "Scripts": "<- ScriptsDef",
        "ReadSizes": tla_set(params.get("ReadSizes", [])), "ByteBudgets": tla_set(params.get("ByteBudgets", [])),
        "BlockBudgets": tla_set(params.get("BlockBudgets", [])), "Offers": tla_set(params.get("Offers", [])),
        "Targets": tla_set(params.get("Targets", [])), "SReadSizes": tla_set(params.get("SReadSizes", [])),
        "MaxSteps": params.get("MaxSteps", 5), "MaxBlock": 131072, "Dev_F9": tla_bool(dev_f9),
        "ResetMode": '"%s"' % params.get("ResetMode", "any"),
    }
    write_cfg(cfg, constants=consts, invariants=invariants, constraint="Bounded")
    dot = ctx.path(name + ".dot")
    res = tlc(ctx, mod, cfg, workers=workers, dump=dot, timeout=timeout, heap="-Xmx12g", name=name)
    tlc_must_pass(ctx, res, name)
    return res, dot


FD_VARS = ["st", "fi", "cut", "nb", "consumed", "P", "D", "ffin", "ck", "ret"]
FD_INVS = ["Order", "Retain", "RingOK", "ConsumedOK", "NoFinishOnPrefix", "FinishedContent", "Bounded05"]


def replay(ctx, name, frames_path, dot, min_edges=100):
    progs = ctx.path(name + "_programs.ndjson")
    st = walk.programs(dot, FD_VARS, progs)
    os.remove(dot)
    if st["edges"] < min_edges:
        raise ToolError("vacuous graph for %s: %s" % (name, st))
    rep = ctx.path(name + "_exec.json")
    vh(ctx, ["fdexec", frames_path, progs, rep])
    rj = json.load(open(rep))
    with open(progs) as f:
        first = json.loads(f.readline())
    return st, rj, first


SCRIPTS_Q = [[], [0], [1], [-1], [1, -1], [-2, 0], [-2, 1, 0], [-2, -1], [-2, 1, -1]]
SCRIPTS_T = SCRIPTS_Q + [[1023, 1, 0], [-2, -2, -1], [0, 0], [2000, -1, -2], [-2, 700, -1], [-2, 1, 1, -1]]


def make_frames(ctx, setname):
    fp = ctx.path("frames_%s.json" % setname)
    vh(ctx, ["fdframes", setname, fp])
    fj = json.load(open(fp))
    if fj["tool_errors"]:
        raise ToolError("frame serializer disagrees with libzstd: %s" % fj["tool_errors"][:3])
    make_frames.dicts = fj.get("dicts", [])
    return fp, fj["frames"]


def run_config(ctx, name, setname, params, cuts="full", invariants=None, what="", min_edges=100, select=None, dense=False):
    """TLC on the FrameDecoder model for one frame set / parameter menu, then replay of every transition."""
    fp, frames = make_frames(ctx, setname)
    if select:
        keep = [i for i, f in enumerate(frames) if select(f)]
        # the executor indexes frames by position: write a filtered frame file
        frames = [frames[i] for i in keep]
        fp2 = ctx.path("frames_%s_%s.json" % (setname, name))
        json.dump({"frames": frames, "tool_errors": [], "dicts": getattr(make_frames, "dicts", [])}, open(fp2, "w"))
        fp = fp2
    if cuts == "full":
        cutsets = [[f["len"]] for f in frames]
    elif cuts == "sparse":
        # the end, inside the last block / checksum, inside the first block header, inside the frame header
        cutsets = [sorted({f["len"], f["len"] - 1, f["hdr"] + 2, f["hdr"] - 1, (f["hdr"] + f["len"]) // 2}) for f in frames]
    else:
        cutsets = [boundaries(f, dense) for f in frames]
    res, dot = run_fd_model(ctx, name, frames, cutsets, params, invariants or FD_INVS)
    ctx.states += res.distinct
    ctx.transitions += res.generated
    st, rj, first = replay(ctx, name, fp, dot, min_edges)
    ctx.evaluations += rj["steps"]
    ctx.distinct += st["edges"]
    ctx.traces += rj["runs"]
    ctx.cov[name] = {"what": what, "frames": [f["name"] for f in frames], "params": {k: v for k, v in params.items()},
                     "cut_points": sum(len(c) for c in cutsets),
                     "distinct_states": res.distinct, "transitions": res.generated, "graph_edges": st["edges"],
                     "programs": rj["programs"], "calls_replayed": rj["steps"], "program_runs": rj["runs"],
                     "mismatches": rj["mismatches"], "ops": rj["ops"], "tlc_wall_s": round(res.wall, 1),
                     "drifted_runs": rj["drifted_runs"], "drift_signatures": rj["drift_signatures"]}
    if rj["drifted_runs"]:
        ctx.notes.append("%s: %d of %d program runs left the as-built model in an intermediate value (counters, amount handed out by one "
                         "call) without any property-level observable being wrong; they were continued without predictions and completed "
                         "with the property-level checks only. Examples: %s" % (name, rj["drifted_runs"], rj["runs"], json.dumps(rj["drift_examples"][:2])))
        log("[drift] %s: %d runs, signatures %s" % (name, rj["drifted_runs"], rj["drift_signatures"]))
    missing = [op for op in params.get("_expect_ops", []) if op not in rj["ops"]]
    if missing:
        raise ToolError("vacuous %s: operations never taken: %s" % (name, missing))
    for m in rj["first"]:
        ctx.violation("%s: %s%s in state %s -> %s" % (name, m["op"], m["args"], json.dumps(m["state_before"]), "; ".join(m["errors"])),
                      {"frames": fp, "frame_set": setname, "mode": m["mode"], "chunk": m["chunk"], "program": m["prefix"]}, tag=name)
    ctx.add_samples([first[:5]], 1)
    return rj


def corpus(ctx):
    idx = ctx.path("corpus.json")
    vh(ctx, ["mkcorpus", ctx.seed, ctx.tier, ctx.path("corpus"), idx])
    return idx


def random_schedules(ctx, per, idx=None):
    idx = idx or corpus(ctx)
    rep = ctx.path("fdrand.json")
    vh(ctx, ["fdrand", ctx.seed, per, idx, rep], timeout=7200)
    rj = json.load(open(rep))
    ctx.evaluations += rj["calls"]
    ctx.traces += rj["runs"]
    ctx.cov["random_schedules_real_frames"] = {k: rj[k] for k in ("frames", "runs", "calls", "mismatches", "modes")}
    for m in rj["first"]:
        ctx.violation("random schedule on %s (%s): %s" % (m["frame"], m["mode"], "; ".join(m["errors"])), m, tag="rand")
    ctx.add_samples(rj["samples"][:1], 1)
    return rj


def trace_real_frames(ctx, per, idx=None, salt=0):
    """Trace validation on real frames: random legal schedules recorded call by call (fdtrace) and checked against
    Trace_FrameDecoder.tla with the properties as invariants.  An invariant broken by the observed values is a violation;
    a call that is not the specified action (amounts, flags of the as-built model) is drift.  Includes a self-test of the
    binding: the same trace with one recorded value changed must be rejected."""
    idx = idx or corpus(ctx)
    trace = ctx.path("fd_trace.ndjson")
    frames_p = ctx.path("fd_trace_frames.json")
    rep = ctx.path("fdtrace.json")
    vh(ctx, ["fdtrace", ctx.seed * 1000 + salt, per, idx, trace, frames_p, rep], timeout=7200)
    rj = json.load(open(rep))
    for pr in rj["problems"][:5]:
        ctx.violation("recording schedules on %s: %s" % (pr["frame"], pr["problem"]), pr, tag="tracerec")
    frames = json.load(open(frames_p))["frames"]
    if len(frames) < 10 or rj["events"] < 200:
        raise ToolError("vacuous trace recording: %s" % rj)
    lines = ["---- MODULE MC_TraceFD ----", "EXTENDS Trace_FrameDecoder",
             "FramesDef == <<\n  " + ",\n  ".join(frame_tla(f) for f in frames) + "\n>>",
             "CutsDef == [i \\in 1..Len(FramesDef) |-> 0..FrameLen(FramesDef[i])]", "===="]
    mod = ctx.path("MC_TraceFD.tla")
    with open(mod, "w") as f:
        f.write("\n".join(lines) + "\n")
    cfg = ctx.path("MC_TraceFD.cfg")
    consts = {"Frames": "<- FramesDef", "Cuts": "<- CutsDef", "Scripts": "{}", "ReadSizes": "{}", "ByteBudgets": "{}", "BlockBudgets": "{}",
              "Offers": "{}", "Targets": "{}", "SReadSizes": "{}", "MaxSteps": 1000000, "MaxBlock": 131072, "Dev_F9": "FALSE", "ResetMode": '"any"'}
    invs = ["Order", "Retain", "ConsumedOK", "NoFinishOnPrefix", "FinishedContent", "Bounded05"]
    write_cfg(cfg, spec="TSpec", constants=consts, invariants=invs, postcondition="Accepted")
    # a "new" event puts the specification into its initial condition whatever came before: long traces are validated in pieces
    # cut there (one TLC run over 120 000 events took more than half an hour, the cost is per event, about 10 ms; pieces of 10 000, eight at a time)
    ok, info, res = trace_validate_chunked(ctx, mod, cfg, trace, "tv_frame_decoder", lambda r: r.get("ev") == "new", max_events=10000, heap="-Xmx4g", parallel=8)
    ctx.traces += rj["runs"]
    ctx.evaluations += rj["events"]
    cov = {k: rj[k] for k in ("frames", "skipped_frames", "runs", "events", "modes", "truncated_runs", "runs_on_a_reused_decoder")}
    if ok:
        cov["events_accepted"] = info["events"]
        ctx.distinct += info["events"]
    else:
        recs = read_ndjson(trace)
        at = info["rejected_at"] or 1
        cov.update({"rejected_at": at, "record": info["record"], "invariant": info["invariant"]})
        start = max([i for i in range(min(at, len(recs))) if recs[i]["ev"] in ("new", "reset")] or [0])
        prefix = recs[start:at]
        fname = frames[prefix[0]["i"] - 1]["name"] if prefix and "i" in prefix[0] else "?"
        if info["invariant"]:
            ctx.violation("recorded schedule on %s breaks %s at event %d: %s" % (fname, info["invariant"], at, json.dumps(prefix[-4:])[:900]),
                          {"frame": fname, "trace_prefix": prefix, "invariant": info["invariant"]}, tag="fdtv")
        else:
            ctx.notes.append("drift (not a violation): the recorded schedule on %s leaves the as-built specification at event %d (%s); the properties "
                             "held in every state up to there" % (fname, at, json.dumps(prefix[-2:])[:500]))
            log("[drift] frame decoder trace rejected at %d" % at)
    # binding self-test: one recorded value changed
    recs = read_ndjson(trace)
    cand = [i for i, r in enumerate(recs) if r.get("consumed", -1) > 0 and r["ev"] in ("decode", "sread", "from_to") and i > len(recs) // 3]
    if ok and cand:
        k = cand[0]
        j = max([i for i in range(max(0, k - 20000), k + 1) if recs[i]["ev"] == "new"] or [0]) if len(recs) > 20000 else 0
        recs2 = [dict(r) for r in recs[j:k + 1]]
        recs2[-1]["consumed"] += 1
        t2 = ctx.path("fd_trace_corrupt.ndjson")
        write_ndjson(t2, recs2)
        ok2, info2, _ = trace_validate(ctx, mod, cfg, t2, "tv_frame_decoder_selftest", heap="-Xmx8g")
        if ok2:
            raise ToolError("self-test failed: a trace with a wrong consumed count at event %d is accepted" % (k + 1))
        cov["binding_selftest"] = "trace with consumed+1 at event %d rejected at %s" % (k + 1, info2["rejected_at"])
    ctx.cov["trace_validation_real_frames"] = cov
    return rj
