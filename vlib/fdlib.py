"""FrameDecoder layer helpers: frame sets -> generated MC module -> TLC -> programs -> executor."""
import json, os
from .common import *
from . import walk

KIND = {"raw": 0, "rle": 1, "comp": 2, "verbatim": 2}


def tla_bool(b):
    return "TRUE" if b else "FALSE"


def frame_tla(f):
    bl = ", ".join("[k |-> %d, c |-> %d, d |-> %d, last |-> %s, ok |-> %s]" % (KIND[b["kind"]], b["c"], b["d"], tla_bool(b["last"]), tla_bool(b["ok"]))
                   for b in f["blocks"])
    return "[hdr |-> %d, win |-> %d, cks |-> %s, blocks |-> <<%s>>]" % (f["hdr"], f["win"], tla_bool(f["cks"]), bl)


def boundaries(f, dense=False):
    """Source lengths at and around every structural boundary of the frame."""
    n = f["len"]
    pts = {0, 1, 4, 5, f["hdr"] - 1, f["hdr"]}
    p = f["hdr"]
    for b in f["blocks"]:
        pts |= {p + 1, p + 2, p + 3, p + 3 + b["c"] - 1, p + 3 + b["c"]}
        if dense and b["c"] > 2:
            pts |= {p + 3 + 1, p + 3 + b["c"] // 2}
        p += 3 + b["c"]
    if f["cks"]:
        pts |= {n - 4, n - 3, n - 1}
    pts |= {n - 1, n}
    return sorted(x for x in pts if 0 <= x <= n)


def gen_module(ctx, name, frames, cuts, scripts):
    """Write <out>/<name>.tla extending FrameDecoder with the frame set as definitions."""
    lines = ["---- MODULE %s ----" % name, "EXTENDS FrameDecoder",
             "FramesDef == <<\n  " + ",\n  ".join(frame_tla(f) for f in frames) + "\n>>",
             "CutsDef == << " + ", ".join(tla_set(c) for c in cuts) + " >>",
             "ScriptsDef == " + tla_set("<<" + ", ".join(str(x) for x in s) + ">>" for s in scripts),
             "===="]
    p = ctx.path(name + ".tla")
    with open(p, "w") as f:
        f.write("\n".join(lines) + "\n")
    return p


def run_fd_model(ctx, name, frames, cuts, params, invariants, workers=12, timeout=3000, dev_f9=False):
    mod = gen_module(ctx, name, frames, cuts, params.get("Scripts", [[]]))
    cfg = ctx.path(name + ".cfg")
    consts = {
        "Frames": "<- FramesDef", "Cuts": "<- CutsDef", "Scripts": "<- ScriptsDef",
        "ReadSizes": tla_set(params.get("ReadSizes", [])), "ByteBudgets": tla_set(params.get("ByteBudgets", [])),
        "BlockBudgets": tla_set(params.get("BlockBudgets", [])), "Offers": tla_set(params.get("Offers", [])),
        "Targets": tla_set(params.get("Targets", [])), "SReadSizes": tla_set(params.get("SReadSizes", [])),
        "MaxSteps": params.get("MaxSteps", 5), "MaxBlock": 131072, "Dev_F9": tla_bool(dev_f9),
    }
    write_cfg(cfg, constants=consts, invariants=invariants, constraint="Bounded")
    dot = ctx.path(name + ".dot")
    res = tlc(ctx, mod, cfg, workers=workers, dump=dot, timeout=timeout, heap="-Xmx12g", name=name)
    tlc_must_pass(ctx, res, name)
    return res, dot


FD_VARS = ["st", "fi", "cut", "nb", "consumed", "P", "D", "ffin", "ck", "ret"]
FD_INVS = ["Order", "Retain", "RingOK", "ConsumedOK", "NoFinishOnPrefix", "FinishedContent", "Bounded05"]


def replay(ctx, name, frames_path, dot, min_edges=100):
    progs = ctx.path(name + "_programs.ndjson")
    st = walk.programs(dot, FD_VARS, progs)
    os.remove(dot)
    if st["edges"] < min_edges:
        raise ToolError("vacuous graph for %s: %s" % (name, st))
    rep = ctx.path(name + "_exec.json")
    vh(ctx, ["fdexec", frames_path, progs, rep])
    rj = json.load(open(rep))
    with open(progs) as f:
        first = json.loads(f.readline())
    return st, rj, first
