"""C01 -- the decoder reproduces the original data for every valid Zstandard frame.

ZstdFrames.tla is the format as abstract syntax with its meaning (Exec over literals and sequences with the repeat-offset
rule of ZstdFormat, the per-frame format state of Huffman table / three sequence tables / repeat offsets).  TLC
enumerates frames built from a default compressed block by one or two deviations per block -- literals raw / RLE /
Huffman in 1 or 4 streams / treeless, every size format, 0..3 sequences, all mode triples over predefined / RLE / FSE and
repeat modes in a follow-up block, repeat-offset codes with and without literals, overlapping copies, raw / RLE / empty
blocks, header variants; the full product literals kind x sequence menu x mode triple; values in the upper code ranges
(up to 8 extra bits) under every mode triple; chains of three dependent blocks (20 108 frames) -- and writes each with the
content the specification computes (or "invalid").  The harness
serialises every frame with its own bit packers (accepted only if libzstd agrees with the specification), decodes it
through decode_all, the streaming reader, decode_blocks+collect and decode_from_to, and compares bytes and metadata.
SeqStream.tla is the sequences bitstream bit by bit (three interleaved FSE states, order of initial states, extra bits and
state updates): for every distinct compressed block of those frames TLC decodes the stream bytes by the specification and
compares with the sequences the frame was built from and with the triples the real decoder reports through its events.
Real compressors: random legal schedules over decodecorpus files and libzstd / ruzstd output (levels -5..22, window logs,
long-distance mode, checksum / content size flags, flush patterns), oracle = the original bytes; the repeat-offset
events of those decodes are checked row by row against RepStep.
"""
import json, os, re
from ..common import *
from .. import fdlib
from .c12 import rows_run


def check(ctx):
    build_harness()
    q = ctx.quick
    mod = ctx.path("MC_ZstdFrames.tla")
    with open(mod, "w") as f:
        f.write("---- MODULE MC_ZstdFrames ----\nEXTENDS ZstdFrames\nDictContentDef == <<>>\nDictRepDef == <<1, 4, 8>>\n====\n")
    cfg = ctx.path("MC_ZstdFrames.cfg")
    write_cfg(cfg, constants={"Tier": '"deep"', "DictContent": "<- DictContentDef", "DictRep": "<- DictRepDef"})   # the enumeration is cheap: both tiers use the deepest set
    res = tlc(ctx, mod, cfg, workers=1, name="MC_ZstdFrames", heap="-Xmx8g", timeout=3000)
    tlc_must_pass(ctx, res, "ZstdFrames")
    cases = ctx.path("zf_cases.ndjson")
    if not os.path.exists(cases):
        raise ToolError("ZstdFrames wrote nothing")
    rep = ctx.path("zfexec.json")
    vh(ctx, ["zfexec", cases, rep], timeout=3000)
    zj = json.load(open(rep))
    if zj["spec_vs_libzstd"]:
        raise ToolError("specification / serializer disagree with libzstd on %d frames: %s" % (zj["spec_vs_libzstd"], json.dumps(zj["spec_vs_libzstd_examples"][:2])[:1500]))
    ctx.states += zj["frames"]
    ctx.transitions += max(res.generated, 1)
    ctx.evaluations += zj["frames"] * 4
    ctx.distinct += zj["valid"] + zj["invalid"]
    ctx.traces += zj["valid"] + zj["invalid"]
    ctx.cov["spec_generated_frames"] = {"frames": zj["frames"], "valid": zj["valid"], "invalid": zj["invalid"], "mismatches": zj["mismatches"],
                                        "entry_points": ["decode_all_to_vec", "streaming", "decode_blocks+collect", "decode_from_to"],
                                        "features": zj["features"]}
    if zj["valid"] < 500 or len(zj["features"]) < 30:
        raise ToolError("vacuous frame enumeration")
    for m in zj["first"]:
        ctx.violation("spec-generated frame %s: %s" % (json.dumps(m["frame"])[:500], "; ".join(m["errors"])[:600]), m, tag="zf")
    ctx.add_samples(zj["samples"][:1], 1)
    # ---- the sequences bitstream itself, bit by bit: SeqStream.tla against the serializer and the real decoder's events ----
    srows = ctx.path("seqstream_rows.ndjson")
    srep = ctx.path("seqstream.json")
    vh(ctx, ["seqstream", cases, srows, srep, 1], timeout=3000)
    ssj = json.load(open(srep))
    sn, sbad, sfirst = rows_run(ctx, "SeqStream", srows, "SeqStreamRows")
    ctx.cov["sequence_bitstreams"] = {"frames": ssj["frames"], "distinct_blocks": ssj["distinct_rows"], "rows_checked": sn, "bad": sbad, "mode_triples": len(ssj["mode_triples"])}
    if sbad:
        ctx.violation("%d of %d sequence bitstreams: the specification's reading, the sequences the frame was built from and the decoder's sequence events "
                      "do not agree, first: %s" % (sbad, sn, sfirst), {"rows": srows, "first": sfirst}, tag="seqstream")
    # self-test of the row check: one extra bit claimed in a literal length must be noticed
    with open(srows) as f:
        r0 = json.loads(f.readline())
    r0["meant"][0][0] += 1
    r0["decoded"][0][0] += 1
    st = ctx.path("seqstream_selftest.ndjson")
    write_ndjson(st, [r0])
    tn, tbad, _ = rows_run(ctx, "SeqStream", st, "SeqStreamSelftest")
    if tbad != 1:
        raise ToolError("self-test failed: a sequence bitstream row with a wrong literal length is accepted")
    if sn < 200 or len(ssj["mode_triples"]) < 30:
        raise ToolError("vacuous sequence bitstream rows: %s" % ctx.cov["sequence_bitstreams"])
    ctx.evaluations += sn
    # ---- real compressors ----
    idx = fdlib.corpus(ctx)
    fdlib.random_schedules(ctx, 12 if q else 80, idx)
    rows = ctx.path("seq_rows.ndjson")
    rep = ctx.path("seqrows.json")
    vh(ctx, ["seqrows", idx, 3000 if q else 40000, rows, rep], timeout=3000)
    sj = json.load(open(rep))
    if sj["rows"] > 0:
        cfgr = ctx.path("FormatRows.cfg")
        write_cfg(cfgr)
        r2 = tlc(ctx, "FormatRows", cfgr, workers=1, env={"ROWS": rows}, name="rows_repstep", heap="-Xmx8g", timeout=3000)
        tlc_must_pass(ctx, r2, "rows_repstep")
        m = re.search(r'<<\s*"ROWS",\s*(\d+),\s*"BAD",\s*(\d+),\s*(\{.*?\}),\s*(.*)>>', r2.out, re.S)
        if not m:
            raise ToolError("row validation printed nothing")
        n, bad = int(m.group(1)), int(m.group(2))
        ctx.cov["repeat_offset_events_of_real_frames"] = {"rows": n, "bad": bad, "sequences_seen": sj["sequences_seen"]}
        ctx.evaluations += n
        if bad:
            first = re.sub(r"\s+", " ", m.group(4))[:600]
            ctx.violation("%d of %d repeat-offset events of real frames differ from RepStep, first: %s" % (bad, n, first), {"rows": rows, "first": first}, tag="rep")
    ctx.assumptions += ["exhaustive over the abstract feature graph with one (two) deviations per block and small sizes; byte contents and large sizes are sampled",
                        "bit packing is done by the harness serializer, accepted only where libzstd decodes the frame to the specified content",
                        "FSE-compressed Huffman weights and large windows are covered by real-compressor frames"]
    return ctx.finish("model_checking")
