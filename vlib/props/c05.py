"""C05 -- decoder memory is bounded by the window limit plus one block, for any input.

FrameDecoder.tla: a block whose regenerated size exceeds MaxBlock has no successful transition (guard d <= MaxBlock in
OneBlock / SLoop), invariant Bounded05; explored over hostile frames (blocks at exactly 128 KiB, one byte more, RLE
literals beyond the limit, a thousand and 32800 maximum-length matches, a block as large as a 256 KiB / 8 MiB window after
the window was filled) and all strategies.  Every transition is replayed on the real decoder.  c05exec drives every
frame through every strategy and front end under a counting allocator: bytes held beyond the window after each call
and the heap peak must stay within window + requested + 128 KiB (twice that plus slack for the heap).  The incremental
strategies run a second time on a decoder that has just finished a frame with an 8 MiB window, and whatever a single
collect() hands out -- bytes the decoder was holding -- must stay within THIS frame's window + requested + 128 KiB: the
bound is per frame, not per decoder history, and it does not rely on the decoder's own idea of its window.
"""
import json
from ..common import *
from .. import fdlib


def check(ctx):
    build_harness()
    q = ctx.quick
    params = dict(ReadSizes=[1, 200000], ByteBudgets=[1, 1048576], BlockBudgets=[1], Offers=[100000], Targets=[0, 200000], Scripts=[[]],
                  SReadSizes=[1, 65536], MaxSteps=3 if q else 4, ResetMode="ends" if q else "any",
                  _expect_ops=["Reset", "Decode", "Collect", "Read", "FromTo", "SRead"])
    fp, frames = fdlib.make_frames(ctx, "hostile")
    rep = ctx.path("c05exec.json")
    vh(ctx, ["c05exec", fp, rep], timeout=3600)
    rj = json.load(open(rep))
    ctx.evaluations += rj["cases"]
    ctx.distinct += rj["cases"]
    ctx.cov["held_and_heap"] = {"cases": rj["cases"], "violations": rj["violations"], "frames": [f["name"] for f in frames],
                                "max_heap_peak": max(r["heap_peak"] for r in rj["rows"]),
                                "max_held_beyond_window": max(r["held_beyond_window"] for r in rj["rows"])}
    for b in rj["first"]:
        ctx.violation("frame %s (%s), strategy %s: %s" % (b["row"]["frame"], frames[b["row"]["frame"] - 1]["name"], b["row"]["strategy"], "; ".join(b["errors"])),
                      {"frames": fp, "row": b["row"]}, tag="heap")
    ctx.add_samples([rj["rows"][0], rj["rows"][-1]], 2)
    if rj["violations"]:
        # the decoder expands hostile blocks: replaying thousands of schedules over them would only repeat the finding slowly
        ctx.notes.append("model replay skipped because the direct measurement already found violations")
        return ctx.finish("model_checking")
    fdlib.run_config(ctx, "MC_FD_hostile", "hostile", params, what="blocks at and beyond the 128 KiB limit, all strategies and front ends",
                     select=(lambda f: f["name"] not in ("bomb_window_8m", "f1_32800", "long_win1k")) if q else (lambda f: f["name"] not in ("f1_32800", "long_win1k")))
    fdlib.random_schedules(ctx, 6 if q else 60)
    ctx.assumptions += ["heap bound: 2 * (window + requested + 128 KiB) + the frame itself + 4 MiB slack, measured with a counting global allocator",
                        "hostile blocks are produced by sequences and by RLE literals; Huffman-literal bombs are covered by the same literals-size check"]
    return ctx.finish("model_checking")
