"""C03 -- no input can make decoding panic, corrupt memory or hang.

Fault enumeration driven by the specifications: every valid frame the abstract-syntax model ZstdFrames.tla enumerates (all
literal kinds, size formats, mode triples, repeat offsets, header variants) and every frame of the protocol model's sets
(incl. dictionary and hostile-size frames) is faulted at EVERY byte position with seven fault values, plus byte insertion
and deletion; the two synthetic dictionaries are faulted at every position and truncated at every length; real frames
(decodecorpus, libzstd, ruzstd) get seeded multi-byte mutations; the saved fuzz artefacts are replayed.  Each case runs
through four entry points (decode_all, streaming reader, decode_blocks with alternating strategies + collect + queries,
decode_from_to with growing chunks) in a release build and in a build with debug assertions and overflow checks; the only
allowed outcomes are Ok / Err; afterwards the same decoder must reset and decode a good frame correctly.  A watchdog
(no progress for 30 s) and the counting allocator's cap name the case on a hang or a runaway allocation.  The ring buffer
operations and raw copies recorded during a sample of the cases are validated against RingIdx.tla: every operation must be
enabled (the preconditions of the unsafe methods) and every raw copy must stay inside the allocation, read written
cells only and write no live cell -- this ties the memory safety of the only unsafe code to hostile input.
"""
import json, os, re
from ..common import *
from .. import fdlib


def run_exec(ctx, profile, cases, idx, tag):
    rep = ctx.path("c03exec_%s.json" % tag)
    trace = ctx.path("c03_ring_%s.ndjson" % tag)
    r = vh(ctx, ["c03exec", ctx.seed, ctx.tier, cases, idx, rep, trace], profile=profile, timeout=7200, check=False,
           env={"VH_HEAP_CAP": str(3 << 30)})
    if r.returncode in (3, 4):
        m = re.search(r'\{"(hang|heapcap)":\s*(\d+)', r.stdout or "")
        kind, case = (m.group(1), int(m.group(2))) if m else ("?", -1)
        what = "no progress for 30 s (hang)" if kind == "hang" else "an allocation beyond the 3 GiB cap"
        ctx.violation("hostile input case %d (%s build): %s" % (case, profile, what),
                      {"case": case, "replay": "vh c03exec %s %s %s %s rep.json ring.ndjson --only %d" % (ctx.seed, ctx.tier, cases, idx, case)}, tag="hang")
        return None, trace
    if r.returncode < 0 or r.returncode in (101, 134, 137, 139):
        # the executor died: heap corruption detected by the allocator, a segmentation fault, a panic outside its guards.
        # On the unchanged tree it never dies; the case in progress is the last one it named.
        m = re.findall(r'"current": (\d+)', r.stdout or "")
        tail = (r.stdout or "")[-300:].replace("\n", " | ")
        ctx.violation("the decoder brought the executor down on hostile input (%s build, exit status %d: memory corruption, invalid memory access or abort): %s"
                      % (profile, r.returncode, tail), {"exit_status": r.returncode, "last_output": tail, "case": int(m[-1]) if m else None}, tag="crash")
        return None, trace
    if r.returncode != 0:
        raise ToolError("c03exec (%s) failed: %s" % (profile, (r.stdout or "")[-1500:]))
    return json.load(open(rep)), trace


def check(ctx):
    build_harness()
    q = ctx.quick
    # the abstract-syntax frames
    mod = ctx.path("MC_ZstdFrames.tla")
    with open(mod, "w") as f:
        f.write("---- MODULE MC_ZstdFrames ----\nEXTENDS ZstdFrames\nDictContentDef == <<>>\nDictRepDef == <<1, 4, 8>>\n====\n")
    cfg = ctx.path("MC_ZstdFrames.cfg")
    write_cfg(cfg, constants={"Tier": '"thorough"', "DictContent": "<- DictContentDef", "DictRep": "<- DictRepDef"})
    res = tlc(ctx, mod, cfg, workers=1, name="MC_ZstdFrames", heap="-Xmx8g", timeout=3000)
    tlc_must_pass(ctx, res, "ZstdFrames")
    cases = ctx.path("zf_cases.ndjson")
    idx = fdlib.corpus(ctx)
    ctx.states += max(res.distinct, 1)
    ctx.transitions += max(res.generated, 1)
    for profile, tag in (("release", "release"), ("dbg", "dbg")):
        if profile == "dbg":
            build_harness("dbg")
        rj, trace = run_exec(ctx, profile, cases, idx, tag)
        if rj is None:
            continue
        ctx.evaluations += sum(rj["outcomes"].values())
        ctx.distinct += sum(rj["executed"].values())
        ctx.cov["faults_" + tag] = {"cases": rj["cases"], "kinds": rj["executed"], "outcomes_over_entry_points": rj["outcomes"], "frames_faulted": rj["frames_faulted"],
                                    "violations": rj["violations"]}
        for b in rj["first"]:
            ctx.violation("hostile input case %s (%s build) %s: %s" % (b["case"], profile, json.dumps(b["what"]), "; ".join(b["errors"])[:700]), b, tag=tag)
        if rj["cases"] < 5000 or len(rj["executed"]) < 5:
            raise ToolError("vacuous fault enumeration %s" % rj["executed"])
        if tag == "release":
            ctx.add_samples([{"kind": "byte_fault", "frame": "zf:0", "position": 6, "value": 255, "entry_points": ["decode_all_to_vec", "streaming", "decode_blocks+collect", "decode_from_to"]},
                             {"case_kinds": rj["executed"]}], 2)
            # ring events of the sampled cases against the specification
            cfgr = ctx.path("RingIdx.cfg")
            write_cfg(cfgr, invariants=["Safe"], postcondition="Accepted")
            ok, info, tres = trace_validate_chunked(ctx, "RingIdx", cfgr, trace, "tv_ring_hostile", lambda r: r.get("op") == "reset", timeout=3000, heap="-Xmx8g")
            ctx.traces += rj["ring_traces"]
            if ok:
                ctx.cov["ring_events_under_hostile_input"] = {"events_accepted": info["events"], "decoder_runs_traced": rj["ring_traces"]}
                if info["events"] < 1000:
                    raise ToolError("vacuous ring trace (%d events)" % info["events"])
            else:
                recs = read_ndjson(trace)
                at = info["rejected_at"] or 1
                start = max([i for i in range(min(at, len(recs))) if recs[i]["op"] == "reset"] or [0])
                code = None
                mm = re.findall(r"bad = (\d+)", tres.out)
                if mm:
                    code = int(mm[-1])
                names = {1: "a raw copy touches memory outside the allocation", 2: "a raw copy reads a cell that was never written", 4: "head / tail out of range",
                         7: "a raw copy writes into live data", 8: "an unchecked ring method was called outside its documented precondition"}
                ctx.violation("ring events recorded under hostile input leave the specification at event %d: %s" % (at, names.get(code, info["record"] or "not an enabled operation")),
                              {"trace_prefix": recs[start:at + 1][-40:]}, tag="ring")
    ctx.rule = ("every byte position of every enumerated frame x 7 fault values (+ insertion / deletion at 7 positions), every position / truncation "
                "length of the dictionaries, seeded mutations of real frames, fuzz artefacts; each case = one mutated input run through 4 entry "
                "points + reuse; distinct = distinct (input, fault) cases executed (a fault equal to the original byte is skipped)")
    ctx.assumptions += ["not exhaustive over byte strings: single-byte faults at every position of every enumerated frame, seeded multi-byte mutations of real frames",
                        "hang = no progress for 30 s on a case that normally takes microseconds", "undefined behaviour outside ringbuffer.rs would have to come from safe Rust and is out of scope"]
    return ctx.finish("fault_enumeration")
