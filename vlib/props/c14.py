"""C14 -- sequence codes, repeat-offset rules and section headers match the specification.

ZstdFormat.tla holds the RFC 8878 tables and header layouts as operators (FormatTheorems: the code ranges are contiguous
and cover 0..131071 / 3..131074, the sequence-count codec inverts at every boundary).  The harness dumps, through the
pass-through hooks, the implementation's function tables of both sides -- every literal length and match length with the
encoder's (code, extra, bits) and the decoder's (base, bits) of that code; offset values at every code boundary and
random ones over the full 32-bit range; the repeat-offset function over histories; every sequence count through writer
and parser; all literals-header patterns; block headers (boundaries, samples, and all 2^24 as per-class summaries);
every frame descriptor x window bytes; the compressor's header writers -- and TLC judges every row with FormatRows.Ok.
"""
import json, re, os
from ..common import *


def check(ctx):
    build_harness()
    q = ctx.quick
    rep = ctx.path("c14rows.json")
    vh(ctx, ["c14rows", ctx.seed, 5 if q else 1, ctx.path("rows"), rep], timeout=3000)
    rj = json.load(open(rep))
    for p in rj["panics"]:
        ctx.violation("panic in %s: %s" % (p["what"], p["panic"]), p, tag="panic")
    cfg = ctx.path("FormatRows.cfg")
    write_cfg(cfg)
    total = bad_total = 0
    kinds = {}
    for f in rj["files"]:
        name = "rows_" + os.path.basename(f).split(".")[0].split("_")[-1]
        res = tlc(ctx, "FormatRows", cfg, workers=1, env={"ROWS": f}, name=name, heap="-Xmx8g", timeout=3000)
        tlc_must_pass(ctx, res, name)
        m = re.search(r'<<\s*"ROWS",\s*(\d+),\s*"BAD",\s*(\d+),\s*(\{.*?\}),\s*(.*)>>', res.out, re.S)
        if not m:
            raise ToolError("row validation printed nothing for %s:\n%s" % (f, res.out[-1500:]))
        n, bad = int(m.group(1)), int(m.group(2))
        total += n
        bad_total += bad
        kinds[name] = {"rows": n, "bad": bad, "kinds": re.sub(r"\s+", " ", m.group(3))}
        ctx.states += max(res.distinct, 1)
        ctx.transitions += max(res.generated, 1)
        if bad:
            first = re.sub(r"\s+", " ", m.group(4))[:700]
            ctx.violation("%d of %d dumped rows in %s differ from the specification, first: %s" % (bad, n, name, first), {"rows_file": f, "first": first}, tag=name)
    ctx.evaluations += total
    ctx.distinct += total
    ctx.traces += total
    ctx.cov["row_validation"] = {"rows": total, "bad": bad_total, "per_file": kinds, "dumped": rj["rows"]}
    if total < 10000 or len(rj["rows"]) < 12:
        raise ToolError("vacuous row dump: %s" % rj["rows"])
    with open(rj["files"][0]) as f:
        ctx.add_samples([json.loads(f.readline())], 1)
    with open(rj["files"][3]) as f:
        ctx.add_samples([json.loads(f.readline())], 1)
    ctx.assumptions += ["quick tier: literal / match lengths and sequence counts are strided (every 5th value plus all range boundaries); thorough: every value",
                        "offset values: all code boundaries and random values; all 2^24 block headers as per-class summaries",
                        "the reserved frame-descriptor bit is not constrained (the decoder ignores it)"]
    return ctx.finish("model_checking")
