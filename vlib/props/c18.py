"""C18 -- behaviour is the same with and without the std I/O layer and the hash feature.

IoLayer.tla specifies read_exact, take + read and write_all over scripted readers / writers (short reads, Ok(0),
Interrupted, WouldBlock, other errors) and the byte-slice reader / writer (every buffer size incl. one byte at the end); TLC enumerates all scripts of up to 3 answers x buffer sizes x limits with the
specified outcome.  A second harness crate is built four times against /repo's current tree (std / no_std x hash / no hash);
every IoLayer case is replayed against `ruzstd::io` of each build and must match the one specification.  A common
program set (decode every model frame through decode_all, decode_blocks + collect_to_writer, the streaming reader;
compress inputs of every content class at both levels with a fresh compressor, and with ONE compressor reused over all
inputs -- each twice in a row, then a pass with mixed levels) is executed by all four binaries; the records are compared in
lock step under the refinement mapping Features: identical decoded bytes / success everywhere, identical frames for the
two hash builds and for the two no-hash builds, and no-hash frame = hash frame with the checksum flag cleared and the last
four bytes dropped.
"""
import json, os, random
from ..common import *
from .. import fdlib

COMBOS = [("std_hash", "std,hash"), ("nostd_hash", "hash"), ("std_nohash", "std"), ("nostd_nohash", "")]


def build_variant(name, feats):
    d = os.path.join(ROOT, "harness_f")
    if not os.path.exists(os.path.join(d, "Cargo.lock")):
        shutil.copy(os.path.join(REPO, "Cargo.lock"), os.path.join(d, "Cargo.lock"))
    td = "target_" + name
    r = run(["cargo", "build", "--release", "--offline", "--quiet", "--target-dir", td, "--features", feats], cwd=d, env={"CARGO_NET_OFFLINE": "true"}, timeout=1800, check=False)
    if r.returncode != 0:
        raise ToolError("feature build %s failed:\n%s" % (name, (r.stdout or "")[-3000:]))
    return os.path.join(d, td, "release", "hf")


def hf(ctx, name, binary, args, timeout):
    """Run the feature-build executor; a build in which it dies (panic = exit 101, abort, signal) while running the code under
    test behaves differently from the others -- on the unchanged tree no build ever dies."""
    r = run([binary] + args, timeout=timeout, check=False)
    if r.returncode < 0 or r.returncode in (101, 134, 137, 139):
        tail = (r.stdout or "")[-500:].replace("\n", " | ")
        ctx.violation("build %s: the process running `hf %s` died (exit status %d: panic, abort or invalid memory access in the code under test); "
                      "last output: %s" % (name, args[0], r.returncode, tail), {"build": name, "command": args, "exit_status": r.returncode}, tag="crash")
        raise ToolError("executor died (%d) in build %s: hf %s" % (r.returncode, name, args[0]))
    if r.returncode != 0:
        raise ToolError("command failed (%d): hf %s (%s)\n%s" % (r.returncode, args[0], name, (r.stdout or "")[-3000:]))
    return r


def check(ctx):
    build_harness()
    q = ctx.quick
    bins = {}
    for name, feats in COMBOS:
        bins[name] = build_variant(name, feats)
        r = run([bins[name], "features"], timeout=60)
        want = "std=%s hash=%s" % ("true" if "std" in feats.split(",") else "false", "true" if "hash" in feats.split(",") else "false")
        if want not in r.stdout:
            raise ToolError("feature build %s reports %s" % (name, r.stdout))
    # ---- IoLayer ----
    mod = ctx.path("MC_IoLayer.tla")
    with open(mod, "w") as f:
        f.write("---- MODULE MC_IoLayer ----\nEXTENDS IoLayer\n====\n")
    cfg = ctx.path("MC_IoLayer.cfg")
    write_cfg(cfg, constants={"MaxScript": 3 if q else 4, "MaxBuf": 4})
    res = tlc(ctx, mod, cfg, workers=1, name="MC_IoLayer", heap="-Xmx8g", timeout=3000)
    tlc_must_pass(ctx, res, "IoLayer")
    cases_p = ctx.path("io_cases.ndjson")
    cases = read_ndjson(cases_p)
    ctx.states += len(cases)
    ctx.transitions += max(res.generated, 1)
    io_bad = 0
    for name, _ in COMBOS:
        out = ctx.path("io_%s.ndjson" % name)
        hf(ctx, name, bins[name], ["io", cases_p, out], 600)
        got = read_ndjson(out)
        if len(got) != len(cases):
            raise ToolError("io run of %s returned %d records for %d cases" % (name, len(got), len(cases)))
        for c, g in zip(cases, got):
            e = c["expect"]
            keys = [k for k in e.keys()]
            if any(g.get(k) != e[k] for k in keys) or (c["op"] in ("write_all", "slice_read") and not g.get("prefix", True)):
                io_bad += 1
                if io_bad <= 5:
                    ctx.violation("build %s: %s(n=%s, script=%s, limit=%s) behaves %s, specified %s" % (name, c["op"], c["n"], c["script"], c["limit"], json.dumps(g), json.dumps(e)),
                                  {"build": name, "case": c, "observed": g}, tag="io")
    ctx.cov["io_layer"] = {"cases": len(cases), "builds": [n for n, _ in COMBOS], "mismatches": io_bad}
    ctx.evaluations += 4 * len(cases)
    ctx.add_samples([cases[len(cases) // 2]], 1)
    # ---- common program set ----
    fp, frames = fdlib.make_frames(ctx, "quick")
    rnd = random.Random(ctx.seed + 18)
    inputs = []
    specs = [("empty", 0), ("one", 1), ("tiny", 5), ("text", 3000), ("runs", 70000), ("random", 5000), ("skew1", 4000), ("skew2", 4000), ("skew3", 40000), ("block", 131072), ("block_plus", 131073), ("two_blocks", 262144 if not q else 140000)]
    for nm, ln in specs:
        if nm == "text":
            words = [bytes(rnd.randrange(97, 123) for _ in range(rnd.randrange(2, 8))) for _ in range(30)]
            data = b" ".join(rnd.choice(words) for _ in range(ln))[:ln]
        elif nm.startswith("skew"):
            # skewed histogram without matches: Huffman-coded literals, and a table the next frame could (wrongly) inherit
            data = bytes(int(rnd.random() ** 3 * 60) for _ in range(ln))
        elif nm == "runs":
            data = b"".join(bytes([rnd.randrange(4)]) * rnd.randrange(1, 900) for _ in range(400))[:ln]
        elif nm in ("block", "block_plus", "two_blocks"):
            base = bytes(rnd.randrange(256) for _ in range(997))
            data = (base * (ln // 997 + 1))[:ln]
        else:
            data = bytes(rnd.randrange(256) for _ in range(ln))
        inputs.append({"name": nm, "hex": data.hex()})
    ip = ctx.path("inputs.json")
    json.dump({"inputs": inputs}, open(ip, "w"))
    recs = {}
    for name, _ in COMBOS:
        out = ctx.path("progs_%s.ndjson" % name)
        hf(ctx, name, bins[name], ["progs", fp, ip, out], 1200)
        recs[name] = read_ndjson(out)
    base = recs["std_hash"]
    n_cmp = 0
    bad = 0
    for name in ("nostd_hash", "std_nohash", "nostd_nohash"):
        other = recs[name]
        if len(other) != len(base):
            raise ToolError("%s produced %d records, std_hash %d" % (name, len(other), len(base)))
        hash_on = name.endswith("_hash") and not name.endswith("nohash")
        for a, b in zip(base, other):
            n_cmp += 1
            why = None
            if a["kind"] == "decode":
                for k in ("decode_all", "blocks", "stream"):
                    if a[k]["ok"] != b[k]["ok"] or a[k]["out"] != b[k]["out"]:
                        why = "%s of frame %s differs: ok %s/%s, %d/%d bytes" % (k, a["name"], a[k]["ok"], b[k]["ok"], len(a[k]["out"]) // 2, len(b[k]["out"]) // 2)
                if a["blocks"].get("consumed") != b["blocks"].get("consumed") or a["blocks"].get("stored_checksum") != b["blocks"].get("stored_checksum"):
                    why = why or "consumed / stored checksum of frame %s differ" % a["name"]
                if hash_on and a.get("calculated_checksum") != b.get("calculated_checksum"):
                    why = why or "calculated checksum of frame %s differs" % a["name"]
            else:
                fa, fb = bytes.fromhex(a["frame"]), bytes.fromhex(b["frame"])
                if a.get("roundtrip", True) != b.get("roundtrip", True):
                    why = "frame for input %s (%s) decodes back to the input in one build only (%s / %s)" % (a["name"], a["level"], a.get("roundtrip"), b.get("roundtrip"))
                if hash_on:
                    if fa != fb:
                        why = why or "frames for input %s (%s) differ between std and no_std" % (a["name"], a["level"])
                else:
                    # Features refinement mapping: clear descriptor bit 2, drop the trailer
                    mapped = bytearray(fa[:-4])
                    mapped[4] &= ~0x04 & 0xFF
                    if bytes(mapped) != fb:
                        why = why or "no-hash frame for input %s (%s) is not the hash frame minus checksum flag and trailer" % (a["name"], a["level"])
            if why:
                bad += 1
                if bad <= 6:
                    ctx.violation("build %s vs std_hash: %s" % (name, why), {"build": name, "std_hash": a, "other": b}, tag="feat")
    ctx.cov["feature_matrix"] = {"records_per_build": len(base), "comparisons": n_cmp, "mismatches": bad, "frames": len(frames), "inputs": [i["name"] for i in inputs]}
    ctx.evaluations += n_cmp
    ctx.distinct += n_cmp + len(cases)
    ctx.traces += n_cmp + 4 * len(cases)
    ctx.assumptions += ["program set: the model frame set and one input per content class; the I/O layer itself is exhaustive up to the script / buffer bounds"]
    return ctx.finish("model_checking")
