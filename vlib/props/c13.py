"""C13 -- Huffman tables are valid and literal coding round-trips for every distribution.

Huffman.tla is RFC 8878 4.2 (weights -> code lengths -> canonical codes, direct description, completeness, stream
decoding).  Decoder side: HufCases.tla enumerates ALL explicit weight vectors up to a bound, classifies them (valid /
incomplete or too deep / complete but not minimal), proves the specification's theorems for the valid ones and writes
description, literals that use every symbol and the bit stream; the harness wraps each into a frame and the real decoder
must decode valid ones to exactly those literals and refuse incomplete ones (libzstd validates the specification).
Encoder side: for alphabet sizes 2..256 x rank orders x placements of unused symbols the real encoder's code lengths
and code values, the description it writes (direct or FSE compressed) and 1- and 4-stream encodings are judged by
HufRows.Ok (complete prefix code of depth <= 11, canonical values, description parses to the same weights, FSE-compressed
descriptions shorter than 128 bytes, streams decode by the specification to the same literals consuming all bits);
literals of boundary lengths go through the compressor's literals writer and both real decoders.
"""
import json, os
from ..common import *
from .c12 import rows_run


def check(ctx):
    build_harness()
    q = ctx.quick
    mod = ctx.path("MC_HufCases.tla")
    with open(mod, "w") as f:
        f.write("---- MODULE MC_HufCases ----\nEXTENDS HufCases\n====\n")
    cfg = ctx.path("MC_HufCases.cfg")
    write_cfg(cfg, constants={"MaxLen": 4 if q else 5, "MaxW": 4})
    res = tlc(ctx, mod, cfg, workers=1, name="MC_HufCases", heap="-Xmx8g", timeout=3000)
    tlc_must_pass(ctx, res, "HufCases")
    cases = ctx.path("huf_cases.ndjson")
    if not os.path.exists(cases):
        raise ToolError("HufCases wrote nothing")
    rep = ctx.path("c13dec.json")
    vh(ctx, ["c13dec", cases, rep])
    dj = json.load(open(rep))
    if dj["spec_vs_libzstd"]:
        raise ToolError("the Huffman specification disagrees with libzstd on %d vectors: %s" % (dj["spec_vs_libzstd"], dj["spec_vs_libzstd_examples"]))
    ctx.states += dj["cases"]
    ctx.transitions += max(res.generated, 1)
    ctx.cov["decoder_weight_vectors"] = {k: dj[k] for k in ("cases", "valid", "incomplete", "complete_not_minimal", "mismatches")}
    for m in dj["first"]:
        ctx.violation("Huffman decoder, weights %s: %s" % (m["weights"], m["error"]), m, tag="dec")
    ctx.add_samples(dj["samples"][:1], 1)
    if dj["valid"] < 50 or dj["incomplete"] < 50:
        raise ToolError("vacuous weight vector enumeration")
    rows = ctx.path("huf_rows.ndjson")
    rep = ctx.path("c13enc.json")
    vh(ctx, ["c13enc", ctx.seed, ctx.tier, rows, rep])
    ej = json.load(open(rep))
    for p in ej["panics"]:
        ctx.violation("Huffman encoder panics for %d symbols (variant %d): %s" % (p["n"], p["variant"], p["panic"]), p, tag="encpanic")
    for p in ej["roundtrip_failures"]:
        ctx.violation("literals of length %d over %d symbols: %s" % (p["len"], p["alphabet"], p["error"]), p, tag="roundtrip")
    n, bad, first = rows_run(ctx, "HufRows", rows, "HufRows")
    ctx.cov["encoder_rows"] = {"rows": n, "bad": bad, "kinds": ej["rows"], "histograms": ej["histograms"], "literal_roundtrips": ej["roundtrips"]}
    if bad:
        ctx.violation("%d of %d Huffman encoder rows differ from the specification, first: %s" % (bad, n, first), {"rows": rows, "first": first}, tag="encrows")
    if n < 100:
        raise ToolError("vacuous Huffman encoder rows")
    # ---- decoder side, FSE-compressed descriptions from the independent encoder, up to the 127-byte boundary ----
    frows = ctx.path("huf_fse_rows.ndjson")
    frep = ctx.path("c13fse.json")
    vh(ctx, ["c13fse", ctx.seed, ctx.tier, frows, frep])
    fj = json.load(open(frep))
    if fj["spec_vs_libzstd"]:
        raise ToolError("the independent FSE weight encoder disagrees with libzstd: %s" % fj["spec_vs_libzstd_examples"][:2])
    for m in fj["first"]:
        ctx.violation("FSE-compressed weights (%s symbols, description of %s bytes): %s" % (m["symbols"], m["description_bytes"], m["error"]), m, tag="fsedesc")
    fn, fbad, ffirst = rows_run(ctx, "HufRows", frows, "HufFseRows")
    if fbad:
        raise ToolError("the harness generated %d FSE-compressed descriptions that the specification reads differently: %s" % (fbad, ffirst))
    ctx.cov["fse_compressed_descriptions"] = {k: fj[k] for k in ("tried", "cases", "mismatches", "descriptions_of_124_to_127_bytes", "with_127_bytes", "found_by_search")}
    ctx.cov["fse_compressed_descriptions"]["confirmed_by_specification"] = fn
    if fj["cases"] < 100 or fj["with_127_bytes"] < 1:
        raise ToolError("vacuous FSE-compressed description cases: %s" % ctx.cov["fse_compressed_descriptions"])
    n += fn
    ctx.evaluations += dj["cases"] + n + ej["roundtrips"]
    ctx.distinct += dj["cases"] + n
    ctx.traces += dj["cases"] + n
    ctx.assumptions += ["decoder: all explicit weight vectors up to 4 (5) entries over weights 0..4; longer ones through the encoder rows and real frames (C01); FSE-compressed descriptions from an independent encoder over alphabets of 3..256 symbols up to the largest expressible size (127 bytes)",
                        "complete-but-not-minimal descriptions are unconstrained (RFC silent, libzstd refuses them)"]
    return ctx.finish("model_checking")
