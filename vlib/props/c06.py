"""C06 -- the decoded stream is independent of how the caller drives the decoder.

FrameDecoder.tla is explored exhaustively over a set of materialised frames and an operation menu (decode_blocks with
every strategy, collect, read, collect_to_writer with scripted sinks, decode_from_to with offers/targets, streaming
read); every transition of the graph is replayed on the real FrameDecoder / StreamingDecoder (twice: slice source and
fragmenting reader; plain and streaming front end) and every return value and accessor is compared after every call.
Random legal schedules over real frames (decodecorpus, libzstd, ruzstd output) extend this to real sizes: with the original
bytes as oracle, and -- recorded call by call with the decoder's observable state -- validated by TLC against
Trace_FrameDecoder.tla (every call must be the specified action with the specified results; Order, Retain, ConsumedOK,
NoFinishOnPrefix, FinishedContent hold in every state; reused decoders, truncated sources, all three front ends).
"""
from ..common import *
from .. import fdlib


def check(ctx):
    build_harness()
    q = ctx.quick
    params = dict(ReadSizes=[0, 1, 100, 1024, 5000], ByteBudgets=[0, 1025], BlockBudgets=[1, 2, 3],
                  Offers=[0, 2, 3, 5, 6, 10, 12, 4000], Targets=[0, 1, 5000], Scripts=fdlib.SCRIPTS_Q,
                  SReadSizes=[0, 1, 1000, 5000], MaxSteps=4 if q else 6,
                  _expect_ops=["Reset", "Decode", "Collect", "Read", "CollectTo", "FromTo", "SRead"])
    if not q:
        params.update(ReadSizes=[0, 1, 100, 1023, 1024, 1025, 5000], ByteBudgets=[0, 1, 1024, 1025], BlockBudgets=[0, 1, 2, 3],
                      Scripts=fdlib.SCRIPTS_T, Targets=[0, 1, 1024, 5000], SReadSizes=[0, 1, 1000, 1025, 5000])
    fdlib.run_config(ctx, "MC_FD_schedules", "quick", params, what="all schedules up to MaxSteps calls per frame, untruncated sources",
                     select=(lambda f: f["valid"]) if q else None)
    idx = fdlib.corpus(ctx)
    fdlib.random_schedules(ctx, 25 if q else 250, idx)
    # the same kind of schedules recorded call by call and validated against the specification (properties as invariants)
    fdlib.trace_real_frames(ctx, 4 if q else 40, idx, salt=6)
    ctx.assumptions += ["frame contents are sampled; the schedule space is exhaustive up to MaxSteps calls per frame over the listed menus",
                        "the frame serializer is trusted only where libzstd decodes its frames to the same content (checked at build time)"]
    return ctx.finish("model_checking")
