"""C17 -- the built-in match finder reports only true, in-window matches that tile the block.

Matcher.tla, part 1: the window bookkeeping of the driver (entries, eviction while the new block does not fit, the
base-offset update, reset with recycling) explored exhaustively -- the window never exceeds its advertised size and the
base offset of every entry is the number of bytes committed after it; with the off-by-one variant (Dev_BaseOff) TLC must
find the violation (non-vacuity).  Part 2, the contract SeqsOk.  Conformance: the real MatchGeneratorDriver (hook H6:
arbitrary slice size and slices per window) is driven over ALL binary strings for a set of block-length tuples (and
ternary strings for shorter ones), 1..3 slices per window, each block matched or skipped, with reset-and-reuse before the
run; every run that reports a match (and a sample of the others) is a row judged by MatcherRows.Ok against the data
Matcher!Evict says is still retained.  Full-size seeded runs (4 KiB..128 KiB slices) are checked with the same rule in place.
"""
import json, re
from ..common import *
from .c12 import rows_run


def check(ctx):
    build_harness()
    q = ctx.quick
    consts = {"MaxWindow": 8, "Lens": "{1, 2, 3, 4}", "MaxCommits": 5 if q else 6, "Dev_BaseOff": "FALSE"}
    invs = ["WindowBounded", "BaseIsDistance", "CurrentRetained"]
    cfg = ctx.path("MC_Matcher.cfg")
    write_cfg(cfg, constants=consts, invariants=invs)
    res = tlc(ctx, "Matcher", cfg, workers=4, name="MC_Matcher")
    tlc_must_pass(ctx, res, "Matcher window model")
    cfg2 = ctx.path("MC_Matcher_dev.cfg")
    write_cfg(cfg2, constants=dict(consts, Dev_BaseOff="TRUE"), invariants=invs)
    r2 = tlc(ctx, "Matcher", cfg2, workers=4, name="MC_Matcher_dev")
    if r2.inv_violated != "BaseIsDistance":
        raise ToolError("self-test failed: the off-by-one base offset variant does not violate BaseIsDistance")
    ctx.states += res.distinct
    ctx.transitions += res.generated
    ctx.cov["window_model"] = {"constants": consts, "distinct_states": res.distinct, "transitions": res.generated,
                               "selftest": "BaseIsDistance violated by the off-by-one variant after %d states" % r2.distinct}
    rows = ctx.path("matcher_rows.ndjson")
    rep = ctx.path("c17rows.json")
    vh(ctx, ["c17rows", ctx.seed, ctx.tier, rows, rep], timeout=7200)
    rj = json.load(open(rep))
    for p in rj["panic_examples"]:
        ctx.violation("the match finder panics: %s" % json.dumps(p)[:600], p, tag="panic")
    for f in rj["full_size_failures"][:10]:
        ctx.violation("full-size run %s (%s, slice %s x %s): %s" % (f["run"], f["class"], f["slice"], f["slices"], f["error"]), f, tag="full")
    n, bad, first = rows_run(ctx, "MatcherRows", rows, "MatcherRows")
    ctx.cov["matcher_rows"] = {"runs": rj["runs"], "runs_with_match": rj["runs_with_match"], "rows_checked": n, "bad": bad, "full_size_runs": rj["full_size_runs"]}
    dm = re.search(r'<<\s*"DRIFT",\s*(\d+)\s*>>', ctx.last_rows_out)
    drift = int(dm.group(1)) if dm else -1
    ctx.cov["matcher_rows"]["drifted_rows"] = drift
    if drift:
        ctx.notes.append("drift (not a violation): %d runs report true in-window matches into data the as-built eviction model no longer retains, "
                         "or advertise a different window than slices * slice" % drift)
    if bad:
        ctx.violation("%d of %d match finder runs report a sequence that is not an enabled step of the specification, first: %s" % (bad, n, first),
                      {"rows": rows, "first": first}, tag="rows")
    if n < 2000 or rj["runs_with_match"] < 1000:
        raise ToolError("vacuous matcher rows")
    ctx.evaluations += rj["runs"]
    ctx.distinct += n
    ctx.traces += n
    ctx.add_samples(rj["samples"][:1], 1)
    ctx.assumptions += ["exhaustive over binary strings of the listed block-length tuples with slices of 5..8 bytes; full-size behaviour is sampled"]
    return ctx.finish("model_checking")
