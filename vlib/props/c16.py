"""C16 -- compression is correct for every well-behaved user-supplied matcher.

ParseClasses.tla enumerates the classes of valid parses the block encoder distinguishes (sequence-count form and its
boundaries 127/128, 32511/32512, the maximum of one sequence per 3 bytes; the shape of the literal-length, match-length
and offset code sets that feed the FSE table builder: only code 0 / a single code / two / many; literals raw or Huffman
over one, two or many symbols; and code histograms "k codes used c times each, plus one used once" for which the
specification computes the accuracy log the table builder picks, reaching the clamp of every field); chains of three
dependent blocks (literals only / kept with a far match / stored raw after its tables were built, over two alphabets:
new, treeless and discarded Huffman tables in every order); the harness materialises each class as a concrete valid parse -- the block's bytes are
synthesised from the plan, so every match is true by construction -- and drives the real compressor through the public
Matcher trait.  ALL valid parses (match length >= 3, any offset incl. overlapping) of all binary blocks of 3..7 bytes
after histories of 0 / 3 / 5 bytes are run as well, and a sample of them is judged by TLC with Matcher!SeqsOk (minimum
match 3) to confirm that the generated parses are valid ones; seeded random valid parses of full blocks.  Outcome for
every parse: no panic, and the frame decodes to the input with ruzstd and with libzstd.
"""
import json, os
from ..common import *
from .c12 import rows_run


def check(ctx):
    build_harness()
    q = ctx.quick
    mod = ctx.path("MC_ParseClasses.tla")
    with open(mod, "w") as f:
        f.write("---- MODULE MC_ParseClasses ----\nEXTENDS ParseClasses\n====\n")
    cfg = ctx.path("MC_ParseClasses.cfg")
    write_cfg(cfg)
    res = tlc(ctx, mod, cfg, workers=1, name="MC_ParseClasses")
    tlc_must_pass(ctx, res, "ParseClasses")
    classes = ctx.path("parse_classes.ndjson")
    if not os.path.exists(classes):
        raise ToolError("ParseClasses wrote nothing")
    rep = ctx.path("c16classes.json")
    vh(ctx, ["c16classes", ctx.seed, classes, rep], timeout=7200)
    cj = json.load(open(rep))
    ctx.states += cj["classes_run"] + cj["skipped_infeasible"]
    ctx.transitions += max(res.generated, 1)
    ctx.cov["parse_classes"] = {k: cj[k] for k in ("classes_run", "skipped_infeasible", "mismatches")}
    for m in cj["first"]:
        ctx.violation("valid parse of class %s (block of %d bytes, first sequences %s): %s" % (json.dumps(m["class"]), m["block_len"], m["first_sequences"], m["error"]), m, tag="class")
    ctx.add_samples(cj["samples"][:1], 1)
    if cj["classes_run"] < 100:
        raise ToolError("vacuous parse classes")
    # code histograms that drive the FSE table builder into every accuracy-log regime (incl. the clamps)
    from .c12 import hist_classes
    hist_classes(ctx)
    # chains of three dependent blocks (what the encoder remembers about Huffman tables vs what a decoder holds)
    rep = ctx.path("c16chains.json")
    vh(ctx, ["c16chains", ctx.seed, ctx.tier, rep], timeout=7200)
    hj = json.load(open(rep))
    ctx.evaluations += hj["chains_run"]
    ctx.distinct += hj["chains_run"]
    ctx.cov["block_chains"] = {k: hj[k] for k in ("chains_run", "mismatches", "block_kinds_of_chain_blocks")}
    for m in hj["first"]:
        ctx.violation("chain of blocks %s through a user matcher: %s" % (m["chain"], m["error"]), m, tag="chain")
    kinds = hj["block_kinds_of_chain_blocks"]
    if hj["chains_run"] < 100 or not kinds.get("type0_lit-1") or not kinds.get("type2_lit3") or not kinds.get("type2_lit2"):
        raise ToolError("vacuous block chains: %s" % kinds)
    rows = ctx.path("tiny_parse_rows.ndjson")
    rep = ctx.path("c16tiny.json")
    vh(ctx, ["c16tiny", ctx.seed, ctx.tier, rows, rep], timeout=7200)
    tj = json.load(open(rep))
    ctx.cov["tiny_and_large_parses"] = {k: tj[k] for k in ("tiny_parses", "large_parses", "mismatches")}
    for m in tj["first"][:10]:
        ctx.violation("%d valid parses fail (%s), e.g. %s" % (m["count"], m["signature"], json.dumps(m["example"])[:700]), m, tag="tiny")
    n, bad, first = rows_run(ctx, "MatcherRows", rows, "ValidParseRows")
    ctx.cov["tiny_and_large_parses"]["parses_confirmed_valid_by_TLC"] = n
    if bad:
        raise ToolError("the harness generated %d parses that the specification does not call valid: %s" % (bad, first))
    ctx.evaluations += cj["classes_run"] + tj["tiny_parses"] + tj["large_parses"]
    ctx.distinct += cj["classes_run"] + tj["tiny_parses"]
    ctx.traces += n
    ctx.assumptions += ["exhaustive over the abstract parse classes and over all parses of binary blocks up to 7 bytes; large parses are sampled",
                        "quick tier runs every 4th tiny parse"]
    return ctx.finish("model_checking")
