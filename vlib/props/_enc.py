"""C02 / C15 / C08 (encoder side) share one pipeline; each check reports under its own property id and emphasises its part.

 C02  compress then decompress returns the input (ruzstd and libzstd), any length, reused compressor, any read fragmentation
 C15  the frame is structurally valid (independent walker + strict offset rule on the decoder's sequence events) and never
      larger than raw framing
 C08  the trailer is XXH64(input) for every frame of a reused compressor; decoder side: checksums over exactly the delivered bytes

Pipeline: FrameCompressor.tla explored exhaustively (Sync / BeliefSound / OneLast / Structure / FreshFrame); every transition
of its graph becomes an input program (content class per block, level, fragmentation, 1..2 frames on one compressor)
materialised and run on the real compressor; every emitted frame is checked; the recorded block decisions are validated
against Trace_FrameCompressor.  Seeded random input programs over boundary lengths extend this to real sizes.
"""
import json
from ..common import *
from .. import enclib, fdlib


def check(ctx, pid):
    build_harness()
    q = ctx.quick
    enclib.model_and_replay(ctx, stride=(3 if q else 1), max_blocks=2 if q else 3)
    enclib.random_inputs(ctx, 150 if q else 2500)
    if pid in ("C15", "C02"):
        # the built-in match finder at other geometries (windows that are not powers of two, matches just inside the window)
        rep = ctx.path("encgeom.json")
        vh(ctx, ["encgeom", ctx.seed, ctx.tier, rep], timeout=7200)
        gj = json.load(open(rep))
        ctx.evaluations += gj["frames"]
        ctx.cov["other_matcher_geometries"] = {k: gj[k] for k in ("frames", "mismatches", "frames_with_offsets_above_7_8_of_the_window", "matcher_window_and_declared_window")}
        enclib._drift_note(ctx, gj, "matcher geometries")
        enclib._report(ctx, gj, "geom")
        if gj["frames_with_offsets_above_7_8_of_the_window"] < gj["frames"] // 3:
            ctx.notes.append("few matches near the window in the geometry runs (%d of %d frames): the offset-vs-window check had little to look at"
                             % (gj["frames_with_offsets_above_7_8_of_the_window"], gj["frames"]))
    if pid in ("C15", "C02"):
        # the code-histogram classes of ParseClasses.tla, planted in the data and found by the BUILT-IN match finder: the
        # table builder reaches its accuracy-log clamps (per field) from compress_to_vec as well
        from .c12 import hist_classes_file
        hc, res = hist_classes_file(ctx)
        rep = ctx.path("seqhist_builtin.json")
        vh(ctx, ["seqhist", ctx.seed, hc, ctx.path("unused_rows.ndjson"), rep, ctx.tier, "builtin"], timeout=7200)
        hj = json.load(open(rep))
        ctx.states += hj["classes_run"]
        ctx.evaluations += hj["classes_run"]
        ctx.cov["code_histogram_classes_builtin_matcher"] = {k: hj[k] for k in ("classes_run", "skipped_infeasible", "mismatches", "fse_tables_written", "block_not_compressed")}
        if pid == "C02":
            for m in hj["first"]:
                ctx.violation("data with planted matches of code histogram %s (block of %d bytes): %s" % (json.dumps(m["class"]), m["block_len"], m["error"]), m, tag="histb")
        else:
            for m in hj["first"]:
                lz = m["error"].split("libzstd ", 1)[-1]
                if "libzstd " in m["error"] and not lz.startswith(("ok", "wrong bytes")):
                    ctx.violation("data with planted matches of code histogram %s (block of %d bytes): the reference decoder rejects the frame: %s"
                                  % (json.dumps(m["class"]), m["block_len"], m["error"]), m, tag="histb")
        if hj["classes_run"] < 300 or hj["fse_tables_written"] < 300:
            raise ToolError("vacuous built-in histogram classes %s" % ctx.cov["code_histogram_classes_builtin_matcher"])
    if pid == "C08":
        # decoder side: drains through every path in wrapped and unwrapped ring states, checksums compared with an independent XXH64
        params = dict(ReadSizes=[1, 1023, 5000], ByteBudgets=[1025], BlockBudgets=[1], Offers=[4000], Targets=[1, 5000],
                      Scripts=fdlib.SCRIPTS_T if not q else fdlib.SCRIPTS_Q, SReadSizes=[1000], MaxSteps=5 if q else 7,
                      _expect_ops=["Decode", "Collect", "Read", "CollectTo", "FromTo", "SRead"])
        fdlib.run_config(ctx, "MC_FD_drains", "quick", params, what="all five drain paths on checksummed frames",
                         select=lambda f: f["cks"] and f["valid"])
        fdlib.random_schedules(ctx, 10 if q else 100)
    ctx.assumptions += ["inputs are sampled per content class; the abstract decision graph of the frame loop is exhaustive",
                        "libzstd 1.5.7 is the reference decoder", "regenerated block sizes and match offsets are read from the decoder's events "
                        "(hook H3); the decoder's output is independently confirmed by libzstd"]
    return ctx.finish("model_checking")
