"""C20 -- the dictionary builder terminates without panic and respects the requested size.

DictBuilder.tla is the control flow and size arithmetic of create_raw_dict_from_source over (true length, estimate,
requested size): the tiny-source shortcut, segment size, sample size, the reservoir, one pooled segment per read of up to
100 bytes, the cut of the pool to the requested size.  TLC proves on a 14^3 grid (sizes below one k-mer / one segment,
around 100 and 2048, estimates that differ from the true length in both directions) that every step is applied inside its
precondition (no zero divisor, no epoch on an empty sample) and that the output bound is <= requested.  The real builder
is run on the same grid x source kinds (seeded RNG, watchdog); every run is a row judged by TLC: no panic, finished,
length <= requested and <= the structural upper bound of the specification.  Estimates beyond 32 bits are run against the
documented promise only.
"""
import json, re
from ..common import *
from .c12 import rows_run


def check(ctx):
    build_harness()
    rows = ctx.path("dict_rows.ndjson")
    rep = ctx.path("c20exec.json")
    r = vh(ctx, ["c20exec", ctx.seed, ctx.tier, rows, rep], timeout=7200, check=False)
    if r.returncode == 3:
        m = re.search(r'\{"hang": "(.*?)"', r.stdout or "")
        ctx.violation("the dictionary builder does not terminate within 60 s for %s" % (m.group(1) if m else "?"), {"case": m.group(1) if m else None}, tag="hang")
        return ctx.finish("model_checking")
    if r.returncode != 0:
        raise ToolError("c20exec failed: " + (r.stdout or "")[-1500:])
    rj = json.load(open(rep))
    for b in rj["first"]:
        ctx.violation("create_raw_dict_from_source panics for true length %d, estimate %d, requested %d (%s source): %s" % (b["T"], b["E"], b["D"], b["source"], b["panic"]), b, tag="panic")
    for s in rj["specials"]:
        if not s["ok"]:
            ctx.violation("estimate %d (true length %d, requested %d): %s" % (s["E"], s["T"], s["D"], "panic: " + s["message"] if s["panic"] else "%d bytes written" % s["len"]), s, tag="big")
    n, bad, first = rows_run(ctx, "DictBuilder", rows, "DictBuilderRows")
    ctx.cov["grid"] = {"runs": rj["runs"], "rows_checked": n, "bad": bad, "panics": rj["panics"], "estimates_beyond_32_bits": len(rj["specials"])}
    if bad and not rj["first"]:
        ctx.violation("%d of %d runs of the dictionary builder break the specification, first: %s" % (bad, n, first), {"rows": rows, "first": first}, tag="rows")
    elif bad:
        ctx.notes.append("%d rows fail (panics are reported individually)" % bad)
    if n < 1000:
        raise ToolError("vacuous dictionary builder grid")
    ctx.states += 14 ** 3
    ctx.evaluations += rj["runs"]
    ctx.distinct += n
    ctx.traces += n
    ctx.add_samples([{"T": 100000, "E": 100000, "D": 1024}], 1)
    ctx.assumptions += ["the data decides only which segment wins an epoch; three source kinds per grid point", "termination: watchdog of 60 s per run plus the finite structure shown by the specification"]
    return ctx.finish("model_checking")
