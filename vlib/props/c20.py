"""C20 -- the dictionary builder terminates without panic and respects the requested size.

DictBuilder.tla is the control flow and size arithmetic of create_raw_dict_from_source over (true length, estimate,
requested size): the tiny-source shortcut, segment size, sample size, the reservoir, one pooled segment per read of up to
100 bytes, the cut of the pool to the requested size.  TLC proves on a 14^3 grid (sizes below one k-mer / one segment,
around 100 and 2048, estimates that differ from the true length in both directions) that every step is applied inside its
precondition (no zero divisor, no epoch on an empty sample) and that the output bound is <= requested.  The real builder
is run on the same grid x source kinds (seeded RNG, watchdog); every run is a row judged by TLC: no panic, finished,
length <= requested and <= the structural upper bound of the specification.  Estimates beyond 32 bits are run against the
documented promise only.  ReservoirFill.tla is the sampling loop as a state machine over readers that cut their answers
(scripts of short answers): TLC checks termination as a liveness property (and finds the endless loop in the shrink-only
variant); every (length, script) pair it explored is replayed against the real builder through a scripted reader, and the
grid is also run with readers that answer 1 / 7 / 100 bytes at a time or start with a short answer.
"""
import json, re, os
from ..common import *
from .c12 import rows_run


def check(ctx):
    build_harness()
    q = ctx.quick
    # ---- the sampling loop as a state machine: termination for every source length and every way of cutting the answers ----
    consts = {"Sample": 16, "MaxT": 40 if q else 60, "Chunks": "{1, 7, 10, 16, 17}" if q else "{1, 5, 7, 10, 15, 16, 17, 33}", "MaxScript": 3, "Dev_Truncate": "FALSE"}
    mod = ctx.path("MC_ReservoirFill.tla")
    with open(mod, "w") as f:
        f.write("---- MODULE MC_ReservoirFill ----\nEXTENDS ReservoirFill\n====\n")
    cfg = ctx.path("MC_ReservoirFill.cfg")
    write_cfg(cfg, spec="Spec", constants=consts, invariants=["TypeOK", "Conservation", "SampledAll"], properties=["Terminates"])
    res = tlc(ctx, mod, cfg, workers=4, name="MC_ReservoirFill", timeout=3000)
    tlc_must_pass(ctx, res, "ReservoirFill")
    fill_cases = ctx.path("fill_cases.ndjson")
    kept = ctx.path("fill_cases_kept.ndjson")
    os.replace(fill_cases, kept)
    cfg2 = ctx.path("MC_ReservoirFill_dev.cfg")
    write_cfg(cfg2, spec="Spec", constants=dict(consts, MaxT=20, Dev_Truncate="TRUE"), invariants=["TypeOK"], properties=["Terminates"])
    r2 = tlc(ctx, mod, cfg2, workers=2, name="MC_ReservoirFill_dev", timeout=3000)
    if "Temporal property Terminates was violated" not in r2.out and "Temporal properties were violated" not in r2.out:
        raise ToolError("self-test failed: the shrink-only variant of the sampling loop is not found to loop for ever")
    ctx.states += res.distinct
    ctx.transitions += res.generated
    ctx.cov["reservoir_fill_model"] = {"constants": consts, "distinct_states": res.distinct, "transitions": res.generated,
                                       "liveness": "Terminates holds under WF(Read); violated by the shrink-only variant (self-test)"}
    rows = ctx.path("dict_rows.ndjson")
    rep = ctx.path("c20exec.json")
    r = vh(ctx, ["c20exec", ctx.seed, ctx.tier, rows, rep, kept], timeout=7200, check=False)
    if r.returncode == 3:
        m = re.search(r'\{"hang":\s*"(.*?)"', r.stdout or "")
        ctx.violation("the dictionary builder makes no progress for 30 s (does not terminate) for %s" % (m.group(1) if m else "?"), {"case": m.group(1) if m else None}, tag="hang")
        return ctx.finish("model_checking")
    if r.returncode != 0:
        raise ToolError("c20exec failed: " + (r.stdout or "")[-1500:])
    rj = json.load(open(rep))
    for b in rj["first"]:
        ctx.violation("create_raw_dict_from_source panics for true length %d, estimate %d, requested %d (%s source): %s" % (b["T"], b["E"], b["D"], b["source"], b["panic"]), b, tag="panic")
    for s in rj["specials"]:
        if not s["ok"]:
            ctx.violation("estimate %d (true length %d, requested %d): %s" % (s["E"], s["T"], s["D"], "panic: " + s["message"] if s["panic"] else "%d bytes written" % s["len"]), s, tag="big")
    n, bad, first = rows_run(ctx, "DictBuilder", rows, "DictBuilderRows")
    dm = re.search(r'<<\s*"DRIFT",\s*(\d+)\s*>>', ctx.last_rows_out)
    if dm and int(dm.group(1)):
        ctx.notes.append("drift (not a violation): %s runs stay within the requested size but exceed the bound the as-built structure implies" % dm.group(1))
    ctx.cov["grid"] = {"fill_cases_replayed": rj["fill_cases"], "drifted_rows": int(dm.group(1)) if dm else -1, "runs": rj["runs"], "rows_checked": n, "bad": bad, "panics": rj["panics"], "estimates_beyond_32_bits": len(rj["specials"])}
    if bad and not rj["first"]:
        ctx.violation("%d of %d runs of the dictionary builder break the specification, first: %s" % (bad, n, first), {"rows": rows, "first": first}, tag="rows")
    elif bad:
        ctx.notes.append("%d rows fail (panics are reported individually)" % bad)
    if n < 1000:
        raise ToolError("vacuous dictionary builder grid")
    ctx.states += 14 ** 3
    ctx.evaluations += rj["runs"]
    ctx.distinct += n
    ctx.traces += n
    ctx.add_samples([{"T": 100000, "E": 100000, "D": 1024}], 1)
    ctx.assumptions += ["the data decides only which segment wins an epoch; three source kinds per grid point", "termination: watchdog of 60 s per run plus the finite structure shown by the specification"]
    return ctx.finish("model_checking")
