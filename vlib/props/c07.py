"""C07 -- a reused decoder behaves exactly like a fresh one.

Specification level: in FrameDecoder.tla every per-frame variable is re-initialised by Reset, so the state after Reset(i)
is independent of the history; TLC explores all histories (frame, how far it was driven, how it ended: completed /
abandoned after k blocks / failed at the header, a block header, a block body, the checksum, a missing dictionary,
an invalid block) up to the call bound, over plain, dictionary, probe and "dirty" frames, with Reset enabled in every
state.  Conformance: every transition is replayed on one real decoder; the predictions after a Reset are those of a
fresh decoder by construction, so any leak that is visible in an observable (bytes, checksums, consumed, Ok/Err) is a
mismatch.  Probe frames make the internal state observable: treeless literals / repeat-mode tables without a previous
table / a match before the frame start must fail on every decoder, repeat offsets at frame start must use (1, 4, 8).
The same programs are also run differentially (fddiff): every part that starts with a Reset on a used decoder is repeated
on a fresh decoder and every return value and accessor is compared call by call -- no model prediction involved, so
differences the replay treats as as-built drift (how much a call hands out, what can_collect shows) are violations here
exactly when they distinguish a reused decoder from a fresh one.
Random histories over real frames (completed and abandoned, all front ends) extend this.
"""
import json
from ..common import *
from .. import fdlib


def check(ctx):
    build_harness()
    q = ctx.quick
    params = dict(ReadSizes=[5000], ByteBudgets=[], BlockBudgets=[1, 2], Offers=[4000], Targets=[5000], Scripts=[[]],
                  SReadSizes=[5000], MaxSteps=2 if q else 3, ResetMode="any",
                  _expect_ops=["Reset", "Decode", "Collect", "FromTo"])
    # cut points: the sparse menu in both tiers.  Reset is enabled in every state for every (frame, cut) pair, so the graph has
    # states x frames x cuts edges: with every block boundary as a cut the thorough tier reached 40 million edges (3.6 GB of
    # graph, > 20 GB of programs) once the frame set had grown to 30 frames; depth (MaxSteps 3) is what the thorough tier adds.
    fdlib.run_config(ctx, "MC_FD_histories", "dict", params, cuts="sparse",
                     what="all histories up to MaxSteps calls per frame; a new frame may start in every state; truncated sources end frames in failures")
    # the property as a differential statement, free of model predictions: every part of a program that starts with a Reset on
    # a used decoder is run again on a fresh decoder; returns and accessors must agree call by call
    rep = ctx.path("fddiff.json")
    vh(ctx, ["fddiff", ctx.path("frames_dict.json"), ctx.path("MC_FD_histories_programs.ndjson"), rep, 2 if q else 1, 1 if q else 2], timeout=7200)
    dj = json.load(open(rep))
    ctx.evaluations += dj["observations_compared"]
    ctx.traces += dj["segments_compared"]
    ctx.cov["fresh_vs_reused"] = {k: dj[k] for k in ("programs_with_reuse", "segments_compared", "observations_compared", "mismatches")}
    for m in dj["first"]:
        ctx.violation("a reused decoder differs from a fresh one (history %s, then %s): %s" % (json.dumps(m["history"])[:300], json.dumps(m["segment"])[:300], "; ".join(m["errors"])[:700]), m, tag="diff")
    if dj["segments_compared"] < 1000:
        raise ToolError("vacuous fresh-vs-reused comparison: %s" % ctx.cov["fresh_vs_reused"])
    fdlib.random_schedules(ctx, 20 if q else 150)
    ctx.assumptions += ["leaks are detected when they change an observable of one of the probe / dictionary / plain frames of the set",
                        "two synthetic dictionaries (entropy tables different from the predefined ones) cross-checked with libzstd"]
    return ctx.finish("model_checking")
