"""C07 -- a reused decoder behaves exactly like a fresh one.

Specification level: in FrameDecoder.tla every per-frame variable is re-initialised by Reset, so the state after Reset(i)
is independent of the history; TLC explores all histories (frame, how far it was driven, how it ended: completed /
abandoned after k blocks / failed at the header, a block header, a block body, the checksum, a missing dictionary,
an invalid block) up to the call bound, over plain, dictionary, probe and "dirty" frames, with Reset enabled in every
state.  Conformance: every transition is replayed on one real decoder; the predictions after a Reset are those of a
fresh decoder by construction, so any leak that is visible in an observable (bytes, checksums, consumed, Ok/Err) is a
mismatch.  Probe frames make the internal state observable: treeless literals / repeat-mode tables without a previous
table / a match before the frame start must fail on every decoder, repeat offsets at frame start must use (1, 4, 8).
Random histories over real frames (completed and abandoned, all front ends) extend this.
"""
from ..common import *
from .. import fdlib


def check(ctx):
    build_harness()
    q = ctx.quick
    params = dict(ReadSizes=[5000], ByteBudgets=[], BlockBudgets=[1, 2], Offers=[4000], Targets=[5000], Scripts=[[]],
                  SReadSizes=[5000], MaxSteps=2 if q else 3, ResetMode="any",
                  _expect_ops=["Reset", "Decode", "Collect", "FromTo"])
    fdlib.run_config(ctx, "MC_FD_histories", "dict", params, cuts="boundaries" if not q else "sparse",
                     what="all histories up to MaxSteps calls per frame; a new frame may start in every state; truncated sources end frames in failures")
    fdlib.random_schedules(ctx, 20 if q else 150)
    ctx.assumptions += ["leaks are detected when they change an observable of one of the probe / dictionary / plain frames of the set",
                        "two synthetic dictionaries (entropy tables different from the predefined ones) cross-checked with libzstd"]
    return ctx.finish("model_checking")
