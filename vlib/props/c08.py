from ..common import *
from .. import enclib, fdlib
from . import _enc


def check(ctx):
    return _enc.check(ctx, "C08")
