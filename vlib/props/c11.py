"""C11 -- frames declaring a window above the configured limit are rejected up front.

WindowLimit.tla is the decision (sizes as ranks around every descriptor, clamp to the format maximum); TLC checks its
soundness properties and enumerates descriptors x boundary limits (requested-1, requested, requested+1, 0, around the
default 128 MiB, around the format maximum, 2^64-1) x window / single-segment declaration x decoder history x front end
with the specified outcome; the harness materialises every case (header + empty last block), runs the real front end under
the counting allocator and compares accept / reject, the reported requested and max values and the largest allocation
made before a rejection.
"""
import json, os, shutil
from ..common import *


def check(ctx):
    build_harness()
    q = ctx.quick
    descs = sorted(set([0, 1, 7, 8, 9, 63, 64, 100, 128, 135, 136, 137, 138, 144, 200, 247, 248, 253, 254, 255])) if q else list(range(256))
    fronts = ["reset", "init", "decode_all", "from_to", "stream_new", "stream_new_limit", "stream_with_decoder"]
    # TLC writes window_cases.ndjson into its working directory: run it from a copy of the module in the out dir;
    # the descriptors are enumerated in chunks (one TLC run each) so that the case sets stay small
    mod = ctx.path("MC_WindowLimit.tla")
    with open(mod, "w") as f:
        f.write("---- MODULE MC_WindowLimit ----\nEXTENDS WindowLimit\n====\n")
    cases = ctx.path("window_cases_all.ndjson")
    open(cases, "w").close()
    chunk = 24
    class R: distinct = 0; generated = 0
    res = R()
    for k in range(0, len(descs), chunk):
        cfg = ctx.path("MC_WindowLimit_%d.cfg" % k)
        write_cfg(cfg, constants={"Descs": tla_set(descs[k:k + chunk]), "Histories": '{"first", "after_ok", "after_fail"}',
                                  "Fronts": "{" + ", ".join('"%s"' % f for f in fronts) + "}"})
        r1 = tlc(ctx, mod, cfg, workers=1, name="MC_WindowLimit_%d" % k, heap="-Xmx8g", timeout=3000)
        tlc_must_pass(ctx, r1, "WindowLimit")
        part = ctx.path("window_cases.ndjson")
        if not os.path.exists(part):
            raise ToolError("WindowLimit wrote no cases")
        with open(cases, "a") as out, open(part) as inp:
            shutil.copyfileobj(inp, out)
        os.remove(part)
        res.distinct += max(r1.distinct, 1)
        res.generated += max(r1.generated, 1)
    rep = ctx.path("c11exec.json")
    vh(ctx, ["c11exec", cases, rep], timeout=3000)
    rj = json.load(open(rep))
    ctx.states += max(res.distinct, 1)
    ctx.transitions += max(res.generated, 1)
    ctx.evaluations += rj["cases"]
    ctx.distinct += rj["cases"] - rj["skipped"]
    ctx.traces += rj["cases"] - rj["skipped"]
    ctx.cov["window_limit"] = {"descriptors": len(descs), "cases": rj["cases"], "skipped_huge_preallocation": rj["skipped"], "mismatches": rj["mismatches"],
                               "front_end_outcomes": rj["classes"]}
    if rj["cases"] < 1000 or len(rj["classes"]) < 12:
        raise ToolError("vacuous window enumeration: %s" % rj["classes"])
    for m in rj["first"]:
        ctx.violation("window case %s: %s" % (json.dumps(m["case"]), m["error"]), m, tag="win")
    ctx.add_samples(rj["samples"][:2], 2)
    ctx.assumptions += ["acceptance of windows above 64 MiB is only exercised where the decoder does not pre-allocate the window (first use, streaming constructors)",
                        "window sizes are ranks in TLC; the u64 arithmetic is exercised on the Rust side"]
    return ctx.finish("model_checking")
