"""C10 -- exact frame boundaries: consumption, multi-frame decoding, truncation detection.

1. FrameDecoder.tla with a truncated source: every cut point at and around every structural boundary of every model
   frame x decode/drain/streaming/slice operations; invariants NoFinishOnPrefix, ConsumedOK; every transition replayed.
2. Exhaustive truncation sweep: every source length 0..=len of every model frame through four entry points, each
   observed row judged by TLC with the specification's operators (TruncPropOk = the property, TruncExact = as-built detail).
3. MultiFrame.tla: TLC enumerates all item sequences (frames, skippable frames, truncated / garbage / invalid items)
   up to 3 items x boundary target capacities and writes the specified outcome; the real decode_all and
   decode_all_to_vec are run on every case.
4. Every truncation point of small real frames (decodecorpus, libzstd, ruzstd) at property level.
5. Random schedules on real frames, a fifth of them on a truncated source, recorded call by call (consumed, finished,
   collectable, delivered) and validated by TLC against Trace_FrameDecoder.tla with ConsumedOK / NoFinishOnPrefix as invariants.
"""
import json, os, re
from ..common import *
from .. import fdlib


def rows_check(ctx, frames, rows_path, name):
    mod = fdlib.gen_module(ctx, name, frames, [[f["len"]] for f in frames], [[]])
    # append the one-step row evaluation to the generated module
    src = open(mod).read().replace("====", """
Rows == ndJsonDeserialize(IOEnv.ROWS)
RowInit == /\\ Init
           /\\ LET viol == {i \\in 1..Len(Rows) : ~TruncPropOk(Rows[i])}
                  inexact == {i \\in 1..Len(Rows) : ~TruncExact(Rows[i])} \\ viol
              IN PrintT(<<"ROWS", Len(Rows), "VIOL", Cardinality(viol), "INEXACT", Cardinality(inexact),
                          IF viol = {} THEN <<>> ELSE LET S == {i \\in viol : \\A j \\in viol : i <= j} IN <<Rows[CHOOSE i \\in S : TRUE]>>,
                          IF inexact = {} THEN <<>> ELSE <<Rows[CHOOSE i \\in inexact : TRUE], TruncExpect(Frames[Rows[CHOOSE i \\in inexact : TRUE].f], Rows[CHOOSE i \\in inexact : TRUE].cut, Rows[CHOOSE i \\in inexact : TRUE].entry)>>>>)
RowSpec == RowInit /\\ [][UNCHANGED vars]_vars
====""")
    src = src.replace("EXTENDS FrameDecoder\n", "EXTENDS FrameDecoder, Json, IOUtils\n", 1)
    open(mod, "w").write(src)
    cfg = ctx.path(name + ".cfg")
    consts = {"Frames": "<- FramesDef", "Cuts": "<- CutsDef", "Scripts": "<- ScriptsDef", "ReadSizes": "{}", "ByteBudgets": "{}",
              "BlockBudgets": "{}", "Offers": "{}", "Targets": "{}", "SReadSizes": "{}", "MaxSteps": 1, "MaxBlock": 131072, "Dev_F9": "FALSE", "ResetMode": '"any"'}
    write_cfg(cfg, spec="RowSpec", constants=consts)
    res = tlc(ctx, mod, cfg, workers=1, env={"ROWS": rows_path}, name=name, heap="-Xmx6g")
    tlc_must_pass(ctx, res, name)
    m = re.search(r'<<\s*"ROWS",\s*(\d+),\s*"VIOL",\s*(\d+),\s*"INEXACT",\s*(\d+),\s*(.*)>>', res.out, re.S)
    if not m:
        raise ToolError("row validation printed nothing:\n" + res.out[-2000:])
    return int(m.group(1)), int(m.group(2)), int(m.group(3)), re.sub(r"\s+", " ", m.group(4))[:900]


def check(ctx):
    build_harness()
    q = ctx.quick
    # ---- 1. truncated sources in the protocol model -----------------------------------------------
    params = dict(ReadSizes=[1, 5000], ByteBudgets=[1025], BlockBudgets=[1], Offers=[2, 3, 12, 4000], Targets=[0, 5000],
                  Scripts=[[], [-2, 0]], SReadSizes=[1, 5000], MaxSteps=4 if q else 5, ResetMode="init",
                  _expect_ops=["Reset", "Decode", "Collect", "Read", "FromTo", "SRead"])
    rj = fdlib.run_config(ctx, "MC_FD_truncation", "quick", params, cuts="boundaries", dense=not q,
                          what="source truncated at and around every structural boundary; decode / drain / streaming / slice calls")
    # ---- 2. exhaustive sweep judged by the specification -----------------------------------------
    fp, frames = fdlib.make_frames(ctx, "quick")
    rows = ctx.path("trunc_rows.ndjson")
    rep = ctx.path("truncsweep.json")
    vh(ctx, ["truncsweep", fp, rows, rep])
    n, viol, inexact, ex = rows_check(ctx, frames, rows, "TruncRows")
    ctx.evaluations += n
    ctx.distinct += n
    ctx.cov["truncation_sweep_rows"] = {"rows": n, "violating": viol, "inexact_vs_as_built_model": inexact, "frames": len(frames),
                                        "entries": ["blocks", "stream", "slice", "all"]}
    if viol:
        ctx.violation("truncation sweep: %d of %d rows break the property, first: %s" % (viol, n, ex), {"rows": rows, "first": ex}, tag="trunc")
    if inexact:
        ctx.notes.append("truncation sweep: %d rows differ from the as-built model in an unconstrained detail (error class / amounts): %s" % (inexact, ex))
    if n < 1000:
        raise ToolError("vacuous truncation sweep")
    # ---- 3. multi-frame calls ---------------------------------------------------------------------
    items = ctx.path("mfitems.json")
    vh(ctx, ["mfitems", items])
    its = json.load(open(items))["items"]
    mod = ctx.path("MC_MultiFrame.tla")
    with open(mod, "w") as f:
        f.write("---- MODULE MC_MultiFrame ----\nEXTENDS MultiFrame\nItemsDef == <<\n  " + ",\n  ".join(
            '[kind |-> "%s", len |-> %d, size |-> %d, err |-> "%s", tail |-> %s]' % (i["kind"], i["len"], i["size"], i["err"], fdlib.tla_bool(i["tail"]))
            for i in its) + "\n>>\n====\n")
    cfg = ctx.path("MC_MultiFrame.cfg")
    write_cfg(cfg, constants={"Items": "<- ItemsDef", "MaxItems": 2 if q else 3})
    res = tlc(ctx, mod, cfg, workers=1, name="MC_MultiFrame", heap="-Xmx6g")
    tlc_must_pass(ctx, res, "MultiFrame")
    cases = ctx.path("multiframe_cases.ndjson")
    if not os.path.exists(cases):
        raise ToolError("MultiFrame wrote no cases")
    rep = ctx.path("mfexec.json")
    vh(ctx, ["mfexec", items, cases, rep])
    mj = json.load(open(rep))
    ctx.states += res.distinct
    ctx.transitions += max(res.generated, 1)
    ctx.evaluations += mj["cases"]
    ctx.distinct += mj["cases"]
    ctx.traces += mj["cases"]
    ctx.cov["multi_frame"] = {"item_alphabet": [i["name"] for i in its], "max_items": 2 if q else 3, "cases": mj["cases"], "mismatches": mj["mismatches"],
                              "specified_outcomes": mj["classes"], "error_class_drift": mj["drifted"]}
    if mj["cases"] < 100 or len(mj["classes"]) < 5:
        raise ToolError("vacuous multi-frame enumeration: %s" % mj["classes"])
    for m in mj["first"]:
        ctx.violation("multi-frame call on items %s with capacity %s: %s" % (m["case"]["items"], m["case"]["cap"], "; ".join(m["errors"])), m, tag="multi")
    ctx.add_samples(mj["samples"][:1], 1)
    # ---- 4. property-level truncation of small real frames -------------------------------------------
    idx = fdlib.corpus(ctx)
    rep = ctx.path("realtrunc.json")
    vh(ctx, ["realtrunc", idx, 4096 if q else 40000, rep], timeout=7200)
    tj = json.load(open(rep))
    ctx.evaluations += tj["cases"]
    ctx.cov["real_frame_truncation"] = {k: tj[k] for k in ("frames", "cases", "mismatches")}
    for m in tj["first"]:
        ctx.violation("truncated real frame %s at %s via %s: %s" % (m["frame"], m["cut"], m["entry"], m["error"]), m, tag="real")
    # ---- 5. recorded schedules on real frames (a fifth of them on a truncated source) validated against the specification ----
    fdlib.trace_real_frames(ctx, 4 if q else 40, idx, salt=10)
    ctx.assumptions += ["multi-frame outcomes are enumerated over an alphabet of 13 item kinds; truncated items only at the end of the input",
                        "regenerated sizes of compressed blocks of real frames are taken from the decoder's block events (their sum is the reference decoder's content length)"]
    return ctx.finish("model_checking")
