"""C04 -- the unsafe output window is a byte queue and never leaves its allocation.

1. TLC explores RingBuffer.tla exhaustively (cell-level memory, chunked over-copy) -- invariants Safe, TypeOK,
   Accounting, WrittenPrefix.
2. Every transition of the reachable graph becomes a program step replayed on the real RingBuffer; indices, len,
   free, contents (byte-queue mirror) are compared after every operation.
3. Seeded random operation sequences over the full operand range are recorded through the hooks (ring ops and
   the raw copies with the extents actually touched) and validated against Trace_RingBuffer.
4. DecodeBuffer (L1): the repeat / drain operations drive the ring through decode_buffer.rs; recorded and
   validated by the same trace specification (callers' preconditions = enabledness).
0. RingArith.tla: the index arithmetic (extend with and without growth, drop, clear) for ARBITRARY capacities; its
   inductive invariant is discharged symbolically by Apalache, TLC bridges its modulo-free wrap to the `%` form.
"""
import json, os, random, re
from ..common import *
from .. import walk

BAD = {1: "a raw copy touches memory outside the allocation", 2: "a raw copy reads a cell that was never written",
       3: "contents differ from the byte queue", 4: "head/tail out of range", 5: "source and destination of a raw copy overlap",
       6: "a live cell was never written"}


def validate_ring_trace(ctx, trace, name, K):
    cfg = ctx.path(name + ".cfg")
    write_cfg(cfg, spec="TSpec", constants={"K": K, "MaxCap": 1000000, "Sizes": "{}"},
              invariants=["Safe", "TypeOK"], postcondition="Accepted")
    return trace_validate(ctx, "Trace_RingBuffer", cfg, trace, name)


def report_trace_failure(ctx, info, res, trace, what):
    recs = read_ndjson(trace)
    at = info["rejected_at"] or 0
    # the replay file is the trace prefix from the last reset up to the rejected event
    start = max([i for i in range(min(at, len(recs))) if recs[i]["op"] == "reset"] or [0])
    prefix = recs[start:at + 1]
    if info["invariant"]:
        import re
        m = re.search(r"bad = (\d+)", res.out[res.out.rfind("State "):]) if "State " in res.out else None
        code = int(m.group(1)) if m else 0
        msg = "%s: ring trace reaches an unsafe state (%s) at event %s" % (what, BAD.get(code, "invariant " + info["invariant"]), at)
    else:
        msg = "%s: recorded ring operation is not an enabled action of RingBuffer.tla / indices differ at event %s: %s" % (what, at, info["record"])
    ctx.violation(msg, {"trace_prefix": prefix})


def ring_arith(ctx):
    """RingArith.tla: the index arithmetic for ARBITRARY capacities.  Apalache discharges the inductive invariant
    (Init => IndInv, IndInv /\\ Next => IndInv') symbolically over all integers; TLC ties the modulo-free wrap of that
    module to the `%` of the code and of the specifications bound to it.  Self-test: with free() forgetting the unused
    cell the induction step must fail."""
    import shutil as _sh
    d = ctx.path("apalache")
    _sh.rmtree(d, ignore_errors=True)
    os.makedirs(d)
    src = open(os.path.join(ROOT, "spec", "RingArith.tla")).read()
    open(os.path.join(d, "RingArith.tla"), "w").write(src)
    dev = src.replace("MODULE RingArith ", "MODULE RingArithDev ").replace("ELSE cap - 1 - RLen", "ELSE cap - RLen")
    if dev.count("ELSE cap - RLen") != 1:
        raise ToolError("RingArith self-test: cannot derive the deviating module")
    open(os.path.join(d, "RingArithDev.tla"), "w").write(dev)

    def apal(module, init, length):
        r = run(["timeout", "900", "apalache-mc", "check", "--init=" + init, "--inv=IndInv", "--length=%d" % length, "--out-dir=" + os.path.join(d, "out"), module + ".tla"],
                cwd=d, timeout=1000, check=False)
        out = r.stdout or ""
        if "EXITCODE: OK" in out:
            return True
        if "EXITCODE: ERROR (12)" in out or "Found a violation" in out or "violation of invariant" in out.lower():
            return False
        raise ToolError("apalache-mc failed on %s (%s, length %d):\n%s" % (module, init, length, out[-1500:]))

    base = apal("RingArith", "Init", 0)
    step = apal("RingArith", "IndInit", 1)
    dev_step = apal("RingArithDev", "IndInit", 1)
    _sh.rmtree(os.path.join(d, "out"), ignore_errors=True)
    if dev_step:
        raise ToolError("self-test failed: the induction step also holds when free() forgets the unused cell")
    if not base or not step:
        ctx.violation("the ring index arithmetic does not preserve its invariant for arbitrary capacities (RingArith.tla: %s fails)"
                      % ("Init => IndInv" if not base else "IndInv /\\ Next => IndInv'"), {"module": "spec/RingArith.tla"}, tag="arith")
    # TLAPS: the same theorem, deductively (spec/RingArithProof.tla: Spec => [](IndInv /\ Safe), SMT + PTL back ends)
    psrc = open(os.path.join(ROOT, "spec", "RingArithProof.tla")).read()
    open(os.path.join(d, "RingArithProof.tla"), "w").write(psrc)
    open(os.path.join(d, "RingArithProofDev.tla"), "w").write(
        psrc.replace("MODULE RingArithProof ", "MODULE RingArithProofDev ").replace("EXTENDS RingArith,", "EXTENDS RingArithDev,"))

    def tlaps(module, stretch):
        _sh.rmtree(os.path.join(d, ".tlacache"), ignore_errors=True)
        r = run(["timeout", "600", "tlapm", "--threads", "4", "--stretch", stretch, module + ".tla"], cwd=d, timeout=700, check=False)
        out = (r.stdout or "") + (r.stderr or "")
        m = re.search(r"All (\d+) obligations proved", out)
        if m:
            return int(m.group(1)), 0
        m = re.search(r"(\d+)/(\d+) obligations failed", out)
        if m:
            return int(m.group(2)), int(m.group(1))
        raise ToolError("tlapm failed on %s:\n%s" % (module, out[-1500:]))

    n_obl, n_failed = tlaps("RingArithProof", "1")
    dev_obl, dev_failed = tlaps("RingArithProofDev", "0.3")
    if dev_failed == 0:
        raise ToolError("self-test failed: tlapm also proves the theorem when free() forgets the unused cell")
    if n_failed:
        ctx.violation("the ring index arithmetic does not preserve its invariant for arbitrary capacities (RingArithProof.tla: %d of %d proof obligations fail)"
                      % (n_failed, n_obl), {"module": "spec/RingArithProof.tla"}, tag="arith")
    ctx.cov["index_arithmetic_tlaps"] = {
        "theorem": "RingArith!Spec => [](IndInv /\\ Safe), with the type invariant carried explicitly",
        "obligations_proved": n_obl, "selftest": "%d of %d obligations fail when free() forgets the unused cell" % (dev_failed, dev_obl)}
    # TLC: Wrap = % up to MaxCap, and the bounded graph satisfies the same invariant
    mod = ctx.path("MC_RingArith.tla")
    with open(mod, "w") as f:
        f.write("---- MODULE MC_RingArith ----\nEXTENDS RingArithMC\n====\n")
    cfg = ctx.path("MC_RingArith.cfg")
    maxcap = 12 if ctx.quick else 24
    write_cfg(cfg, spec="BSpec", constants={"MaxCap": maxcap}, invariants=["IndInv", "Safe"])
    res = tlc(ctx, mod, cfg, workers=4, name="MC_RingArith", timeout=3000)
    tlc_must_pass(ctx, res, "RingArithMC")
    ctx.states += res.distinct
    ctx.transitions += res.generated
    ctx.cov["index_arithmetic_for_all_capacities"] = {
        "apalache": "Init => IndInv and IndInv /\\ Next => IndInv' hold over all integers (symbolic, no bound on capacity or amounts)",
        "selftest": "induction step fails when free() forgets the unused cell",
        "tlc_bridge": "Wrap(a, n, c) = (a + n) %% c for all c <= %d; bounded graph of %d states satisfies IndInv" % (maxcap, res.distinct)}


def check(ctx):
    vhbin = build_harness()
    quick = ctx.quick
    ring_arith(ctx)
    # chunk size of the platform's wide copy
    r = vh(ctx, ["ringk"])
    K = int(r.stdout.strip())
    ctx.cov["copy_chunk_K"] = K

    # ---- 1. exhaustive model ------------------------------------------------
    sizes = [1, 2, 3, 15, 16, 17, 31, 32] if quick else [1, 2, 3, 7, 8, 9, 15, 16, 17, 31, 32, 33, 63, 64]
    maxcap = 33 if quick else 65
    cfg = ctx.path("MC_RingBuffer.cfg")
    write_cfg(cfg, constants={"K": K, "MaxCap": maxcap, "Sizes": tla_set(sizes)},
              invariants=["Safe", "TypeOK", "Accounting", "WrittenPrefix"])
    dot = ctx.path("rb.dot")
    res = tlc(ctx, "RingBuffer", cfg, workers=12, dump=dot, timeout=6000, heap="-Xmx12g")
    tlc_must_pass(ctx, res, "RingBuffer model")
    ctx.states += res.distinct
    ctx.transitions += res.generated
    ctx.cov["mc_ring"] = {"K": K, "MaxCap": maxcap, "Sizes": sizes, "distinct_states": res.distinct,
                          "transitions": res.generated, "depth": res.depth, "wall_s": round(res.wall, 1)}
    if not quick:
        # the usize fallback (K = 8) is not compiled on this platform: specification level only
        cfg8 = ctx.path("MC_RingBuffer_K8.cfg")
        write_cfg(cfg8, constants={"K": 8, "MaxCap": 33, "Sizes": tla_set([1, 2, 3, 7, 8, 9, 15, 16, 17, 31, 32])},
                  invariants=["Safe", "TypeOK", "Accounting", "WrittenPrefix"])
        r8 = tlc(ctx, "RingBuffer", cfg8, workers=12, timeout=3000)
        tlc_must_pass(ctx, r8, "RingBuffer model K=8")
        ctx.states += r8.distinct
        ctx.transitions += r8.generated
        ctx.cov["mc_ring_K8"] = {"distinct_states": r8.distinct, "transitions": r8.generated}

    # ---- 2. one implementation test per transition --------------------------
    progs = ctx.path("rb_programs.ndjson")
    st = walk.programs(dot, ["cap", "head", "tail", "bad"], progs)
    os.remove(dot)
    if st["edges"] < 1000 or len(st["ops"]) < 7:
        raise ToolError("vacuous ring graph: %s" % st)
    rep = ctx.path("ringexec.json")
    tr1 = ctx.path("ringexec_trace.ndjson")
    vh(ctx, ["ringexec", progs, rep, "--trace", tr1, "--ntrace", 40 if quick else 300])
    rj = json.load(open(rep))
    ctx.cov["replay_ring"] = {"graph_edges": st["edges"], "programs": rj["programs"], "operations": rj["steps"],
                              "mismatches": rj["mismatches"], "ops": rj["ops"]}
    ctx.evaluations += rj["steps"]
    ctx.distinct += st["edges"]
    ctx.cov["replay_ring"]["drifted_programs"] = rj["drifted_programs"]
    if rj["drifted_programs"]:
        ctx.notes.append("%d replayed programs left the as-built model in (cap, head, tail) (growth policy / placement) while contents, len, free "
                         "and the position invariants stayed right; they were continued without predictions. Example: %s"
                         % (rj["drifted_programs"], json.dumps(rj["drift_examples"][:1])))
    for m in rj["first"]:
        ctx.violation("ring model replay: %s(%s) -> %s" % (m["op"], m["args"], "; ".join(m["errors"])), m)
    with open(progs) as f:
        ctx.add_samples([json.loads(f.readline())[:6]], 1)
    if rj["chunk"] not in (0, K):
        raise ToolError("copy chunk %s differs from K %s" % (rj["chunk"], K))

    # ---- 3. trace validation -------------------------------------------------
    traces = [("replayed programs", tr1)]
    tr2 = ctx.path("ringrand_trace.ndjson")
    rep2 = ctx.path("ringrand.json")
    vh(ctx, ["ringrand", ctx.seed, 150 if quick else 1500, 40, 129, tr2, rep2])
    rr = json.load(open(rep2))
    ctx.evaluations += rr["ops"]
    ctx.cov["random_ring"] = {k: rr[k] for k in ("sequences", "ops", "mismatches", "kinds", "distinct_index_states")}
    for m in rr["first"]:
        ctx.violation("random ring sequence: " + "; ".join(m["errors"]), m)
    ctx.add_samples(rr["samples"][:1], 1)
    traces.append(("random operation sequences", tr2))
    # L1: DecodeBuffer driving the ring
    tr3 = ctx.path("decbuf_trace.ndjson")
    rep3 = ctx.path("decbuf.json")
    vh(ctx, ["decbufrand", ctx.seed, 60 if quick else 600, 30, tr3, rep3])
    rd = json.load(open(rep3))
    ctx.evaluations += rd["ops"]
    ctx.cov["random_decodebuffer"] = {k: rd[k] for k in ("sequences", "ops", "mismatches", "kinds")}
    for m in rd["first"]:
        ctx.violation("DecodeBuffer sequence: " + "; ".join(m["errors"]), m)
    ctx.add_samples(rd["samples"][:1], 1)
    traces.append(("DecodeBuffer operation sequences", tr3))
    nev = 0
    noncf = 0
    for what, tr in traces:
        ok, info, res = validate_ring_trace(ctx, tr, "tv_" + os.path.basename(tr).split(".")[0], K)
        if ok:
            nev += info["events"]
            noncf += info["nonconforming"]
        else:
            report_trace_failure(ctx, info, res, tr, what)
    ctx.traces += rj["traced_programs"] + rr["sequences"] + rd["sequences"]
    ctx.cov["trace_validation"] = {"events_accepted": nev, "declared_regions_nonconforming": noncf}
    if noncf:
        ctx.notes.append("%d extend_from_within calls declared copy regions that differ from the specification's geometry "
                         "(conformance information, not a violation: ownership of the touched extents is what is checked)" % noncf)

    # ---- 4. binding self-test: a corrupted trace must be rejected -------------
    recs = read_ndjson(tr2)[:400]
    idx = [i for i, r in enumerate(recs) if r["op"] in ("extend", "fill", "efw") and r["cap"] > 0]
    if idx:
        i = idx[len(idx) // 2]
        recs[i] = dict(recs[i], tail=(recs[i]["tail"] + 1) % recs[i]["cap"])
        bt = ctx.path("binding_trace.ndjson")
        write_ndjson(bt, recs)
        ok, info, res = validate_ring_trace(ctx, bt, "tv_binding", K)
        if ok:
            raise ToolError("binding self-test failed: corrupted trace was accepted")
        ctx.cov["binding_selftest"] = "corrupted tail at event %d rejected at %s" % (i + 1, info["rejected_at"])
    ctx.assumptions += ["the compiler and the allocator are trusted", "memory safety is established for the modelled operations "
                        "under the preconditions observed on the explored runs", "K=8 (no SIMD) path checked on the specification only"]
    return ctx.finish("model_checking")
