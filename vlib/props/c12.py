"""C12 -- FSE tables equal the specification's; FSE encoder and decoder are exact inverses.

FSE.tla is RFC 8878 4.1 (table construction, description codec, backward stream decoding with one / two states).
Decoder side: FSECases.tla enumerates normalised distributions (less-than-one entries, zero runs) for accuracy logs 5..7,
checks the specification's theorems on each (ReadDesc inverts DescBytes, the states of each symbol partition the table)
and writes description bytes + specified table; the real FSETable::build_decoder must parse every description to exactly
that table.  Encoder side: the real encoder's normalisation (production parameters max log 9/8/6, zero-bit avoidance),
all of its states, the description it writes and short streams from both stream encoders are dumped as rows and judged
by FSERows.Ok (valid normalisation, states = specified table, bytes = specified description, stream decodes by the
specification to the same symbols consuming all bits); the predefined tables of both sides equal Table(6|6|5, RFC distribution).
"""
import json, os, re
from ..common import *


def rows_run(ctx, module, rows_file, name):
    cfg = ctx.path(module + ".cfg")
    write_cfg(cfg)
    res = tlc(ctx, module, cfg, workers=1, env={"ROWS": rows_file}, name=name, heap="-Xmx8g", timeout=3000)
    tlc_must_pass(ctx, res, name)
    m = re.search(r'<<\s*"ROWS",\s*(\d+),\s*"BAD",\s*(\d+),\s*(\{.*?\}),\s*(.*)>>', res.out, re.S)
    if not m:
        raise ToolError("row validation printed nothing for %s:\n%s" % (rows_file, res.out[-1500:]))
    ctx.states += max(res.distinct, 1)
    ctx.transitions += max(res.generated, 1)
    ctx.last_rows_out = res.out
    return int(m.group(1)), int(m.group(2)), re.sub(r"\s+", " ", m.group(4))[:700]


def hist_classes_file(ctx):
    """ParseClasses.tla, HistRows: TLC writes the code-histogram classes (with the accuracy log the table builder must pick)."""
    mod = ctx.path("MC_ParseClasses.tla")
    with open(mod, "w") as f:
        f.write("---- MODULE MC_ParseClasses ----\nEXTENDS ParseClasses\n====\n")
    cfg = ctx.path("MC_ParseClasses.cfg")
    write_cfg(cfg)
    res = tlc(ctx, mod, cfg, workers=1, name="MC_ParseClasses")
    tlc_must_pass(ctx, res, "ParseClasses")
    hc = ctx.path("hist_classes.ndjson")
    if not os.path.exists(hc):
        raise ToolError("ParseClasses wrote no histogram classes")
    return hc, res


def hist_classes(ctx):
    """The compressor is driven through the public Matcher trait with a valid parse that has exactly the histogram of each
    class of ParseClasses.tla (HistRows).  Returns (report, rows file)."""
    hc, res = hist_classes_file(ctx)
    rows = ctx.path("written_rows.ndjson")
    rep = ctx.path("seqhist.json")
    vh(ctx, ["seqhist", ctx.seed, hc, rows, rep, ctx.tier], timeout=7200)
    hj = json.load(open(rep))
    ctx.states += hj["classes_run"] + hj["skipped_infeasible"]
    ctx.transitions += max(res.generated, 1)
    ctx.evaluations += hj["classes_run"]
    ctx.cov["code_histogram_classes"] = {k: hj[k] for k in ("classes_run", "skipped_infeasible", "mismatches", "rows", "fse_tables_written", "block_not_compressed")}
    for m in hj["first"]:
        ctx.violation("valid parse with code histogram %s (block of %d bytes, first sequences %s): %s" % (json.dumps(m["class"]), m["block_len"], m["first_sequences"], m["error"]), m, tag="hist")
    if hj["classes_run"] < 500 or hj["fse_tables_written"] < 500 or hj["rows"] < 100:
        raise ToolError("vacuous histogram classes %s" % ctx.cov["code_histogram_classes"])
    return hj, rows


def check(ctx):
    build_harness()
    q = ctx.quick
    # ---- decoder side: spec-generated cases --------------------------------------------------
    configs = [("al5", 5, 4 if q else 5, "ValsDef", 2)]
    if not q:
        configs.append(("al6", 6, 4, "Vals6", 3))
    total_cases = 0
    for name, al, maxlen, vals, zr in configs:
        mod = ctx.path("MC_FSECases_%s.tla" % name)
        with open(mod, "w") as f:
            f.write("---- MODULE MC_FSECases_%s ----\nEXTENDS FSECases\n====\n" % name)
        cfg = ctx.path("MC_FSECases_%s.cfg" % name)
        write_cfg(cfg, constants={"AL": al, "MaxLen": maxlen, "Vals": "<- " + vals, "MaxZeroRun": zr})
        res = tlc(ctx, mod, cfg, workers=1, name="MC_FSECases_" + name, heap="-Xmx8g", timeout=3000)
        tlc_must_pass(ctx, res, "FSECases " + name)
        cases = ctx.path("fse_cases.ndjson")
        if not os.path.exists(cases):
            raise ToolError("FSECases wrote nothing")
        kept = ctx.path("fse_cases_%s.ndjson" % name)
        os.replace(cases, kept)
        rep = ctx.path("c12dec_%s.json" % name)
        vh(ctx, ["c12dec", kept, rep])
        rj = json.load(open(rep))
        total_cases += rj["cases"]
        ctx.states += rj["cases"]  # abstract cases enumerated by TLC
        ctx.states += max(res.distinct, 1)
        ctx.transitions += max(res.generated, 1)
        ctx.cov["decoder_" + name] = {"accuracy_log": al, "max_entries": maxlen, "distributions": rj["cases"], "mismatches": rj["mismatches"]}
        for m in rj["first"]:
            ctx.violation("FSE decoder, al %d probs %s: %s" % (m["al"], m["probs"], m["error"]), m, tag="dec")
        ctx.add_samples(rj["samples"][:1], 1)
    if total_cases < 200:
        raise ToolError("vacuous FSE case enumeration (%d)" % total_cases)
    # ---- encoder side and predefined tables: rows ---------------------------------------------
    rows = ctx.path("fse_rows.ndjson")
    rep = ctx.path("c12enc.json")
    vh(ctx, ["c12enc", ctx.seed, ctx.tier, rows, rep])
    ej = json.load(open(rep))
    for p in ej["panics"]:
        ctx.violation("FSE encoder panics for histogram %s (max log %s): %s" % (p["hist"], p["maxlog"], p["panic"]), p, tag="encpanic")
    n, bad, first = rows_run(ctx, "FSERows", rows, "FSERows")
    ctx.cov["encoder_rows"] = {"rows": n, "bad": bad, "kinds": ej["rows"], "histograms": ej["histograms"]}
    if bad:
        ctx.violation("%d of %d encoder / predefined-table rows differ from the specification, first: %s" % (bad, n, first), {"rows": rows, "first": first}, tag="encrows")
    if n < 500 or len(ej["rows"]) < 3:
        raise ToolError("vacuous encoder rows %s" % ej["rows"])
    # ---- what the compressor actually writes: table descriptions in real blocks, per code-histogram class ----
    hj, wrows = hist_classes(ctx)
    wn, wbad, wfirst = rows_run(ctx, "FSERows", wrows, "WrittenRows")
    dm = re.search(r'<<\s*"DRIFT",\s*(\d+)\s*>>', ctx.last_rows_out)
    drift = int(dm.group(1)) if dm else -1
    ctx.cov["code_histogram_classes"].update({"rows_checked": wn, "bad": wbad, "accuracy_log_drift": drift})
    if drift:
        ctx.notes.append("drift (not a violation): %d written tables are valid but use another accuracy log than the as-built normalisation model predicts" % drift)
    if wbad:
        ctx.violation("%d of %d blocks carry a table description outside the format's limits or without a code the block uses, first: %s" % (wbad, wn, wfirst),
                      {"rows": wrows, "first": wfirst}, tag="written")
    n += wn
    ctx.evaluations += total_cases + n
    ctx.distinct += total_cases + n
    ctx.traces += total_cases + n
    ctx.assumptions += ["decoder: accuracy logs 5 (and 6, 7 in the thorough tier) over a value menu; larger tables through the encoder rows (al up to 9) and real frames (C01)",
                        "streams: strings of 4..9 symbols per histogram"]
    return ctx.finish("model_checking")
