"""C09 -- dictionary frames decode correctly; a missing dictionary is an error.

ZstdFrames.tla with a dictionary: the frame starts from the dictionary's entropy tables (repeat-mode tables and treeless
literals in the first block), its repeat offsets and its content in front of the output.  TLC enumerates every (literals
before, offset, length) around the boundary between dictionary and output (inside, whole dictionary, straddling with
overlap, one byte too far = invalid) and frames whose first block uses the dictionary state, with the specified content;
the harness serialises each against a synthetic dictionary in Zstandard format (cross-checked by libzstd) and decodes it
through four entry points of the real decoder.  The FrameDecoder model over the dictionary frame set covers a missing
dictionary (refused), two dictionaries and histories mixing dictionary and plain frames (nothing leaks into a frame that
does not use the dictionary).  Dictionaries trained by libzstd and inputs compressed with them at many levels, with and
without dictionary id, are decoded with the original input as oracle.
"""
import json, os
from ..common import *
from .. import fdlib


def check(ctx):
    build_harness()
    q = ctx.quick
    info = ctx.path("dictinfo.json")
    vh(ctx, ["dictinfo", info])
    dj = json.load(open(info))
    mod = ctx.path("MC_DictFrames.tla")
    with open(mod, "w") as f:
        f.write("---- MODULE MC_DictFrames ----\nEXTENDS ZstdFrames\nDictContentDef == <<%s>>\nDictRepDef == <<%s>>\n====\n"
                % (", ".join(map(str, dj["content"])), ", ".join(map(str, dj["rep"]))))
    cfg = ctx.path("MC_DictFrames.cfg")
    write_cfg(cfg, constants={"Tier": '"dict"', "DictContent": "<- DictContentDef", "DictRep": "<- DictRepDef"})
    res = tlc(ctx, mod, cfg, workers=1, name="MC_DictFrames", heap="-Xmx8g", timeout=3000)
    tlc_must_pass(ctx, res, "DictFrames")
    cases = ctx.path("zf_cases.ndjson")
    if not os.path.exists(cases):
        raise ToolError("DictFrames wrote nothing")
    rep = ctx.path("zfexec_dict.json")
    vh(ctx, ["zfexec", cases, rep, "dict"], timeout=3000)
    zj = json.load(open(rep))
    if zj["spec_vs_libzstd"]:
        raise ToolError("specification / serializer disagree with libzstd on %d dictionary frames: %s" % (zj["spec_vs_libzstd"], json.dumps(zj["spec_vs_libzstd_examples"][:2])[:1500]))
    ctx.states += zj["frames"]
    ctx.transitions += max(res.generated, 1)
    ctx.evaluations += zj["frames"] * 4
    ctx.distinct += zj["valid"] + zj["invalid"]
    ctx.traces += zj["valid"] + zj["invalid"]
    ctx.cov["spec_generated_dictionary_frames"] = {"frames": zj["frames"], "valid": zj["valid"], "invalid": zj["invalid"], "mismatches": zj["mismatches"],
                                                   "dictionary_bytes": len(dj["content"]), "dictionary_repeat_offsets": dj["rep"]}
    if zj["valid"] < 300 or zj["invalid"] < 20:
        raise ToolError("vacuous dictionary frame enumeration: %s" % {k: zj[k] for k in ("frames", "valid", "invalid")})
    for m in zj["first"]:
        ctx.violation("dictionary frame %s: %s" % (json.dumps(m["frame"])[:500], "; ".join(m["errors"])[:600]), m, tag="zfd")
    ctx.add_samples(zj["samples"][:1], 1)
    # ---- protocol: missing dictionary, several dictionaries, histories ----
    params = dict(ReadSizes=[5000], ByteBudgets=[], BlockBudgets=[1], Offers=[4000], Targets=[5000], Scripts=[[]],
                  SReadSizes=[5000], MaxSteps=2, ResetMode="any", _expect_ops=["Reset", "Decode", "Collect", "FromTo"])
    fdlib.run_config(ctx, "MC_FD_dictionaries", "dict", params, cuts="full",
                     what="dictionary frames (two dictionaries, one unknown id) mixed with plain and probe frames on one decoder",
                     select=lambda f: f["name"].startswith(("dA_", "dB_", "d_missing")) or f["name"] in ("probe_reach", "probe_treeless", "probe_rep_ll", "rep_start"))
    # ---- trained dictionaries ----
    rep = ctx.path("c09trained.json")
    vh(ctx, ["c09trained", ctx.seed, ctx.tier, rep], timeout=7200)
    tj = json.load(open(rep))
    ctx.evaluations += tj["frames"]
    ctx.cov["libzstd_trained_dictionaries"] = {k: tj[k] for k in ("dictionaries", "frames", "with_dict_id", "without_dict_id", "mismatches")}
    for m in tj["first"]:
        ctx.violation("trained dictionary %s: %s" % (m.get("dictionary"), m["error"]), m, tag="trained")
    ctx.add_samples(tj["samples"][:1], 1)
    ctx.assumptions += ["exhaustive over offsets / lengths around the dictionary boundary for one 64-byte dictionary; trained dictionaries and inputs are sampled",
                        "frames without a dictionary id rely on the caller's force_dict"]
    return ctx.finish("model_checking")
