"""C19 -- command-line compress then decompress restores the file byte for byte.

Cli.tla maps a scenario (level option absent / implemented / unimplemented / out of range / non-numeric; output path
explicit or defaulted; input missing / empty / below one block / multi-block; output location writable or not; archive
valid / truncated / not zstd / missing; output path free or holding an older shorter / longer file) to the specified effects (exit status class, never a panic, complete output on
success, no new file at the output path after a failed compress).  TLC enumerates all scenarios; each is run against the
freshly built ruzstd-cli binary in a scratch directory; stderr is scanned for a panic; successful compressions are
decompressed again by the tool (must restore the input) and by libzstd (must accept the archive).
"""
import json, os, random, shutil, stat, subprocess
from ..common import *


def build_cli(ctx):
    td = os.path.join(OUTROOT, "cli_target")
    r = run(["cargo", "build", "--release", "--offline", "--quiet", "-p", "ruzstd-cli", "--target-dir", td], cwd=REPO, env={"CARGO_NET_OFFLINE": "true"}, timeout=3000, check=False)
    if r.returncode != 0:
        raise ToolError("building ruzstd-cli failed:\n" + (r.stdout or "")[-3000:])
    return os.path.join(td, "release", "ruzstd-cli")


def content(kind, rnd):
    if kind == "empty":
        return b""
    if kind == "small":
        return bytes(rnd.choice(b"abcdefgh \n") for _ in range(rnd.randrange(1, 5000)))
    kind = rnd.randrange(3)
    if kind == 0:
        base = bytes(rnd.randrange(256) for _ in range(1777))
        return (base * 200)[: 131072 * 2 + rnd.randrange(0, 70000)]
    if kind == 1:
        # two blocks with the same literal statistics: a few thousand nearly incompressible literals, the rest repeats of
        # them (the second block can reuse what the first one left behind in the compressor)
        unit = bytes(rnd.randrange(250) for _ in range(rnd.randrange(2000, 6000)))
        block = (unit * 70)[:131072]
        return block + block[1000:] + block[:1000] + unit[:rnd.randrange(1, 3000)]
    # skewed text-like bytes without long repeats, a little over two blocks
    return bytes(int(rnd.random() ** 3 * 60) + 32 for _ in range(131072 * 2 + rnd.randrange(1, 5000)))


def put_prior(path, prior):
    """An older, unrelated file at the output path (the tool must replace it, not overwrite its beginning)."""
    if prior == "shorter":
        open(path, "wb").write(b"old")
    elif prior == "longer":
        open(path, "wb").write(b"STALE-OLD-CONTENT " * 40000)
    return prior != "none"


def runcli(cli, args, cwd):
    try:
        r = subprocess.run([cli] + args, cwd=cwd, stdout=subprocess.PIPE, stderr=subprocess.PIPE, timeout=120, env=dict(os.environ, NO_COLOR="1", RUST_BACKTRACE="0"))
        return r.returncode, (r.stderr or b"").decode("utf8", "replace")
    except subprocess.TimeoutExpired:
        return -999, "timeout"


def check(ctx):
    vhbin = build_harness()
    cli = build_cli(ctx)
    mod = ctx.path("MC_Cli.tla")
    with open(mod, "w") as f:
        f.write("---- MODULE MC_Cli ----\nEXTENDS Cli\n====\n")
    cfg = ctx.path("MC_Cli.cfg")
    write_cfg(cfg)
    res = tlc(ctx, mod, cfg, workers=1, name="MC_Cli")
    tlc_must_pass(ctx, res, "Cli")
    cases = read_ndjson(ctx.path("cli_cases.ndjson"))
    rnd = random.Random(ctx.seed + 19)
    root = ctx.path("cli_scratch")
    os.makedirs(root, exist_ok=True)
    nbad = 0
    outcomes = {}
    reps = 1 if ctx.quick else 3
    nrun = 0
    for ci, c in enumerate(cases):
        for rep in range(reps):
            nrun += 1
            d = os.path.join(root, "c%d_%d" % (ci, rep))
            os.makedirs(d)
            why = []
            if c["cmd"] == "compress":
                data = content(c["input"] if c["input"] != "missing" else "small", rnd)
                inp = os.path.join(d, "in.dat")
                if c["input"] != "missing":
                    open(inp, "wb").write(data)
                args = ["compress", inp]
                outp = inp + ".zst"
                if c["out"] == "explicit":
                    od = os.path.join(d, "outdir")
                    os.makedirs(od)
                    outp = os.path.join(od, "archive.zst")
                    if c["outdir"] == "unwritable":
                        outp = os.path.join(od, "no", "such", "dir", "archive.zst")
                    args.append(outp)
                if c["level"] != "absent":
                    args += ["--level", c["level"]]
                had_prior = c["outdir"] == "writable" and put_prior(outp, c["prior"])
                rc, err = runcli(cli, args, d)
                ok = rc == 0
                key = "compress:%s:%s" % (c["level"], "ok" if ok else "fail")
                outcomes[key] = outcomes.get(key, 0) + 1
                if "panicked at" in err or rc == 101:
                    why.append("the tool panicked (exit %d): %s" % (rc, err.strip().splitlines()[0][:200] if err.strip() else ""))
                if ok != c["expect"]["ok"]:
                    why.append("exit status %d, specified %s" % (rc, "success" if c["expect"]["ok"] else "failure"))
                if not ok and os.path.exists(outp) and not had_prior:
                    why.append("a failed compress left %d bytes at the output path" % os.path.getsize(outp))
                if ok and c["expect"]["ok"]:
                    if not os.path.exists(outp):
                        why.append("success reported but there is no archive at %s" % os.path.relpath(outp, d))
                    else:
                        # the tool's own decompress restores the file
                        back = os.path.join(d, "back.dat")
                        rc2, err2 = runcli(cli, ["decompress", outp, back], d)
                        if rc2 != 0 or not os.path.exists(back) or open(back, "rb").read() != data:
                            why.append("decompress of the archive does not restore the input (exit %d)" % rc2)
                        # the reference decoder accepts the archive
                        ref = os.path.join(d, "ref.dat")
                        r3 = subprocess.run([vhbin, "zstdcat", outp, ref])
                        if r3.returncode != 0 or open(ref, "rb").read() != data:
                            why.append("libzstd does not decode the archive to the input")
            else:
                data = content(c["content"], rnd)
                src = os.path.join(d, "orig.dat")
                open(src, "wb").write(data)
                arch = os.path.join(d, "data.bin.zst")
                if c["archive"] != "missing":
                    rc0, err0 = runcli(cli, ["compress", src, arch, "--level", "1"], d)
                    if rc0 != 0:
                        # compressing an existing file at an implemented level must succeed: this is itself the property
                        nbad += 1
                        if nbad <= 10:
                            ctx.violation("cli scenario %s: compress --level 1 of the %s original fails (exit %d%s)" % (json.dumps({k: v for k, v in c.items() if k != "expect"}), c["content"], rc0,
                                          ", panic" if ("panicked at" in err0 or rc0 == 101) else ""), {"scenario": c, "problems": ["compress failed while preparing the archive", err0[-300:]]}, tag="cli")
                        shutil.rmtree(d, ignore_errors=True)
                        continue
                    raw = open(arch, "rb").read()
                    if c["archive"] == "truncated":
                        open(arch, "wb").write(raw[: max(1, len(raw) - rnd.randrange(1, min(len(raw), 40)))])
                    elif c["archive"] == "notzstd":
                        open(arch, "wb").write(b"this is not a zstandard archive at all" + raw[10:30])
                args = ["decompress", arch]
                outp = os.path.join(d, "data.bin")          # default: archive name without .zst, in the current directory
                if c["out"] == "explicit":
                    outp = os.path.join(d, "restored.out")
                    args.append(outp)
                put_prior(outp, c["prior"])
                rc, err = runcli(cli, args, d)
                ok = rc == 0
                key = "decompress:%s:%s" % (c["archive"], "ok" if ok else "fail")
                outcomes[key] = outcomes.get(key, 0) + 1
                if "panicked at" in err or rc == 101:
                    why.append("the tool panicked (exit %d): %s" % (rc, err.strip().splitlines()[0][:200] if err.strip() else ""))
                if ok != c["expect"]["ok"]:
                    why.append("exit status %d, specified %s" % (rc, "success" if c["expect"]["ok"] else "failure"))
                if ok and c["expect"]["ok"]:
                    if not os.path.exists(outp) or open(outp, "rb").read() != data:
                        why.append("the decompressed file differs from the original (%d bytes, original %d)" % (os.path.getsize(outp) if os.path.exists(outp) else -1, len(data)))
            if why:
                nbad += 1
                if nbad <= 10:
                    ctx.violation("cli scenario %s: %s" % (json.dumps({k: v for k, v in c.items() if k != "expect"}), "; ".join(why)), {"scenario": c, "problems": why}, tag="cli")
            shutil.rmtree(d, ignore_errors=True)
    ctx.states += len(cases)
    ctx.transitions += max(res.generated, 1)
    ctx.evaluations += nrun
    ctx.distinct += len(cases)
    ctx.traces += nrun
    ctx.cov["cli_scenarios"] = {"scenarios": len(cases), "runs": nrun, "mismatches": nbad, "outcomes": outcomes}
    if len(cases) < 100 or len(outcomes) < 12:
        raise ToolError("vacuous cli enumeration")
    ctx.add_samples([cases[0], cases[-1]], 2)
    ctx.assumptions += ["a non-zero exit status without a panic counts as reported failure, also when a partial output of a failed decompress remains",
                        "the default output path of decompress is the archive name without its extension in the current directory"]
    return ctx.finish("model_checking")
