"""State graph (TLC `-dump dot,actionlabels`) -> programs that together cover every labelled transition.

Each program is a list of steps {"op": action name, "args": [...], "exp": {var: value}} where `exp` is the
valuation of the target state restricted to `keep` (the predicted observables).  Construction: BFS tree
path from the initial state to the source of a still-uncovered edge, then a greedy walk along uncovered
edges.  Every edge of the reachable graph is in at least one program ("one implementation test per
transition").
"""
import re, json, collections

_edge = re.compile(r'^(-?\d+) -> (-?\d+) \[label="(.*?)",color')
_node = re.compile(r'^(-?\d+) \[label="(.*?)"(,tooltip|,style)')


def conv(v):
    v = v.strip()
    if v in ("TRUE", "FALSE"):
        return v == "TRUE"
    if v.startswith("<<"):
        inner = v[2:-2].strip()
        if not inner:
            return []
        return [conv(x) for x in split_top(inner)]
    if v.startswith('"'):
        return v.strip('"')
    if v.startswith("{"):
        inner = v[1:-1].strip()
        return [conv(x) for x in split_top(inner)] if inner else []
    try:
        return int(v)
    except ValueError:
        return v


def split_top(s):
    out, depth, cur = [], 0, ""
    i = 0
    while i < len(s):
        ch = s[i]
        two = s[i:i + 2]
        if two in ("<<", "[|"):
            depth += 1
            cur += two
            i += 2
            continue
        if two in (">>", "|]"):
            depth -= 1
            cur += two
            i += 2
            continue
        if ch in "({[":
            depth += 1
        if ch in ")}]":
            depth -= 1
        if ch == "," and depth == 0:
            out.append(cur)
            cur = ""
        else:
            cur += ch
        i += 1
    if cur.strip() != "":
        out.append(cur)
    return out


def parse_label(l):
    m = re.match(r'^(\w+)(?:\((.*)\))?$', l)
    if not m:
        return l, []
    name = m.group(1)
    args = []
    if m.group(2) is not None:
        args = [conv(a) for a in split_top(m.group(2))]
    return name, args


def load(dot, keep):
    nodes = {}
    edges = collections.defaultdict(list)
    init = None
    nedges = 0
    keepset = set(keep)
    with open(dot) as f:
        for line in f:
            m = _edge.match(line)
            if m:
                edges[m.group(1)].append((m.group(3).replace('\\"', '"'), m.group(2)))
                nedges += 1
                continue
            m = _node.match(line)
            if m:
                lab = m.group(2).replace('\\\\', '\\').replace('\\"', '"')
                d = {}
                for part in lab.split('\\n'):
                    part = part.strip()
                    if part.startswith('/\\ '):
                        part = part[3:]
                    if ' = ' not in part:
                        continue
                    k, v = part.split(' = ', 1)
                    if k in keepset:
                        d[k] = conv(v)
                nodes[m.group(1)] = d
                if m.group(3) == ',style':
                    init = m.group(1)
    return nodes, edges, init, nedges


def programs(dot, keep, out_path, skip_ops=(), max_len=None):
    """Write the covering programs as ndjson; returns statistics."""
    nodes, edges, init, nedges = load(dot, keep)
    for u in edges:
        edges[u] = sorted(set(edges[u]))
    par = {init: None}
    q = collections.deque([init])
    depth = {init: 0}
    while q:
        u = q.popleft()
        for (l, v) in edges.get(u, ()):
            if v not in par:
                par[v] = (u, l)
                depth[v] = depth[u] + 1
                q.append(v)

    def path(u):
        p = []
        while par[u] is not None:
            pu, l = par[u]
            p.append((l, u))
            u = pu
        return p[::-1]

    unvis = set()
    for u in edges:
        for (l, v) in edges[u]:
            unvis.add((u, l, v))
    total = len(unvis)
    ptr = {u: 0 for u in edges}
    order = sorted(edges.keys(), key=lambda u: depth.get(u, 1 << 30))
    nprog = nsteps = 0
    opcount = collections.Counter()
    with open(out_path, "w") as out:
        for u0 in order:
            if u0 not in par:
                continue
            while True:
                # advance pointer of u0 to next unvisited edge
                es = edges[u0]
                while ptr[u0] < len(es) and (u0, es[ptr[u0]][0], es[ptr[u0]][1]) not in unvis:
                    ptr[u0] += 1
                if ptr[u0] >= len(es):
                    break
                p = path(u0)
                cur = u0
                while True:
                    es = edges.get(cur)
                    if not es:
                        break
                    while ptr[cur] < len(es) and (cur, es[ptr[cur]][0], es[ptr[cur]][1]) not in unvis:
                        ptr[cur] += 1
                    if ptr[cur] >= len(es):
                        break
                    l, v = es[ptr[cur]]
                    unvis.discard((cur, l, v))
                    p.append((l, v))
                    cur = v
                    if max_len and len(p) >= max_len:
                        break
                rec = []
                for (l, n) in p:
                    name, args = parse_label(l)
                    opcount[name] += 1
                    rec.append({"op": name, "args": args, "exp": nodes[n]})
                out.write(json.dumps(rec, separators=(",", ":")) + "\n")
                nprog += 1
                nsteps += len(rec)
    return {"nodes": len(nodes), "edges": total, "programs": nprog, "steps": nsteps, "ops": dict(opcount)}
