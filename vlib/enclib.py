"""Encoder family helpers (C02, C08, C15): FrameCompressor model, programs from its graph, trace validation of the
recorded block decisions, seeded random input programs."""
import json, os, random
from .common import *
from . import walk

FC_INVS = ["SyncNow", "BeliefSound", "OneLast", "Structure", "FreshFrame"]


def model_and_replay(ctx, stride=1, max_frames=2, max_blocks=2):
    cfg = ctx.path("MC_FrameCompressor.cfg")
    consts = {"MaxFrames": max_frames, "MaxBlocks": max_blocks, "Levels": '{"U", "F"}', "Frags": "{0, 7, 9}", "Dev_F5": "FALSE", "Dev_LitRaw": "FALSE", "Dev_HashOnSetSource": "FALSE"}
    write_cfg(cfg, constants=consts, invariants=FC_INVS)
    dot = ctx.path("fc.dot")
    res = tlc(ctx, "FrameCompressor", cfg, workers=8, dump=dot, name="MC_FrameCompressor")
    tlc_must_pass(ctx, res, "FrameCompressor model")
    # non-vacuity of the design invariant: with the pre-repair ordering TLC must find the stale belief
    cfg5 = ctx.path("MC_FrameCompressor_F5.cfg")
    write_cfg(cfg5, constants=dict(consts, Dev_F5="TRUE"), invariants=FC_INVS)
    r5 = tlc(ctx, "FrameCompressor", cfg5, workers=4, name="MC_FrameCompressor_F5")
    if r5.inv_violated != "BeliefSound":
        raise ToolError("self-test failed: the model with Dev_F5 does not violate BeliefSound (%s)" % (r5.inv_violated or r5.error))
    cfg6 = ctx.path("MC_FrameCompressor_LitRaw.cfg")
    write_cfg(cfg6, constants=dict(consts, Dev_LitRaw="TRUE"), invariants=FC_INVS)
    r6 = tlc(ctx, "FrameCompressor", cfg6, workers=4, name="MC_FrameCompressor_LitRaw")
    if r6.inv_violated != "BeliefSound":
        raise ToolError("self-test failed: the model with Dev_LitRaw does not violate BeliefSound (%s)" % (r6.inv_violated or r6.error))
    cfg7 = ctx.path("MC_FrameCompressor_Hash.cfg")
    write_cfg(cfg7, constants=dict(consts, Dev_HashOnSetSource="TRUE"), invariants=FC_INVS)
    r7 = tlc(ctx, "FrameCompressor", cfg7, workers=4, name="MC_FrameCompressor_Hash")
    if r7.inv_violated != "Structure":
        raise ToolError("self-test failed: the model with Dev_HashOnSetSource does not violate Structure (%s)" % (r7.inv_violated or r7.error))
    ctx.states += res.distinct
    ctx.transitions += res.generated
    progs = ctx.path("fc_programs.ndjson")
    st = walk.programs(dot, ["phase", "frame"], progs)
    os.remove(dot)
    if st["edges"] < 100:
        raise ToolError("vacuous FrameCompressor graph %s" % st)
    rep = ctx.path("encgraph.json")
    trace = ctx.path("enc_trace.ndjson")
    vh(ctx, ["encgraph", progs, rep, trace, ctx.seed, stride], timeout=7200)
    rj = json.load(open(rep))
    ctx.evaluations += rj["frames"]
    ctx.distinct += st["edges"]
    ctx.cov["frame_compressor_model"] = {"constants": consts, "distinct_states": res.distinct, "transitions": res.generated, "graph_edges": st["edges"],
                                         "programs_replayed": rj["programs"], "frames_compressed": rj["frames"], "mismatches": rj["mismatches"],
                                         "observed_decisions": rj["observed_decisions"],
                                         "dev_F5_selftest": "BeliefSound violated after %d states with the pre-repair ordering" % r5.distinct}
    _drift_note(ctx, rj, "graph programs")
    _report(ctx, rj, "enc", 300)
    ctx.add_samples(rj["samples"][:1], 1)
    # ---- trace validation of the recorded decisions ----
    tcfg = ctx.path("Trace_FrameCompressor.cfg")
    write_cfg(tcfg, spec="TSpec", constants={"MaxFrames": 1000000, "MaxBlocks": 1000000, "Levels": '{"U", "F"}', "Frags": "{0}", "Dev_F5": "FALSE", "Dev_LitRaw": "FALSE", "Dev_HashOnSetSource": "FALSE"},
              invariants=FC_INVS, postcondition="Accepted")
    ok, info, tres = trace_validate(ctx, "Trace_FrameCompressor", tcfg, trace, "tv_frame_compressor")
    ctx.traces += rj["programs"]
    if ok:
        ctx.cov["trace_validation_encoder"] = {"events_accepted": info["events"]}
    else:
        recs = read_ndjson(trace)
        at = info["rejected_at"] or 1
        start = max([i for i in range(min(at, len(recs))) if recs[i]["ev"] == "new"] or [0])
        prefix = recs[start:at]
        ctx.cov["trace_validation_encoder"] = {"rejected_at": at, "record": info["record"], "invariant": info["invariant"]}
        if info["invariant"] in ("OneLast", "Structure", "SyncNow"):
            ctx.violation("recorded compression breaks %s at event %d: %s" % (info["invariant"], at, json.dumps(prefix[-3:])), {"trace_prefix": prefix}, tag="enctv")
        else:
            # the block decisions left the specification (e.g. a Huffman belief the shadow decoder does not share): without a
            # frame that fails to decode this is reported as drift; the twin-block programs above turn a stale belief into a
            # concrete undecodable frame
            ctx.notes.append("encoder trace left the specification at event %d (%s): %s" % (at, info["invariant"] or "no enabled action", json.dumps(prefix[-2:])[:600]))
    return rj


# which categories of frame defects each property speaks about (the shared pipeline finds all of them; a check reports its own)
RELEVANT = {"C02": ("[dec]", "[panic]"), "C15": ("[wf]", "[bound]", "[dec]", "[panic]"), "C08": ("[cks]", "[panic]")}


def _report(ctx, rj, tag, cut=None):
    rel = RELEVANT.get(ctx.pid, ("[",))
    for m in rj["first"]:
        mine = [e for e in m["errors"] if e.startswith(rel)]
        other = [e for e in m["errors"] if not e.startswith(rel)]
        prog = json.dumps(m["program"])[:cut]
        if mine:
            ctx.violation("compressor program %s frame %d: %s" % (prog, m["frame_index"], "; ".join(mine)), m, tag=tag)
        elif other:
            ctx.notes.append("outside this property (see the check named by the category): program %s frame %d: %s" % (prog[:300], m["frame_index"], "; ".join(other)[:300]))


def _drift_note(ctx, rj, what):
    ctx.cov.setdefault("drifted_frames", {})[what] = rj.get("drifted_frames", 0)
    if rj.get("drifted_frames"):
        ctx.notes.append("drift (not a violation): %d frames of the %s are valid but not laid out like the as-built model (block split, header "
                         "choices); they were judged by the property-level checks only. Example: %s"
                         % (rj["drifted_frames"], what, json.dumps(rj["drift_examples"][:1])[:600]))
        log("[drift] %s: %d frames" % (what, rj["drifted_frames"]))


LENS = [0, 1, 2, 4, 5, 6, 7, 100, 1023, 1024, 1025, 1026, 4095, 16383, 16384, 16385, 65535, 131071, 131072, 131073, 262143, 262144, 262145, 393216]
CLASSES = ["empty_or_tiny", "all_equal", "random", "text", "skewed", "skewed_match", "periodic", "mixed", "runs", "skewed_unique", "base64"]


def random_programs(ctx, n, path):
    rnd = random.Random(ctx.seed * 7919 + 13)
    with open(path, "w") as f:
        # the full grid of boundary lengths x content classes at level Fastest (section size formats, block boundaries)
        for ln in LENS:
            for cls in CLASSES:
                if cls == "empty_or_tiny" and ln > 4:
                    continue
                f.write(json.dumps([{"level": "F", "class": cls, "len": ln, "seed": rnd.randrange(1 << 40), "frag": 0}]) + "\n")
        for i in range(n):
            prog = []
            for k in range(rnd.choice([1, 1, 2, 3])):
                ln = rnd.choice(LENS) if rnd.random() < 0.7 else int(2 ** rnd.uniform(0, 18.6))
                prog.append({"level": rnd.choice(["F", "F", "F", "U"]), "class": rnd.choice(CLASSES), "len": ln, "seed": rnd.randrange(1 << 40),
                             "frag": rnd.choice([0, 0, 1, 7, 4096, 131071, "straddle"]) if ln < 300000 or rnd.random() < 0.5 else 0})
                if prog[-1]["frag"] == 1 and ln > 200000:
                    prog[-1]["frag"] = 7
                if k > 0 and rnd.random() < 0.3:
                    prog[-1]["cont"] = True      # compress() again on the installed source (more data arrives), no set_source
            f.write(json.dumps(prog) + "\n")


def random_inputs(ctx, n):
    progs = ctx.path("enc_random_programs.ndjson")
    random_programs(ctx, n, progs)
    rep = ctx.path("encexec.json")
    vh(ctx, ["encexec", progs, rep], timeout=7200)
    rj = json.load(open(rep))
    ctx.evaluations += rj["frames"]
    ctx.traces += rj["programs"]
    ctx.cov["random_input_programs"] = {k: rj[k] for k in ("programs", "frames", "mismatches", "block_kinds")}
    _drift_note(ctx, rj, "random programs")
    _report(ctx, rj, "encrand")
    ctx.add_samples(rj["samples"][:1], 1)
    return rj
